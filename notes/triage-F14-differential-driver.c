#include <stdio.h>
#include <stdlib.h>
#include <stdint.h>
#include "digital_rf.h"
static uint64_t st;
static uint32_t rnd(void){ st = st*6364136223846793005ULL + 1442695040888963407ULL; return (uint32_t)(st>>33); }
int main(int argc, char **argv)
{
	/* argv: dir seed compress checksum */
	Digital_rf_write_object *w;
	int16_t buf[4000];
	uint64_t gidx[64], didx[64];
	uint64_t next = 0;
	int call, i, rc, nb;
	st = strtoull(argv[2], 0, 10);
	int comp = atoi(argv[3]), cks = atoi(argv[4]);
	uint64_t filems[] = {100, 250, 1000};
	uint64_t rate_n[] = {100, 200, 1000, 200};
	uint64_t rate_d[] = {1, 3, 7, 1};
	int fi = rnd()%3, ri = rnd()%4;
	w = digital_rf_create_write_hdf5(argv[1], H5T_NATIVE_SHORT, 2, filems[fi], 0, rate_n[ri], rate_d[ri], "fz", comp, cks, 0, 1, 0, 0);
	if (!w) { printf("create failed\n"); return 0; }
	next = 1500000000ULL * rate_n[ri] / rate_d[ri] + rnd()%50;
	for (call = 0; call < 12; call++) {
		uint64_t len = 0, g = next + (rnd()%3==0 ? rnd()%40 : 0);
		nb = 1 + rnd()%5;
		for (i = 0; i < nb; i++) {
			uint64_t bl = 1 + rnd()%60;
			gidx[i] = g; didx[i] = len;
			len += bl; g += bl;
			/* gap; often chosen so that the next block starts on a multiple of 5/10/20/25 samples (file boundaries) */
			if (rnd()%2) { uint64_t q[] = {5,10,20,25,100}; uint64_t m = q[rnd()%5]; g = ((g + m) / m) * m; }
			else g += 1 + rnd()%30;
		}
		for (i = 0; i < (int)len; i++) buf[i] = (int16_t)(rnd() & 0x7fff);
		rc = digital_rf_write_blocks_hdf5(w, gidx, didx, nb, buf, len);
		printf("call %d rc=%d global_index=%llu\n", call, rc, (unsigned long long)w->global_index);
		if (rc) break;
		next = w->global_index;
	}
	digital_rf_close_write_hdf5(w);
	return 0;
}
