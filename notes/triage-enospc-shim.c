#define _GNU_SOURCE
#include <dlfcn.h>
#include <errno.h>
#include <stdlib.h>
#include <unistd.h>
#include <stdio.h>
#include <sys/types.h>
static int count=0;
static int failfrom(void){ char*e=getenv("FAIL_FROM"); return e?atoi(e):-1; }
static int persistent(void){ return getenv("FAIL_ONCE")==NULL; }
static int shouldfail(void){ int f=failfrom(); count++; if(f<0) return 0; if(persistent()) return count>=f; return count==f; }
ssize_t pwrite(int fd, const void*buf, size_t n, off_t off){
  static ssize_t(*real)(int,const void*,size_t,off_t)=0; if(!real) real=dlsym(RTLD_NEXT,"pwrite");
  if(fd>2 && shouldfail()){ if(getenv("SHIM_V")) fprintf(stderr,"[shim] pwrite #%d fails\n",count); errno=ENOSPC; return -1;} return real(fd,buf,n,off);}
ssize_t pwrite64(int fd, const void*buf, size_t n, off_t off){
  static ssize_t(*real)(int,const void*,size_t,off_t)=0; if(!real) real=dlsym(RTLD_NEXT,"pwrite64");
  if(fd>2 && shouldfail()){ if(getenv("SHIM_V")) fprintf(stderr,"[shim] pwrite64 #%d fails\n",count); errno=ENOSPC; return -1;} return real(fd,buf,n,off);}
ssize_t write(int fd, const void*buf, size_t n){
  static ssize_t(*real)(int,const void*,size_t)=0; if(!real) real=dlsym(RTLD_NEXT,"write");
  if(fd>2 && shouldfail()){ if(getenv("SHIM_V")) fprintf(stderr,"[shim] write #%d fails\n",count); errno=ENOSPC; return -1;} return real(fd,buf,n);}
