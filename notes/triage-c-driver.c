#include "digital_rf.h"
#include <stdio.h>
int main(int argc, char**argv){
  char dir[512]; snprintf(dir,sizeof dir,"%s",argv[1]);
  Digital_rf_write_object *o = digital_rf_create_write_hdf5(dir, H5T_NATIVE_SHORT, 3600, 400, 1500000000ULL*100, 100, 1, "uuid", 0, 0, 0, 1, 1, 0);
  if(!o){printf("create failed\n");return 1;}
  short buf[1000]; for(int i=0;i<1000;i++)buf[i]=i;
  int r=digital_rf_write_hdf5(o,0,buf,100); printf("w1=%d\n",r);
  r=digital_rf_write_hdf5(o,100,buf,100); printf("w2=%d\n",r);
  digital_rf_close_write_hdf5(o); printf("closed\n"); return 0; }
