#include <stdio.h>
#include <stdlib.h>
#include <stdint.h>
#include "digital_rf.h"
int main(int argc, char **argv)
{
	Digital_rf_write_object *w;
	int16_t buf[150];
	/* 100 Hz, 1 s files -> 100 samples per file; block 0 = samples 40..89 (50), block 1 starts exactly at 100 (next file) with 100 samples */
	uint64_t gidx[2] = {40, 100};
	uint64_t didx[2] = {0, 50};
	int i, rc;
	for (i = 0; i < 150; i++) buf[i] = i;
	w = digital_rf_create_write_hdf5(argv[1], H5T_NATIVE_SHORT, 3600, 1000, 150000000000ULL, 100, 1, "t06", 0, 0, 0, 1, 0, 0);
	if (!w) return 98;
	rc = digital_rf_write_blocks_hdf5(w, gidx, didx, 2, buf, 150);
	printf("rc=%d\n", rc);
	digital_rf_close_write_hdf5(w);
	return 0;
}
