import os, datetime, sys
sys.path.insert(0, os.environ.get("DRF_PKG", "/tmp/sc"))  # a directory holding the digital_rf package built from /repo sources (mkscratch)
import digital_rf
from digital_rf import list_drf
print(list_drf.__file__)
root = "/tmp/f13-tree/ch"
os.makedirs(root)
open(os.path.join(root, "dmd_properties.h5"), "w").close()
epoch = datetime.datetime(1970,1,1)
def sub(t): return (epoch + datetime.timedelta(seconds=t)).strftime("%Y-%m-%dT%H-%M-%S")
T0 = 1500000000 - 1500000000 % 3600
files = []
for h in range(4):   # 4 subdirs of 1 hour, files every 600 s
    d = os.path.join(root, sub(T0 + 3600*h)); os.makedirs(d)
    for k in range(6):
        t = T0 + 3600*h + 600*k
        p = os.path.join(d, "metadata@%d.h5" % t); open(p, "w").close(); files.append((t, p))
def oracle(start, end):
    sel = [p for t, p in files if start <= t <= end]
    before = [(t, p) for t, p in files if t < start]
    if before and not any(t == start for t, p in files):
        sel.append(max(before)[1])
    return sorted(sel)
bad = 0
for start in [T0 + 3600 + 50, T0 + 3600 + 650, T0 + 3600, T0 + 2*3600 - 1, T0 + 100]:
    for end in [T0 + 3*3600 + 700, T0 + 2*3600 + 10]:
        st = datetime.timedelta(seconds=start); et = datetime.timedelta(seconds=end)
        st = epoch.replace(tzinfo=datetime.timezone.utc) + st; et = epoch.replace(tzinfo=datetime.timezone.utc) + et
        fwd = list(list_drf.ilsdrf("/tmp/f13-tree", starttime=st, endtime=et, include_dmd_properties=False, include_drf_properties=False))
        rev = list(list_drf.ilsdrf("/tmp/f13-tree", starttime=st, endtime=et, reverse=True, include_dmd_properties=False, include_drf_properties=False))
        o = oracle(start, end)
        okf = sorted(fwd) == o and fwd == sorted(fwd)
        okr = sorted(rev) == o and rev == sorted(rev, reverse=True)
        print(start - T0, end - T0, "fwd", "ok" if okf else "BAD", "rev", "ok" if okr else "BAD")
        if not okr:
            bad += 1
            print("   rev:", [os.path.basename(p) for p in rev][:12])
            print("   missing:", [os.path.basename(p) for p in set(o) - set(rev)], "extra:", [os.path.basename(p) for p in set(rev) - set(o)])
        if not okf:
            print("   fwd missing:", [os.path.basename(p) for p in set(o) - set(fwd)], "extra:", [os.path.basename(p) for p in set(fwd) - set(o)])
sys.exit(1 if bad else 0)
