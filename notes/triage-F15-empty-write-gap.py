"""C19 demo 1: rf_write() of an empty array with next_sample ahead of the cursor inflates total_gap_samples."""
import sys, os, numpy as np
import digital_rf
from digital_rf import _py_rf_write_hdf5 as ext
assert os.path.dirname(ext.__file__) == os.path.dirname(digital_rf.__file__)

chan = sys.argv[1]
w = digital_rf.DigitalRFWriter(chan, 'i2', 3600, 1000, 100 * 1000, 100, 1, is_complex=False,
                               is_continuous=False, marching_periods=False)
r1 = w.rf_write(np.arange(10, dtype='i2'))             # samples 0..9
r2 = w.rf_write(np.zeros((0,), dtype='i2'), 50)        # nothing to write, "at" 50: accepted, returns 10
r3 = w.rf_write(np.arange(10, dtype='i2'), 20)         # samples 20..29 (skips 10..19)
na, tw, tg = w.get_next_available_sample(), w.get_total_samples_written(), w.get_total_gap_samples()
w.close()
# oracle from the property text: highest index written 29 -> next 30; 20 samples accepted; skipped indices 10..19 -> 10
exp = (30, 20, 10)
ok = (r1, r2, r3) == (10, 10, 30) and (na, tw, tg) == exp and tw + tg == na
print("returns=%s next_avail=%d total_written=%d total_gap=%d (expected %s; written+gap=%d vs next_avail=%d) -> %s"
      % ((r1, r2, r3), na, tw, tg, exp, tw + tg, na, "OK" if ok else "VIOLATION: gap counter counts indices that were never skipped"))
sys.exit(0 if ok else 1)
