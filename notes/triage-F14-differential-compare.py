import sys, os, glob, subprocess, shutil
import h5py, numpy as np
sys.path.insert(0, "/tmp/sc")
import digital_rf
nph = 0; nfiles = 0; bad = 0; nruns = 0
for seed in range(1, 401):
    for comp, cks in ((0, 0), (1, 0), (0, 1)):
        outs = {}
        for tag in ("old", "new"):
            d = "/tmp/t06/fz/%s" % tag
            shutil.rmtree(d, ignore_errors=True); os.makedirs(d + "/ch")
            p = subprocess.run(["/tmp/t06/fz_%s" % tag, d + "/ch", str(seed), str(comp), str(cks)], stdout=subprocess.PIPE, stderr=subprocess.DEVNULL)
            outs[tag] = p.stdout.decode()
        nruns += 1
        if outs["old"] != outs["new"]:
            print("seed", seed, comp, cks, "return codes / cursor differ"); print(outs["old"]); print(outs["new"]); bad += 1; continue
        fo = sorted(glob.glob("/tmp/t06/fz/old/ch/*/rf@*.h5")); fn = sorted(glob.glob("/tmp/t06/fz/new/ch/*/rf@*.h5"))
        if [f.replace("/old/", "/new/") for f in fo] != fn:
            print("seed", seed, "file sets differ"); bad += 1; continue
        for a, b in zip(fo, fn):
            with h5py.File(a, "r") as ha, h5py.File(b, "r") as hb:
                da, db = ha["rf_data"][...], hb["rf_data"][...]
                ia, ib = ha["rf_data_index"][...], hb["rf_data_index"][...]
            nfiles += 1
            if not np.array_equal(da, db):
                print("seed", seed, a, "data differ"); bad += 1
            keep = ia[ia[:, 1] < len(da)]
            nph += len(ia) - len(keep)
            if not np.array_equal(keep, ib):
                print("seed", seed, a, "index differs beyond phantom rows", ia.tolist(), ib.tolist()); bad += 1
            # new index well-formed: offsets < len, strictly increasing
            if len(ib) == 0 or ib[0, 1] != 0 or (np.diff(ib[:, 1].astype(np.int64)) <= 0).any() or (np.diff(ib[:, 0].astype(np.int64)) <= 0).any() or (ib[:, 1] >= len(db)).any():
                print("seed", seed, b, "new index malformed", ib.tolist(), len(db)); bad += 1
        # reader equality
        try:
            ro = digital_rf.DigitalRFReader("/tmp/t06/fz/old"); rn = digital_rf.DigitalRFReader("/tmp/t06/fz/new")
            bo, bn = ro.get_bounds("ch"), rn.get_bounds("ch")
            if bo != bn: print("seed", seed, "bounds differ", bo, bn); bad += 1
            if bo[0] is not None:
                co = ro.get_continuous_blocks(bo[0], bo[1], "ch"); cn = rn.get_continuous_blocks(bn[0], bn[1], "ch")
                if list(co.items()) != list(cn.items()): print("seed", seed, "blocks differ", co, cn); bad += 1
                xo = ro.read(bo[0], bo[1], "ch"); xn = rn.read(bn[0], bn[1], "ch")
                if list(xo) != list(xn) or any(not np.array_equal(xo[k], xn[k]) for k in xo): print("seed", seed, "read differs"); bad += 1
        except Exception as e:
            print("seed", seed, "reader error", repr(e)); bad += 1
print("runs", nruns, "files", nfiles, "phantom rows removed", nph, "problems", bad)
