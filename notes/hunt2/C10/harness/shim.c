/* LD_PRELOAD fault injector.
 * FI_PREFIX  - only operations on paths below this prefix (or fds opened there) are counted
 * FI_LOG     - log file (must be outside FI_PREFIX); one line per counted operation
 * FI_AT      - 1-based number of the counted operation that fails first (0: none)
 * FI_MODE    - 0 once; 1 every later op of the same class; 2 disk full (write/truncate/create/mkdir) from then on;
 *              3 every later counted op
 * FI_ERRNO   - errno to report (28 ENOSPC / 5 EIO)
 * fi_tag(s)  - exported: sets a tag string that is written with each log line
 */
#define _GNU_SOURCE
#include <dlfcn.h>
#include <errno.h>
#include <fcntl.h>
#include <stdarg.h>
#include <stdio.h>
#include <stdlib.h>
#include <string.h>
#include <sys/stat.h>
#include <sys/types.h>
#include <unistd.h>

enum { C_WRITE, C_TRUNC, C_OPEN, C_MKDIR, C_RENAME, C_CLOSE };
static const char *cname[] = {"write", "trunc", "open", "mkdir", "rename", "close"};

static int inited = 0;
static char prefix[1024];
static size_t plen;
static int logfd = -1;
static long at = 0;
static int mode = 0;
static int err_no = ENOSPC;
static long counter = 0;
static int triggered = 0;
static int trig_class = -1;
static char tracked[65536];
static char tag[128] = "-";

static ssize_t (*r_write)(int, const void *, size_t);
static ssize_t (*r_pwrite)(int, const void *, size_t, off_t);
static ssize_t (*r_pwrite64)(int, const void *, size_t, off_t);
static int (*r_ftruncate)(int, off_t);
static int (*r_ftruncate64)(int, off_t);
static int (*r_open)(const char *, int, ...);
static int (*r_open64)(const char *, int, ...);
static int (*r_openat)(int, const char *, int, ...);
static int (*r_creat)(const char *, mode_t);
static int (*r_mkdir)(const char *, mode_t);
static int (*r_rename)(const char *, const char *);
static int (*r_close)(int);

void fi_tag(const char *s)
{
    strncpy(tag, s, sizeof(tag) - 1);
    tag[sizeof(tag) - 1] = 0;
}

static void init(void)
{
    const char *p;
    if (inited) return;
    inited = 1;
    r_write = dlsym(RTLD_NEXT, "write");
    r_pwrite = dlsym(RTLD_NEXT, "pwrite");
    r_pwrite64 = dlsym(RTLD_NEXT, "pwrite64");
    r_ftruncate = dlsym(RTLD_NEXT, "ftruncate");
    r_ftruncate64 = dlsym(RTLD_NEXT, "ftruncate64");
    r_open = dlsym(RTLD_NEXT, "open");
    r_open64 = dlsym(RTLD_NEXT, "open64");
    r_openat = dlsym(RTLD_NEXT, "openat");
    r_creat = dlsym(RTLD_NEXT, "creat");
    r_mkdir = dlsym(RTLD_NEXT, "mkdir");
    r_rename = dlsym(RTLD_NEXT, "rename");
    r_close = dlsym(RTLD_NEXT, "close");
    p = getenv("FI_PREFIX");
    if (p) { strncpy(prefix, p, sizeof(prefix) - 1); plen = strlen(prefix); }
    p = getenv("FI_AT"); if (p) at = atol(p);
    p = getenv("FI_MODE"); if (p) mode = atoi(p);
    p = getenv("FI_ERRNO"); if (p) err_no = atoi(p);
    p = getenv("FI_LOG");
    if (p) logfd = r_open(p, O_WRONLY | O_CREAT | O_APPEND, 0644);
}

static int watched_path(const char *path)
{
    return plen && path && strncmp(path, prefix, plen) == 0;
}
static int watched_fd(int fd)
{
    return fd >= 0 && fd < (int)sizeof(tracked) && tracked[fd];
}

/* decide whether this counted op fails; logs it. extra: class-specific flag (for open: creating) */
static int decide(int cls, const char *what, long a, long b, int creating)
{
    int fail = 0;
    char buf[1400];
    int n;
    counter++;
    if (at > 0) {
        if (!triggered && counter == at) {
            triggered = 1; trig_class = cls; fail = 1;
        } else if (triggered) {
            switch (mode) {
            case 1: fail = (cls == trig_class); break;
            case 2: fail = (cls == C_WRITE || cls == C_TRUNC || cls == C_MKDIR || (cls == C_OPEN && creating)); break;
            case 3: fail = 1; break;
            default: fail = 0;
            }
        }
    }
    if (logfd >= 0) {
        n = snprintf(buf, sizeof(buf), "%ld %s %s %ld %ld %s %s\n", counter, cname[cls], what ? what : "-", a, b, tag,
                     fail ? "FAIL" : "ok");
        if (n > 0) r_write(logfd, buf, (size_t)n);
    }
    return fail;
}

static void post(int cls, long ret)
{
    char buf[256];
    int n, e = errno;
    if (ret >= 0 || logfd < 0 || !(e == ENOSPC || e == EIO || e == EDQUOT)) return;
    n = snprintf(buf, sizeof(buf), "%ld %s real %d 0 %s FAIL\n", counter, cname[cls], e, tag);
    if (n > 0) r_write(logfd, buf, (size_t)n);
    errno = e;
}

ssize_t write(int fd, const void *buf, size_t n)
{
    init();
    if (watched_fd(fd)) { ssize_t r; if (decide(C_WRITE, NULL, fd, (long)n, 0)) { errno = err_no; return -1; } r = r_write(fd, buf, n); post(C_WRITE, r); return r; }
    return r_write(fd, buf, n);
}
ssize_t pwrite(int fd, const void *buf, size_t n, off_t off)
{
    init();
    if (watched_fd(fd)) { ssize_t r; if (decide(C_WRITE, NULL, (long)off, (long)n, 0)) { errno = err_no; return -1; } r = r_pwrite(fd, buf, n, off); post(C_WRITE, r); return r; }
    return r_pwrite(fd, buf, n, off);
}
ssize_t pwrite64(int fd, const void *buf, size_t n, off_t off)
{
    init();
    if (watched_fd(fd)) { ssize_t r; if (decide(C_WRITE, NULL, (long)off, (long)n, 0)) { errno = err_no; return -1; } r = r_pwrite64(fd, buf, n, off); post(C_WRITE, r); return r; }
    return r_pwrite64(fd, buf, n, off);
}
int ftruncate(int fd, off_t len)
{
    init();
    if (watched_fd(fd)) { int r; if (decide(C_TRUNC, NULL, fd, (long)len, 0)) { errno = err_no; return -1; } r = r_ftruncate(fd, len); post(C_TRUNC, r); return r; }
    return r_ftruncate(fd, len);
}
int ftruncate64(int fd, off_t len)
{
    init();
    if (watched_fd(fd)) { int r; if (decide(C_TRUNC, NULL, fd, (long)len, 0)) { errno = err_no; return -1; } r = r_ftruncate64(fd, len); post(C_TRUNC, r); return r; }
    return r_ftruncate64(fd, len);
}

static int do_open(int which, int dirfd, const char *path, int flags, mode_t m)
{
    int fd;
    int w = watched_path(path);
    if (w) {
        int creating = 0;
        if (flags & O_CREAT) {
            struct stat st;
            creating = (stat(path, &st) != 0);
        }
        if (decide(C_OPEN, path + plen, flags, creating, creating)) { errno = err_no; return -1; }
    }
    if (which == 0) fd = r_open(path, flags, m);
    else if (which == 1) fd = r_open64(path, flags, m);
    else fd = r_openat(dirfd, path, flags, m);
    if (w) post(C_OPEN, fd);
    if (w && fd >= 0 && fd < (int)sizeof(tracked)) tracked[fd] = 1;
    return fd;
}
int open(const char *path, int flags, ...)
{
    mode_t m = 0;
    init();
    if (flags & (O_CREAT | O_TMPFILE)) { va_list ap; va_start(ap, flags); m = va_arg(ap, mode_t); va_end(ap); }
    return do_open(0, 0, path, flags, m);
}
int open64(const char *path, int flags, ...)
{
    mode_t m = 0;
    init();
    if (flags & (O_CREAT | O_TMPFILE)) { va_list ap; va_start(ap, flags); m = va_arg(ap, mode_t); va_end(ap); }
    return do_open(1, 0, path, flags, m);
}
int openat(int dirfd, const char *path, int flags, ...)
{
    mode_t m = 0;
    init();
    if (flags & (O_CREAT | O_TMPFILE)) { va_list ap; va_start(ap, flags); m = va_arg(ap, mode_t); va_end(ap); }
    return do_open(2, dirfd, path, flags, m);
}
int creat(const char *path, mode_t m)
{
    init();
    return do_open(0, 0, path, O_CREAT | O_WRONLY | O_TRUNC, m);
}
int mkdir(const char *path, mode_t m)
{
    init();
    if (watched_path(path)) { int r; if (decide(C_MKDIR, path + plen, 0, 0, 1)) { errno = err_no; return -1; } r = r_mkdir(path, m); post(C_MKDIR, r); return r; }
    return r_mkdir(path, m);
}
int rename(const char *a, const char *b)
{
    init();
    if (watched_path(a)) { int r; if (decide(C_RENAME, a + plen, 0, 0, 0)) { errno = err_no; return -1; } r = r_rename(a, b); post(C_RENAME, r); return r; }
    return r_rename(a, b);
}
int close(int fd)
{
    init();
    if (watched_fd(fd)) {
        int fail = decide(C_CLOSE, NULL, fd, 0, 0);
        tracked[fd] = 0;
        /* like a real failing close: the descriptor is released anyway */
        if (fail) { r_close(fd); errno = err_no; return -1; }
    }
    return r_close(fd);
}
const char *fi_get_tag(void) { return tag; }
