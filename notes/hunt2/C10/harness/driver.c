/* scenario driver for the C writer: driver <scenario> <results> */
#include <inttypes.h>
#include <stdio.h>
#include <stdlib.h>
#include <string.h>
#include "digital_rf.h"

extern void fi_tag(const char *) __attribute__((weak));

#define MAXW 8
typedef struct {
    Digital_rf_write_object *w;
    int size, kind, be, cplx, nsub;
    uint64_t start;
} W;
static W ws[MAXW];

static hid_t get_type(const char *code, int be)
{
    int sz = code[1] - '0';
    switch (code[0]) {
    case 'i':
        switch (sz) {
        case 1: return H5T_NATIVE_CHAR;
        case 2: return be ? H5T_STD_I16BE : H5T_STD_I16LE;
        case 4: return be ? H5T_STD_I32BE : H5T_STD_I32LE;
        case 8: return be ? H5T_STD_I64BE : H5T_STD_I64LE;
        }
        break;
    case 'u':
        switch (sz) {
        case 1: return H5T_NATIVE_UCHAR;
        case 2: return be ? H5T_STD_U16BE : H5T_STD_U16LE;
        case 4: return be ? H5T_STD_U32BE : H5T_STD_U32LE;
        case 8: return be ? H5T_STD_U64BE : H5T_STD_U64LE;
        }
        break;
    case 'f':
        switch (sz) {
        case 4: return be ? H5T_IEEE_F32BE : H5T_IEEE_F32LE;
        case 8: return be ? H5T_IEEE_F64BE : H5T_IEEE_F64LE;
        }
        break;
    }
    fprintf(stderr, "bad type %s\n", code);
    exit(99);
}

static void put(W *w, unsigned char *p, uint64_t absidx, int s, int c)
{
    uint64_t v = ((absidx * 7 + (uint64_t)s * 3 + (uint64_t)c * 5) % 97) + 1;
    unsigned char b[8];
    int i;
    if (w->kind == 'f') {
        if (w->size == 4) { float f = (float)v; memcpy(b, &f, 4); }
        else { double d = (double)v; memcpy(b, &d, 8); }
    } else {
        memcpy(b, &v, 8); /* little endian host: low bytes first */
    }
    if (w->be)
        for (i = 0; i < w->size; i++) p[i] = b[w->size - 1 - i];
    else
        memcpy(p, b, w->size);
}

static unsigned char *make_data(W *w, uint64_t n, uint64_t *g, uint64_t *d, uint64_t nb)
{
    int ncomp = w->cplx ? 2 : 1;
    size_t ssz = (size_t)w->size * ncomp * w->nsub;
    unsigned char *buf = malloc(ssz * (n ? n : 1));
    uint64_t j, blk = 0;
    int s, c;
    for (j = 0; j < n; j++) {
        while (blk + 1 < nb && d[blk + 1] <= j) blk++;
        uint64_t absidx = w->start + g[blk] + (j - d[blk]);
        for (s = 0; s < w->nsub; s++)
            for (c = 0; c < ncomp; c++)
                put(w, buf + j * ssz + ((size_t)s * ncomp + c) * w->size, absidx, s, c);
    }
    return buf;
}

int main(int argc, char **argv)
{
    FILE *sc, *out;
    char line[1 << 20];
    int lineno = 0;
    if (argc < 3) return 98;
    sc = fopen(argv[1], "r");
    out = fopen(argv[2], "w");
    if (!sc || !out) return 97;
    while (fgets(line, sizeof(line), sc)) {
        char cmd[16];
        int k, off = 0;
        char tagbuf[32];
        lineno++;
        if (sscanf(line, "%15s %d%n", cmd, &k, &off) < 2) continue;
        snprintf(tagbuf, sizeof(tagbuf), "L%d", lineno);
        if (fi_tag) fi_tag(tagbuf);
        if (!strcmp(cmd, "open")) {
            char dir[1024], code[8], bo[4], uuid[64];
            int cplx, nsub, comp, ck, cont;
            uint64_t sub, fc, start, num, den;
            W *w = &ws[k];
            sscanf(line + off, "%1023s %7s %3s %d %d %" SCNu64 " %" SCNu64 " %" SCNu64 " %" SCNu64 " %" SCNu64 " %d %d %d",
                   dir, code, bo, &cplx, &nsub, &sub, &fc, &start, &num, &den, &comp, &ck, &cont);
            w->size = code[1] - '0'; w->kind = code[0]; w->be = (bo[0] == '>'); w->cplx = cplx; w->nsub = nsub; w->start = start;
            snprintf(uuid, sizeof(uuid), "uuid-line-%d", lineno);
            w->w = digital_rf_create_write_hdf5(dir, get_type(code, w->be), sub, fc, start, num, den, uuid, comp, ck, cplx,
                                                nsub, cont, 0);
            fprintf(out, "ret %d %d\n", lineno, w->w ? 0 : 1);
        } else if (!strcmp(cmd, "w")) {
            uint64_t gi, n, d0 = 0;
            W *w = &ws[k];
            unsigned char *buf;
            int r;
            sscanf(line + off, "%" SCNu64 " %" SCNu64, &gi, &n);
            if (!w->w) { fprintf(out, "ret %d %d\n", lineno, 1000); fflush(out); continue; }
            buf = make_data(w, n, &gi, &d0, 1);
            r = digital_rf_write_hdf5(w->w, gi, buf, n);
            free(buf);
            fprintf(out, "ret %d %d\n", lineno, r);
        } else if (!strcmp(cmd, "b")) {
            uint64_t nb, n, i;
            uint64_t *g, *d;
            char *p = line + off;
            int adv, r;
            unsigned char *buf;
            W *w = &ws[k];
            sscanf(p, "%" SCNu64 " %" SCNu64 "%n", &nb, &n, &adv);
            p += adv;
            g = malloc(sizeof(uint64_t) * nb);
            d = malloc(sizeof(uint64_t) * nb);
            for (i = 0; i < nb; i++) {
                sscanf(p, "%" SCNu64 " %" SCNu64 "%n", &g[i], &d[i], &adv);
                p += adv;
            }
            if (!w->w) { fprintf(out, "ret %d %d\n", lineno, 1000); fflush(out); free(g); free(d); continue; }
            buf = make_data(w, n, g, d, nb);
            r = digital_rf_write_blocks_hdf5(w->w, g, d, nb, buf, n);
            free(buf); free(g); free(d);
            fprintf(out, "ret %d %d\n", lineno, r);
        } else if (!strcmp(cmd, "close")) {
            W *w = &ws[k];
            int r = 1000;
            if (w->w) { r = digital_rf_close_write_hdf5(w->w); w->w = NULL; }
            fprintf(out, "ret %d %d\n", lineno, r);
        }
        fflush(out);
    }
    if (fi_tag) fi_tag("exit");
    fprintf(out, "done\n");
    fclose(out);
    return 0;
}
