import os, sys, subprocess, shutil, random
sys.path.insert(0, '.')
import fi, campaign
from multiprocessing import Pool
ASAN = "/usr/lib/gcc/x86_64-linux-gnu/12/libasan.so"
def one(a):
    lines, wd, at, mode = a
    top = os.path.join(wd, "top")
    shutil.rmtree(wd, ignore_errors=True); os.makedirs(top)
    sc = os.path.join(wd, "sc.txt")
    with open(sc, "w") as f:
        for ln in lines: f.write(ln.replace("@D@", top) + "\n")
    for ln in lines:
        t = ln.split()
        if t[0] == "open": os.makedirs(t[2].replace("@D@", top), exist_ok=True)
    env = dict(os.environ)
    env.update(FI_PREFIX=top, FI_LOG=os.path.join(wd, "log"), FI_AT=str(at), FI_MODE=str(mode), LD_PRELOAD=ASAN + " " + fi.SHIM,
               ASAN_OPTIONS="detect_leaks=0:abort_on_error=0:exitcode=77", UBSAN_OPTIONS="print_stacktrace=1")
    p = subprocess.run(["./driver_asan", sc, os.path.join(wd, "res")], env=env, stdout=subprocess.DEVNULL, stderr=subprocess.PIPE)
    err = p.stderr.decode(errors="replace")
    n = sum(1 for _ in open(os.path.join(wd, "log"))) if os.path.exists(os.path.join(wd, "log")) else 0
    shutil.rmtree(wd, ignore_errors=True)
    bad = [l for l in err.splitlines() if ("ERROR: AddressSanitizer" in l and "0x000000000558" not in l) or "runtime error" in l]
    return at, mode, n, bad[:3], p.returncode
if __name__ == "__main__":
    with Pool(10) as pool:
        for gen in ("basic", "restart", "multi"):
            for seed in range(int(sys.argv[1]), int(sys.argv[2])):
                lines = campaign.GENS[gen](seed)
                at, mode, n, bad, rc = one((lines, "/tmp/hw-C10-work/asan/b", 0, 0))
                if bad: print("BASE", gen, seed, bad)
                jobs = [(lines, "/tmp/hw-C10-work/asan/r%d_%d" % (a, m), a, m) for a in range(1, n + 1) for m in (0, 3)]
                cnt = 0
                for at, mode, _, bad, rc in pool.imap_unordered(one, jobs, chunksize=4):
                    if bad:
                        cnt += 1
                        if cnt <= 3: print("  ", gen, seed, at, mode, rc, bad)
                print(gen, seed, "runs", len(jobs), "sanitizer reports", cnt, flush=True)
