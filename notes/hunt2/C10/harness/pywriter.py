"""python writer subprocess: pywriter.py <chdir> <script.json> ; prints one JSON line of results"""
import sys, json, os
import numpy as np
import ctypes
import digital_rf
try:
    _tag = ctypes.CDLL(None).fi_tag
except Exception:
    _tag = None
def tag(t):
    if _tag is not None:
        _tag(t.encode())

def main():
    chdir, script = sys.argv[1], json.load(open(sys.argv[2]))
    c = script["cfg"]
    res = []
    w = None
    tag("L0")
    try:
        w = digital_rf.DigitalRFWriter(chdir, np.dtype(c["dtype"]), c["sub"], c["fc"], c["start"], c["num"], c["den"], "uuid",
                                       compression_level=c["comp"], checksum=bool(c["ck"]), is_complex=bool(c["cplx"]),
                                       num_subchannels=c["nsub"], is_continuous=bool(c["cont"]), marching_periods=False)
        res.append(["open", None])
    except Exception as e:
        res.append(["open", repr(e)])
    for i_, op in enumerate(script["ops"], 1):
        if w is None:
            break
        tag("L%d" % i_)
        try:
            if op[0] == "w":
                g, n = op[1], op[2]
                a = c["start"] + g + np.arange(n, dtype=np.uint64)
                ncomp = 2 if c["cplx"] else 1
                v = np.empty((n, c["nsub"] * ncomp), dtype=np.dtype(c["dtype"]))
                for s in range(c["nsub"]):
                    for k in range(ncomp):
                        v[:, s * ncomp + k] = ((a % 97) * 7 + s * 3 + k * 5) % 97 + 1
                w.rf_write(v, g)
                res.append(["w", None])
            elif op[0] == "b":
                blocks, n = op[1], op[2]
                ncomp = 2 if c["cplx"] else 1
                a = np.empty(n, dtype=np.uint64)
                for j, (g, d) in enumerate(blocks):
                    e = blocks[j + 1][1] if j + 1 < len(blocks) else n
                    a[d:e] = c["start"] + g + np.arange(e - d, dtype=np.uint64)
                v = np.empty((n, c["nsub"] * ncomp), dtype=np.dtype(c["dtype"]))
                for s in range(c["nsub"]):
                    for k in range(ncomp):
                        v[:, s * ncomp + k] = ((a % 97) * 7 + s * 3 + k * 5) % 97 + 1
                w.rf_write_blocks(v, np.array([b[0] for b in blocks], dtype=np.uint64), np.array([b[1] for b in blocks], dtype=np.uint64))
                res.append(["b", None])
            elif op[0] == "close":
                w.close()
                res.append(["close", None])
        except Exception as e:
            res.append([op[0], repr(e)])
    tag("exit")
    print(json.dumps(res))
    sys.stdout.flush()

main()
