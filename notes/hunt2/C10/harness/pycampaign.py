"""Python writer under single faults. Faults during close() are the known (first round) finding and are reported separately."""
import os, sys, json, shutil, subprocess, random
from multiprocessing import Pool
sys.path.insert(0, os.path.dirname(os.path.abspath(__file__)))
import fi
HERE = os.path.dirname(os.path.abspath(__file__))
WORK = "/tmp/hw-C10-work/pyruns"
PKG = os.environ.get("FI_PKG", "/tmp/hw-C10-work/pkg")

def run(script, wd, at=0, mode=0, err=28):
    shutil.rmtree(wd, ignore_errors=True)
    ch = os.path.join(wd, "top", "ch")
    os.makedirs(ch)
    sp = os.path.join(wd, "s.json")
    json.dump(script, open(sp, "w"))
    env = dict(os.environ)
    env.update(FI_PREFIX=os.path.join(wd, "top"), FI_LOG=os.path.join(wd, "log"), FI_AT=str(at), FI_MODE=str(mode), FI_ERRNO=str(err),
               LD_PRELOAD=fi.SHIM, PYTHONPATH=PKG)
    p = subprocess.run(["/venv/bin/python", os.path.join(HERE, "pywriter.py"), ch, sp], env=env, stdout=subprocess.PIPE, stderr=subprocess.DEVNULL, cwd="/tmp")
    try:
        res = json.loads(p.stdout.decode().strip().splitlines()[-1])
    except Exception:
        res = None
    log = []
    lp = os.path.join(wd, "log")
    if os.path.exists(lp):
        for ln in open(lp):
            t = ln.split()
            log.append(dict(n=int(t[0]), cls=t[1], what=t[2], tag=t[5], fail=(t[6] == "FAIL")))
    return res, log, p.returncode

def check(script, wd, res, log, rc):
    c = script["cfg"]
    dt = __import__("numpy").dtype(c["dtype"])
    cfg = fi.Cfg(dt.kind + str(dt.itemsize), dt.byteorder if dt.byteorder in "<>" else "<", c["cplx"], c["nsub"], c["sub"], c["fc"], c["start"], c["num"], c["den"], c["comp"], c["ck"], c["cont"])
    viol = []
    if res is None:
        return ["no result (exit %s)" % rc]
    pr, files, left = fi.scan_dir(os.path.join(wd, "top", "ch"), cfg)
    viol += ["PUBLISHED-BAD " + x for x in pr]
    readable = set()
    for f, present in files.items():
        readable |= fi.ranges_to_set(present)
    fl = sorted(set(int(e["tag"][1:]) for e in log if e["fail"] and e["tag"].startswith("L")))
    ops = script["ops"]
    # res[0] is open; res[i] op i
    lost = 0; first = None
    for i, op in enumerate(ops, 1):
        if i < len(res) and res[i][1] is None and op[0] in ("w", "b"):
            if op[0] == "w":
                rs = [(c["start"] + op[1], op[2])]
            else:
                bl = op[1]
                rs = [(c["start"] + g, (bl[j + 1][1] if j + 1 < len(bl) else op[2]) - d) for j, (g, d) in enumerate(bl)]
            l = fi.ranges_to_set(rs) - readable
            if l:
                lost += len(l)
                first = first or (i, min(l))
    if lost:
        ok = False
        for f in fl:
            for l in (f, f + 1):
                if l < len(res) and res[l][1] is not None:
                    ok = True
        inclose = bool(fl) and ops[fl[0] - 1][0] == "close" if fl and fl[0] >= 1 else False
        if not ok:
            viol.append("%s %d accepted samples unreadable (first op %s), faults in ops %s, results %s, exit %s" % (
                "KNOWN-CLOSE-SILENT" if inclose else "SILENT-LOSS", lost, first, fl, [r[1] and r[1][:30] for r in res], rc))
    # refusal
    err_at = None
    for i in range(1, len(res)):
        if res[i][1] is not None and fl and i >= fl[0]:
            err_at = i; break
    if err_at:
        for i in range(err_at + 1, len(res)):
            if ops[i - 1][0] in ("w", "b") and res[i][1] is None:
                viol.append("NOT-REFUSED op %d after error in op %d" % (i, err_at)); break
    return viol

def one(a):
    script, wd, at, mode, err = a
    res, log, rc = run(script, wd, at, mode, err)
    v = check(script, wd, res, log, rc)
    shutil.rmtree(wd, ignore_errors=True)
    return at, mode, err, v

SCRIPTS = []
def mk(dtype, cplx, nsub, sub, fc, start, num, den, comp, ck, cont, ops):
    SCRIPTS.append(dict(cfg=dict(dtype=dtype, sub=sub, fc=fc, start=start, num=num, den=den, comp=comp, ck=ck, cplx=cplx, nsub=nsub, cont=cont), ops=ops))
mk("<i2", 0, 1, 3600, 1000, 100000, 100, 1, 0, 0, 0, [["w", 0, 150], ["w", 150, 50], ["w", 230, 300], ["close"]])
mk("<i2", 1, 2, 2, 1000, 100000, 100, 1, 0, 0, 1, [["w", 0, 150], ["b", [[150, 0], [170, 10], [420, 30]], 60], ["w", 900, 10], ["close"]])
mk(">f4", 1, 1, 1, 500, 2**53 + 1000, 200, 3, 1, 1, 0, [["b", [[0, 0], [20, 10], [100, 30]], 90], ["w", 200, 40], ["w", 240, 1], ["close"]])
mk("<u1", 0, 3, 10, 1000, 0, 1000, 1, 0, 1, 1, [["w", 5, 1], ["w", 6, 2500], ["w", 4000, 100], ["close"]])
mk("<f8", 0, 1, 3600, 60000, 60000 * 20, 20, 1, 9, 0, 0, [["w", 0, 100], ["w", 100, 100], ["w", 1000, 300], ["w", 1300, 5], ["close"]])

if __name__ == "__main__":
    tot = 0
    with Pool(14) as pool:
        for si, script in enumerate(SCRIPTS):
            res, log, rc = run(script, os.path.join(WORK, "base%d" % si))
            v = check(script, os.path.join(WORK, "base%d" % si), res, log, rc)
            if v:
                print("BASELINE", si, v); continue
            n = len(log)
            jobs = [(script, os.path.join(WORK, "s%d_%d_%d" % (si, at, m)), at, m, 28) for at in range(1, n + 1) for m in range(4)]
            known = 0; found = []
            for at, m, e, v in pool.imap_unordered(one, jobs, chunksize=2):
                v2 = [x for x in v if not x.startswith("KNOWN-CLOSE")]
                known += len(v) - len(v2)
                if v2: found.append((at, m, v2))
            tot += len(jobs)
            print("script", si, "ops", n, "runs", len(jobs), "known-close-silent", known, "other", len(found), flush=True)
            for x in found[:5]: print("   ", x)
    print("TOTAL", tot)
