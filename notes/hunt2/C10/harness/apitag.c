/* interpose the HDF5 API calls the writer uses: tag each with its name (appended to the line tag) */
#define _GNU_SOURCE
#include <dlfcn.h>
#include <stdio.h>
#include <string.h>
#include "hdf5.h"
extern void fi_tag(const char *);
extern const char *fi_get_tag(void);
static char base[64] = "-";
static void enter(const char *api)
{
    char buf[128];
    const char *t = fi_get_tag();
    const char *p = strchr(t, ':');
    if (!p) { strncpy(base, t, sizeof(base) - 1); }
    snprintf(buf, sizeof(buf), "%s:%s", base, api);
    fi_tag(buf);
}
static void leave(void) { char buf[128]; snprintf(buf, sizeof(buf), "%s:user", base); fi_tag(buf); }
#define REAL(name) static __typeof__(&name) real; if (!real) real = dlsym(RTLD_NEXT, #name)
herr_t H5Dset_extent(hid_t d, const hsize_t s[]) { REAL(H5Dset_extent); enter("H5Dset_extent"); herr_t r = real(d, s); leave(); return r; }
herr_t H5Dwrite(hid_t d, hid_t m, hid_t ms, hid_t fs, hid_t p, const void *b) { REAL(H5Dwrite); enter("H5Dwrite"); herr_t r = real(d, m, ms, fs, p, b); leave(); return r; }
hid_t H5Dcreate2(hid_t l, const char *n, hid_t t, hid_t s, hid_t a, hid_t b, hid_t c) { REAL(H5Dcreate2); enter("H5Dcreate2"); hid_t r = real(l, n, t, s, a, b, c); leave(); return r; }
herr_t H5Dclose(hid_t d) { REAL(H5Dclose); enter("H5Dclose"); herr_t r = real(d); leave(); return r; }
herr_t H5Fclose(hid_t d) { REAL(H5Fclose); enter("H5Fclose"); herr_t r = real(d); leave(); return r; }
hid_t H5Fcreate(const char *n, unsigned f, hid_t a, hid_t b) { REAL(H5Fcreate); enter("H5Fcreate"); hid_t r = real(n, f, a, b); leave(); return r; }
hid_t H5Fopen(const char *n, unsigned f, hid_t a) { REAL(H5Fopen); enter("H5Fopen"); hid_t r = real(n, f, a); leave(); return r; }
hid_t H5Dget_space(hid_t d) { REAL(H5Dget_space); enter("H5Dget_space"); hid_t r = real(d); leave(); return r; }
hid_t H5Acreate2(hid_t l, const char *n, hid_t t, hid_t s, hid_t a, hid_t b) { REAL(H5Acreate2); enter("H5Acreate2"); hid_t r = real(l, n, t, s, a, b); leave(); return r; }
herr_t H5Awrite(hid_t a, hid_t t, const void *b) { REAL(H5Awrite); enter("H5Awrite"); herr_t r = real(a, t, b); leave(); return r; }
herr_t H5Aclose(hid_t a) { REAL(H5Aclose); enter("H5Aclose"); herr_t r = real(a); leave(); return r; }
herr_t H5Sclose(hid_t a) { REAL(H5Sclose); enter("H5Sclose"); herr_t r = real(a); leave(); return r; }
