"""Fault-injection campaign helpers: scenario model, run, oracle (written from the property text)."""
import os
import re
import shutil
import subprocess
import sys
from fractions import Fraction

import h5py
import numpy as np

HERE = os.path.dirname(os.path.abspath(__file__))
DRIVER = os.environ.get("FI_DRIVER", os.path.join(HERE, "driver"))
SHIM = os.environ.get("FI_SHIM", os.path.join(HERE, "shim.so"))

NATTR = 19


class Cfg(object):
    def __init__(self, code, bo, cplx, nsub, sub, fc, start, num, den, comp, ck, cont):
        self.code, self.bo, self.cplx, self.nsub = code, bo, cplx, nsub
        self.sub, self.fc, self.start, self.num, self.den = sub, fc, start, num, den
        self.comp, self.ck, self.cont = comp, ck, cont

    def line(self, k, d):
        return "open %d %s %s %s %d %d %d %d %d %d %d %d %d %d" % (
            k, d, self.code, self.bo, self.cplx, self.nsub, self.sub, self.fc, self.start, self.num, self.den,
            self.comp, self.ck, self.cont)


def parse(lines):
    """-> list of ops: dict(line, cmd, k, ...)"""
    ops = []
    for i, ln in enumerate(lines, 1):
        t = ln.split()
        if not t:
            continue
        op = dict(line=i, cmd=t[0], k=int(t[1]))
        if t[0] == "open":
            op["dir"] = t[2]
            op["cfg"] = Cfg(t[3], t[4], *[int(x) for x in t[5:15]])
        elif t[0] == "w":
            op["blocks"] = [(int(t[2]), 0)]
            op["n"] = int(t[3])
        elif t[0] == "b":
            nb, n = int(t[2]), int(t[3])
            v = [int(x) for x in t[4:4 + 2 * nb]]
            op["blocks"] = [(v[2 * j], v[2 * j + 1]) for j in range(nb)]
            op["n"] = n
        ops.append(op)
    return ops


def op_samples(op, start):
    """absolute sample indices (numpy uint64... python ints via ranges) of a write op -> list of (first, count)"""
    bl = op["blocks"]
    out = []
    for j, (g, d) in enumerate(bl):
        end = bl[j + 1][1] if j + 1 < len(bl) else op["n"]
        out.append((start + g, end - d))
    return out


def run(lines, workdir, at=0, mode=0, err=28, keep_log=True):
    """run scenario (lines contain @D@ as top directory placeholder). returns (rets dict line->code|None, log list, exit)"""
    top = os.path.join(workdir, "top")
    if os.path.exists(workdir):
        shutil.rmtree(workdir)
    os.makedirs(top)
    sc = os.path.join(workdir, "sc.txt")
    with open(sc, "w") as f:
        for ln in lines:
            f.write(ln.replace("@D@", top) + "\n")
    # channel directories must exist
    for ln in lines:
        t = ln.split()
        if t and t[0] == "open":
            os.makedirs(t[2].replace("@D@", top), exist_ok=True)
    env = dict(os.environ)
    env.update(FI_PREFIX=top, FI_LOG=os.path.join(workdir, "log"), FI_AT=str(at), FI_MODE=str(mode), FI_ERRNO=str(err),
               LD_PRELOAD=SHIM)
    res = os.path.join(workdir, "res")
    p = subprocess.run([DRIVER, sc, res], env=env, stdout=subprocess.DEVNULL, stderr=subprocess.DEVNULL)
    rets = {}
    done = False
    if os.path.exists(res):
        for ln in open(res):
            t = ln.split()
            if t and t[0] == "ret":
                rets[int(t[1])] = int(t[2])
            elif t and t[0] == "done":
                done = True
    log = []
    lp = os.path.join(workdir, "log")
    if os.path.exists(lp):
        for ln in open(lp):
            t = ln.split()
            log.append(dict(n=int(t[0]), cls=t[1], what=t[2], a=int(t[3]), b=int(t[4]), tag=t[5], fail=(t[6] == "FAIL")))
    return rets, log, (p.returncode, done)


def fill_of(dt):
    if dt.kind == "f":
        return None  # NaN
    if dt.kind == "u":
        return 0
    return np.iinfo(dt).min


def expected_vals(absidx, nsub, ncomp):
    """absidx: python ints list -> array (n, nsub, ncomp) of expected values"""
    a = np.array([x % 97 for x in absidx], dtype=np.int64)  # (A*7 + ..) % 97 computed mod 97
    out = np.empty((len(absidx), nsub, ncomp), dtype=np.int64)
    for s in range(nsub):
        for c in range(ncomp):
            out[:, s, c] = ((a * 7 + s * 3 + c * 5) % 97) + 1
    return out


def read_file(path, cfg):
    """Validate one published file. Returns (problems list, dict absidx -> True for presented samples (list of ranges))"""
    probs = []
    present = []  # list of (first_abs, count)
    try:
        f = h5py.File(path, "r")
    except Exception as e:
        return ["unreadable: %s" % str(e)[:80]], present
    try:
        if "rf_data" not in f or "rf_data_index" not in f:
            return ["missing dataset(s): %s" % list(f.keys())], present
        ds = f["rf_data"]
        ix = f["rf_data_index"][...]
        if len(ds.attrs) != NATTR:
            probs.append("attribute count %d" % len(ds.attrs))
        else:
            chk = dict(subdir_cadence_secs=cfg.sub, file_cadence_millisecs=cfg.fc, sample_rate_numerator=cfg.num,
                       sample_rate_denominator=cfg.den, is_complex=cfg.cplx, num_subchannels=cfg.nsub,
                       is_continuous=cfg.cont)
            for k, v in chk.items():
                if int(ds.attrs[k]) != v:
                    probs.append("attribute %s=%s" % (k, ds.attrs[k]))
        data = ds[...]
        n = data.shape[0]
        if data.ndim != 2 or data.shape[1] != cfg.nsub:
            probs.append("shape %s" % (data.shape,))
            return probs, present
        if ix.ndim != 2 or ix.shape[1] != 2 or ix.shape[0] < 1:
            probs.append("index shape %s" % (ix.shape,))
            return probs, present
        if cfg.cplx and data.dtype.kind == "c":
            arr = np.stack([data.real, data.imag], axis=-1)
        elif cfg.cplx:
            if data.dtype.names != ("r", "i"):
                probs.append("dtype %s" % data.dtype)
                return probs, present
            arr = np.stack([data["r"], data["i"]], axis=-1)
        else:
            if data.dtype.names:
                probs.append("dtype %s" % data.dtype)
                return probs, present
            arr = data[..., None]
        ncomp = arr.shape[2]
        # file window from the name
        m = re.match(r"rf@(\d+)\.(\d+)\.h5$", os.path.basename(path))
        fstart_ms = int(m.group(1)) * 1000 + int(m.group(2))
        if fstart_ms % cfg.fc:
            probs.append("name not on cadence")
        rate = Fraction(cfg.num, cfg.den)
        rows = [(int(ix[j, 0]), int(ix[j, 1])) for j in range(ix.shape[0])]
        prev_end_abs = -1
        for j, (g, r) in enumerate(rows):
            rend = rows[j + 1][1] if j + 1 < len(rows) else n
            if r > rend or rend > n or (j == 0 and r != 0):
                probs.append("index row %d [%d,%d] inconsistent (next row start %d, n %d)" % (j, g, r, rend, n))
                return probs, present
            if g <= prev_end_abs:
                probs.append("index row %d overlaps previous block" % j)
            cnt = rend - r
            if cnt == 0:
                if not (j == 0 and n == 0):
                    probs.append("empty block at index row %d" % j)
                continue
            prev_end_abs = g + cnt - 1
            # window check for first and last sample of block
            for a in (g, g + cnt - 1):
                tms = Fraction(a * 1000) / rate
                if not (fstart_ms <= tms < fstart_ms + cfg.fc):
                    probs.append("sample %d outside file window" % a)
            block = arr[r:rend]
            # determine fill rows (continuous contiguous files)
            dt = arr.dtype
            if dt.kind == "f":
                isfill = np.isnan(block)
            else:
                isfill = block == fill_of(dt)
            rowfill = isfill.reshape(cnt, -1).all(axis=1)
            rowany = isfill.reshape(cnt, -1).any(axis=1)
            if (rowany & ~rowfill).any():
                probs.append("partly filled sample in block %d" % j)
            if rowfill.any() and not (cfg.cont and not (cfg.comp or cfg.ck)):
                probs.append("fill values in a chunked file, block %d" % j)
            exp = expected_vals([g + q for q in range(cnt)], cfg.nsub, ncomp)
            good = (block.astype(np.float64) == exp.astype(np.float64)).reshape(cnt, -1).all(axis=1)
            bad = ~good & ~rowfill
            if bad.any():
                q = int(np.argmax(bad))
                probs.append("wrong value at sample %d (block %d row %d): %s expected %s" % (
                    g + q, j, r + q, block[q].tolist(), exp[q].tolist()))
            # presented samples = non-fill rows
            q = 0
            while q < cnt:
                if rowfill[q]:
                    q += 1
                    continue
                e = q
                while e < cnt and not rowfill[e]:
                    e += 1
                present.append((g + q, e - q))
                q = e
    except Exception as e:  # noqa
        probs.append("exception while reading: %r" % (e,))
    finally:
        f.close()
    return probs, present


def ranges_to_set(rs):
    s = set()
    for a, c in rs:
        s.update(range(a, a + c))
    return s


def scan_dir(d, cfg):
    """all published files below channel dir d -> (problems, {relpath: present ranges}, leftovers list)"""
    probs = []
    files = {}
    left = []
    if not os.path.isdir(d):
        return probs, files, left
    for sub in sorted(os.listdir(d)):
        p = os.path.join(d, sub)
        if os.path.isdir(p):
            for fn in sorted(os.listdir(p)):
                fp = os.path.join(p, fn)
                if re.match(r"rf@\d+\.\d+\.h5$", fn):
                    pr, present = read_file(fp, cfg)
                    for x in pr:
                        probs.append("%s/%s: %s" % (sub, fn, x))
                    files[sub + "/" + fn] = present
                else:
                    left.append(sub + "/" + fn)
    return probs, files, left


def check(lines, workdir, rets, log, base_rets, status, base_files=None):
    """Oracle. returns list of violation strings."""
    top = os.path.join(workdir, "top")
    ops = parse(lines)
    viol = []
    fails = [e for e in log if e["fail"]]
    fault_line = int(fails[0]["tag"][1:]) if fails and fails[0]["tag"].startswith("L") else None
    if not status[1]:
        viol.append("driver did not finish (exit %s)" % (status[0],))
    # sessions: consecutive ops between open and close of writer k
    sessions = []
    cur = {}
    for op in ops:
        if op["cmd"] == "open":
            cur[op["k"]] = dict(open=op, calls=[op])
            sessions.append(cur[op["k"]])
        elif op["k"] in cur:
            cur[op["k"]]["calls"].append(op)
    dirs = {}
    for s in sessions:
        dirs.setdefault(s["open"]["dir"], s["open"]["cfg"])
    allfiles = {}
    for d, cfg in dirs.items():
        real = d.replace("@D@", top)
        pr, files, left = scan_dir(real, cfg)
        if any(s_["open"]["dir"] == d and rets.get(s_["open"]["line"]) == 0 for s_ in sessions):
            try:
                with h5py.File(os.path.join(real, "drf_properties.h5"), "r") as pf:
                    if len(pf.attrs) != 15:
                        viol.append("PROPERTIES-BAD %d attributes" % len(pf.attrs))
            except Exception as e:
                viol.append("PROPERTIES-BAD %s" % str(e)[:60])
        for x in pr:
            viol.append("PUBLISHED-BAD %s" % x)
        readable = set()
        for fn, present in files.items():
            readable |= ranges_to_set(present)
            allfiles[d + "/" + fn] = present
        attempted = set()
        for s in sessions:
            if s["open"]["dir"] != d:
                continue
            st = s["open"]["cfg"].start
            for op in s["calls"]:
                if op["cmd"] in ("w", "b"):
                    attempted |= ranges_to_set(op_samples(op, st))
        extra = readable - attempted
        if extra:
            viol.append("PUBLISHED-BAD %s presents %d samples never written, e.g. %d" % (d, len(extra), min(extra)))
        for s in sessions:
            if s["open"]["dir"] != d:
                continue
            st = s["open"]["cfg"].start
            calls = s["calls"]
            lost_total = 0
            lost_first = None
            for op in calls:
                if op["cmd"] in ("w", "b") and rets.get(op["line"]) == 0:
                    acc = ranges_to_set(op_samples(op, st))
                    lost = acc - readable
                    if lost:
                        lost_total += len(lost)
                        if lost_first is None:
                            lost_first = (op["line"], min(lost))
            lines_s = [op["line"] for op in calls]
            fl = [int(e["tag"][1:]) for e in fails if e["tag"].startswith("L")]
            fl = [l for l in fl if lines_s[0] <= l <= lines_s[-1]]
            fault_line = fl[0] if fl else None
            if lost_total:
                ok = False
                for f_ in sorted(set(fl)):
                    later = [l for l in lines_s if l >= f_]
                    cand = later[:2] if (later and later[0] == f_) else later[:1]
                    for l in cand:
                        r = rets.get(l)
                        if r is not None and r != 0 and (base_rets.get(l) == 0 or l in fl):
                            ok = True
                if not ok:
                    viol.append("SILENT-LOSS %d accepted samples unreadable (first: call line %d sample %d); fault in line %s; rets %s" % (
                        lost_total, lost_first[0], lost_first[1], fault_line, [rets.get(l) for l in lines_s]))
            # refusal after first fault-caused error
            first_err = None
            for op in calls:
                l = op["line"]
                if fault_line is not None and l >= fault_line and rets.get(l) not in (0, None) and (base_rets.get(l) == 0 or l in fl):
                    first_err = l
                    break
            if first_err is not None:
                for op in calls:
                    if op["line"] > first_err and op["cmd"] in ("w", "b") and rets.get(op["line"]) == 0:
                        viol.append("NOT-REFUSED call line %d accepted after error in line %d" % (op["line"], first_err))
                        break
    # files finalized before the fault remain intact
    if base_files is not None and fails:
        nfail = fails[0]["n"]
        for e in log:
            if e["cls"] == "rename" and e["n"] < nfail and not e["fail"]:
                key = "@D@" + e["what"].replace("tmp.", "")
                if key not in base_files:
                    continue
                if key not in allfiles:
                    viol.append("FINALIZED-GONE %s" % key)
                elif ranges_to_set(allfiles[key]) != ranges_to_set(base_files[key]):
                    viol.append("FINALIZED-CHANGED %s" % key)
    return viol, allfiles


def count_ops(lines, workdir):
    rets, log, st = run(lines, workdir)
    return rets, log, st
