"""campaign.py <seed_from> <seed_to> [gen]  - random scenarios, exhaustive single-fault schedules"""
import os, sys, random, shutil, json
from multiprocessing import Pool
import fi

WORK = os.environ.get("FI_WORK", "/tmp/hw-C10-work/runs")

TYPES = ["i1", "u1", "i2", "u2", "i4", "u4", "i8", "u8", "f4", "f8"]
RATES = [(100, 1), (1000, 1), (200, 3), (1000, 7), (100, 3), (2500, 1), (10000, 1), (333, 2)]
CADS = [(1, 100), (1, 250), (1, 500), (1, 1000), (2, 1000), (2, 2000), (3, 1500), (10, 1000), (3600, 1000), (3600, 60000), (4, 400)]


def gen_cfg(rng):
    code = rng.choice(TYPES)
    bo = rng.choice("<>") if code[1] != "1" else "<"
    sub, fc = rng.choice(CADS)
    num, den = rng.choice(RATES)
    start = rng.choice([0, 1, 15 * num // den * 100000, (2 ** 53 + 12345), 1500000000 * num // den])
    comp = rng.choice([0, 0, 1, 9])
    ck = rng.choice([0, 0, 1])
    cont = rng.choice([0, 1])
    return fi.Cfg(code, bo, rng.choice([0, 1]), rng.choice([1, 1, 2, 3, 8]), sub, fc, start, num, den, comp, ck, cont)


def file_samples(cfg):
    return max(1, cfg.fc * cfg.num // (cfg.den * 1000))


def gen_writes(rng, cfg, k, pos, ncalls):
    """list of lines, new pos (global index relative to start)"""
    out = []
    fs = file_samples(cfg)
    for _ in range(ncalls):
        gapkind = rng.random()
        if gapkind < 0.5:
            gap = 0
        elif gapkind < 0.75:
            gap = rng.randint(1, max(1, fs // 3))
        elif gapkind < 0.9:
            gap = rng.randint(fs, 3 * fs)
        else:
            gap = rng.randint(fs, 3 * fs) + cfg.sub * cfg.num // cfg.den
        pos += gap
        lk = rng.random()
        if lk < 0.3:
            n = rng.randint(1, max(1, fs // 4))
        elif lk < 0.6:
            n = rng.randint(1, fs)
        elif lk < 0.9:
            n = rng.randint(fs, 3 * fs)
        else:
            n = rng.choice([1, fs, fs - 1, fs + 1, 2 * fs])
        if not cfg.cont and rng.random() < 0.4 and n >= 2:
            nb = rng.randint(2, min(6, n))
            ds = sorted(rng.sample(range(1, n), nb - 1))
            ds = [0] + ds
            gs = []
            g = pos
            prevd = 0
            for j, d in enumerate(ds):
                if j:
                    g += (d - prevd) + rng.choice([0, 1, 2, rng.randint(1, fs), rng.randint(fs, 2 * fs)])
                    if g == gs[-1] + (d - prevd):
                        g += 1  # blocks must have a gap? (not required, but contiguous blocks are legal too) keep gap
                gs.append(g)
                prevd = d
            out.append("b %d %d %d %s" % (k, nb, n, " ".join("%d %d" % (gs[j], ds[j]) for j in range(nb))))
            pos = gs[-1] + (n - ds[-1])
        else:
            out.append("w %d %d %d" % (k, pos, n))
            pos += n
    return out, pos


def gen_scenario(seed):
    rng = random.Random(seed)
    cfg = gen_cfg(rng)
    lines = [cfg.line(0, "@D@/ch")]
    pos = rng.choice([0, 0, rng.randint(0, 3 * file_samples(cfg))])
    w, pos = gen_writes(rng, cfg, 0, pos, rng.randint(1, 6))
    lines += w
    lines.append("close 0")
    if rng.random() < 0.35:
        # restart into the same directory
        fs = file_samples(cfg)
        # new start index: keep start the same so that samples are comparable; continue later
        pos2 = pos + rng.choice([0, 1, fs // 2, fs, 2 * fs + 3])
        lines.append(cfg.line(0, "@D@/ch"))
        w, pos2 = gen_writes(rng, cfg, 0, pos2, rng.randint(1, 3))
        lines += w
        lines.append("close 0")
    return lines


GENS = {"basic": gen_scenario}


def one(args):
    lines, wd, at, mode, err, base_rets, base_files = args
    rets, log, st = fi.run(lines, wd, at, mode, err)
    viol, _ = fi.check(lines, wd, rets, log, base_rets, st, base_files)
    shutil.rmtree(wd, ignore_errors=True)
    return (at, mode, err, viol, st)


def campaign(name, lines, pool, modes=(0, 1, 2, 3), errs=(28,), sample=None, rng=None):
    wd = os.path.join(WORK, name, "base")
    rets, log, st = fi.run(lines, wd)
    viol, base_files = fi.check(lines, wd, rets, log, rets, st, None)
    nops = len(log)
    shutil.rmtree(wd, ignore_errors=True)
    if viol:
        print("BASELINE-VIOLATION", name, viol[:3], flush=True)
        return 0, []
    ats = list(range(1, nops + 1))
    if sample and len(ats) > sample:
        ats = sorted((rng or random).sample(ats, sample))
    jobs = []
    for at in ats:
        for m in modes:
            for e in errs:
                jobs.append((lines, os.path.join(WORK, name, "r%d_%d_%d" % (at, m, e)), at, m, e, rets, base_files))
    found = []
    for at, m, e, viol, st in pool.imap_unordered(one, jobs, chunksize=4):
        if viol:
            found.append((at, m, e, viol))
    shutil.rmtree(os.path.join(WORK, name), ignore_errors=True)
    return len(jobs), found




def gen_multi(seed):
    rng = random.Random(seed * 7919 + 1)
    nw = rng.choice([2, 2, 3])
    cfgs = [gen_cfg(rng) for _ in range(nw)]
    lines = []
    pos = [0] * nw
    for k in range(nw):
        lines.append(cfgs[k].line(k, "@D@/ch%d" % k))
    order = []
    for k in range(nw):
        order += [k] * rng.randint(2, 5)
    rng.shuffle(order)
    for k in order:
        w, pos[k] = gen_writes(rng, cfgs[k], k, pos[k], 1)
        lines += w
    ks = list(range(nw))
    rng.shuffle(ks)
    for k in ks:
        lines.append("close %d" % k)
    return lines


def gen_restart(seed):
    rng = random.Random(seed * 104729 + 3)
    cfg = gen_cfg(rng)
    fs = file_samples(cfg)
    lines = []
    pos = 0
    for sess in range(rng.randint(2, 4)):
        lines.append(cfg.line(0, "@D@/ch"))
        w, pos = gen_writes(rng, cfg, 0, pos, rng.randint(1, 3))
        lines += w
        lines.append("close 0")
        pos += rng.choice([0, 0, 1, fs // 2, fs, fs + 1, 3 * fs])
    return lines


def gen_bigchunk(seed):
    rng = random.Random(seed * 31 + 5)
    code = rng.choice(["f8", "i8", "f4"])
    nsub = 8
    cplx = 1
    num = rng.choice([20000, 50000])
    cfg = fi.Cfg(code, rng.choice("<>"), cplx, nsub, 2, 1000, 1500000000 * num, num, 1, rng.choice([0, 0, 1]), rng.choice([0, 1]), rng.choice([0, 1]))
    lines = [cfg.line(0, "@D@/ch")]
    pos = 0
    first = rng.choice([num // 10, num // 5, num])  # chunk = min(10*first, num) samples of 64..128 bytes
    lines.append("w 0 0 %d" % first)
    pos = first
    for _ in range(rng.randint(2, 4)):
        pos += rng.choice([0, 0, 7, num])
        n = rng.choice([num // 10, num // 3, num, num + num // 2])
        lines.append("w 0 %d %d" % (pos, n))
        pos += n
    lines.append("close 0")
    return lines


def gen_manyblocks(seed):
    rng = random.Random(seed * 17 + 11)
    cfg = fi.Cfg(rng.choice(["i2", "u1", "f4"]), "<", rng.choice([0, 1]), 1, 3600, rng.choice([1000, 2000]), 1000000000, 1000000, 1, 0, rng.choice([0, 1]), 0)
    lines = [cfg.line(0, "@D@/ch")]
    pos = rng.choice([0, 900000])
    per = rng.choice([1000, 7000, 30000])
    for c in range(rng.choice([60, 20, 8]) if per == 1000 else (rng.choice([10, 20]) if per == 7000 else 4)):
        gs = [pos + 2 * j for j in range(per)]
        lines.append("b 0 %d %d %s" % (per, per, " ".join("%d %d" % (gs[j], j) for j in range(per))))
        pos = gs[-1] + 2
    lines.append("close 0")
    return lines


GENS.update(multi=gen_multi, restart=gen_restart, bigchunk=gen_bigchunk, manyblocks=gen_manyblocks)


def gen_sieve(seed):
    rng = random.Random(seed * 13 + 7)
    num = rng.choice([100000, 50000, 200000 // 3 * 3])
    code = rng.choice(["i2", "i1", "f4", "u2"])
    cfg = fi.Cfg(code, rng.choice("<>") if code[1] != "1" else "<", rng.choice([0, 1]), rng.choice([1, 2]), rng.choice([1, 2, 3600]), 1000,
                 rng.choice([0, 1500000000 * num]), num, 1, 0, 0, 1)
    lines = [cfg.line(0, "@D@/ch")]
    pos = rng.choice([0, num // 3, num - 10])
    for _ in range(rng.randint(3, 8)):
        pos += rng.choice([0, 0, 0, 5, 40000, num])
        n = rng.choice([1, 100, 1000, 5000, 20000, 40000, num])
        lines.append("w 0 %d %d" % (pos, n))
        pos += n
    lines.append("close 0")
    return lines


GENS["sieve"] = gen_sieve


if __name__ == "__main__":
    a, b = int(sys.argv[1]), int(sys.argv[2])
    gen = GENS[sys.argv[3] if len(sys.argv) > 3 else "basic"]
    total = 0
    with Pool(14) as pool:
        for seed in range(a, b):
            lines = gen(seed)
            n, found = campaign("s%d" % seed, lines, pool, errs=(28, 5) if seed % 4 == 0 else (28,))
            total += n
            print("seed", seed, "runs", n, "violations", len(found), flush=True)
            if found:
                os.makedirs("/tmp/hw-C10-work/found", exist_ok=True)
                with open("/tmp/hw-C10-work/found/s%d.json" % seed, "w") as f:
                    json.dump(dict(lines=lines, found=found), f, indent=1)
                for x in found[:3]:
                    print("   ", x, flush=True)
    print("TOTAL", total)
