"""real disk-full runs on a tiny tmpfs: realfull.py <gen> <seed_from> <seed_to>"""
import os, sys, shutil, subprocess
sys.path.insert(0, '.')
import fi, campaign
MNT = "/tmp/hw-C10-work/mnt"
AUX = "/tmp/hw-C10-work/mnt_aux"
SIZE = 256 * 1024

def run_real(lines, fill):
    for x in os.listdir(MNT):
        p = os.path.join(MNT, x)
        shutil.rmtree(p) if os.path.isdir(p) else os.remove(p)
    shutil.rmtree(AUX, ignore_errors=True); os.makedirs(AUX)
    top = os.path.join(MNT, "top"); os.makedirs(top)
    for ln in lines:
        t = ln.split()
        if t[0] == "open": os.makedirs(t[2].replace("@D@", top), exist_ok=True)
    if fill:
        with open(os.path.join(MNT, "filler"), "wb") as f:
            f.write(b"x" * fill)
    sc = os.path.join(AUX, "sc.txt")
    with open(sc, "w") as f:
        for ln in lines: f.write(ln.replace("@D@", top) + "\n")
    env = dict(os.environ); env.update(FI_PREFIX=top, FI_LOG=os.path.join(AUX, "log"), FI_AT="0", LD_PRELOAD=fi.SHIM)
    p = subprocess.run([fi.DRIVER, sc, os.path.join(AUX, "res")], env=env, stdout=subprocess.DEVNULL, stderr=subprocess.DEVNULL)
    rets = {}; done = False
    for ln in open(os.path.join(AUX, "res")):
        t = ln.split()
        if t[0] == "ret": rets[int(t[1])] = int(t[2])
        elif t[0] == "done": done = True
    log = []
    for ln in open(os.path.join(AUX, "log")):
        t = ln.split()
        log.append(dict(n=int(t[0]), cls=t[1], what=t[2], a=int(t[3]), b=int(t[4]), tag=t[5], fail=(t[6] == "FAIL")))
    global LASTLOG
    LASTLOG = log
    return rets, (p.returncode, done)

def check_real(lines, rets, base_rets, st):
    # full oracle on the real tree: make fi.check look below MNT
    v, _ = fi.check(lines, MNT, rets, LASTLOG, base_rets, st, None)
    return v

def check_real_old(lines, rets, base_rets, st):
    """simplified oracle (no fault log): accepted samples lost => some later-or-same call of that session must have returned an error"""
    top = os.path.join(MNT, "top")
    ops = fi.parse(lines)
    viol = []
    if not st[1]: viol.append("driver died %s" % (st,))
    sessions = []; cur = {}
    for op in ops:
        if op["cmd"] == "open":
            cur[op["k"]] = dict(open=op, calls=[op]); sessions.append(cur[op["k"]])
        elif op["k"] in cur: cur[op["k"]]["calls"].append(op)
    dirs = {}
    for s in sessions: dirs.setdefault(s["open"]["dir"], s["open"]["cfg"])
    for d, cfg in dirs.items():
        pr, files, left = fi.scan_dir(d.replace("@D@", top), cfg)
        viol += ["PUBLISHED-BAD " + x for x in pr]
        readable = set()
        for f, present in files.items(): readable |= fi.ranges_to_set(present)
        for s in sessions:
            if s["open"]["dir"] != d: continue
            st_ = s["open"]["cfg"].start
            calls = s["calls"]
            first_err = None
            for op in calls:
                r = rets.get(op["line"])
                if r not in (0, None) and base_rets.get(op["line"]) == 0 and first_err is None: first_err = op["line"]
            last_ok_lost = None
            for i, op in enumerate(calls):
                if op["cmd"] in ("w", "b") and rets.get(op["line"]) == 0:
                    lost = fi.ranges_to_set(fi.op_samples(op, st_)) - readable
                    if lost:
                        if first_err is None:
                            viol.append("SILENT-LOSS line %d: %d samples, no error at all; rets %s" % (op["line"], len(lost), [rets.get(o["line"]) for o in calls]))
                        elif op["line"] > first_err:
                            viol.append("NOT-REFUSED+LOSS line %d after error line %d" % (op["line"], first_err))
            if first_err is not None:
                for op in calls:
                    if op["line"] > first_err and op["cmd"] in ("w", "b") and rets.get(op["line"]) == 0:
                        viol.append("NOT-REFUSED line %d after error line %d" % (op["line"], first_err)); break
    return viol

if __name__ == "__main__":
    gen = campaign.GENS[sys.argv[1]]
    tot = 0
    for seed in range(int(sys.argv[2]), int(sys.argv[3])):
        lines = gen(seed)
        base, st = run_real(lines, 0)
        used = sum(os.path.getsize(os.path.join(dp, f)) for dp, dn, fn in os.walk(MNT) for f in fn)
        v = check_real(lines, base, base, st)
        if v or any(base.get(o["line"]) not in (0,) for o in fi.parse(lines) if o["cmd"] == "open"):
            print("seed", seed, "baseline not clean / too big (used %d):" % used, v[:2]); continue
        nv = 0
        levels = range(SIZE - 4096 * (used // 4096 + 3), SIZE + 1, 4096)
        for fill in levels:
            if fill < 0: continue
            rets, st = run_real(lines, fill)
            v = check_real(lines, rets, base, st)
            tot += 1
            if v:
                nv += 1
                print("  seed", seed, "fill", fill, "rets", rets, v[:3])
        print("seed", seed, "used", used, "levels", len(list(levels)), "violations", nv, flush=True)
    print("TOTAL", tot)
