/* demo writer, one top-level directory, 10 Hz, 1 s files, int32, continuous.
 * session 1 records files 0, 1, then (after a pause in the signal of three whole files) files 5, 6;
 * session 2 (a restart "inside a period already recorded") fills in files 2 and 3.
 *   stop 1: files 0, 1, 5 finalized, file 6 open (tmp.):  creates <sync>/ready1, waits for <sync>/go1
 *   then:   session 1 is closed (file 6 finalized); session 2 writes file 2 and starts file 3 (file 2 finalized)
 *   stop 2:                                                creates <sync>/ready2, waits for <sync>/go2
 *   then:   session 2 is closed (file 3 finalized).
 * sample value = index relative to the start of the recording */
#include <stdio.h>
#include <stdlib.h>
#include <unistd.h>
#include "digital_rf.h"

#define RATE 10
#define START (1700000000ULL * RATE)

static void touch(const char *dir, const char *name)
{
	char p[2048];
	FILE *f;
	snprintf(p, sizeof(p), "%s/%s", dir, name);
	f = fopen(p, "w");
	if (f) fclose(f);
}

static void wait_for(const char *dir, const char *name)
{
	char p[2048];
	snprintf(p, sizeof(p), "%s/%s", dir, name);
	while (access(p, F_OK) != 0) usleep(2000);
}

static int put(Digital_rf_write_object *w, uint64_t rel_to_writer, int first_value, int n)
{
	int buf[64], i;
	for (i = 0; i < n; i++) buf[i] = first_value + i;
	return digital_rf_write_hdf5(w, rel_to_writer, buf, n);
}

int main(int argc, char **argv)
{
	Digital_rf_write_object *w;
	char d[1024];
	const char *sync;
	if (argc != 3) { fprintf(stderr, "usage: writer TOP syncdir\n"); return 2; }
	snprintf(d, sizeof(d), "%s/ch", argv[1]);
	sync = argv[2];
	w = digital_rf_create_write_hdf5(d, H5T_NATIVE_INT, 3600, 1000, START, RATE, 1, "session-1", 0, 0, 0, 1, 1, 0);
	if (!w) return 3;
	if (put(w, 0, 0, 20)) return 4;           /* files 0, 1 */
	if (put(w, 50, 50, 15)) return 5;         /* file 5 complete, file 6 half written, still tmp. */
	touch(sync, "ready1");
	wait_for(sync, "go1");
	if (put(w, 65, 65, 5)) return 6;
	if (digital_rf_close_write_hdf5(w)) return 7; /* file 6 finalized */
	w = digital_rf_create_write_hdf5(d, H5T_NATIVE_INT, 3600, 1000, START + 20, RATE, 1, "session-2", 0, 0, 0, 1, 1, 0);
	if (!w) return 8;
	if (put(w, 0, 20, 15)) return 9;          /* file 2 complete and finalized, file 3 half written, still tmp. */
	touch(sync, "ready2");
	wait_for(sync, "go2");
	if (put(w, 15, 35, 5)) return 10;
	if (digital_rf_close_write_hdf5(w)) return 11;
	touch(sync, "closed");
	return 0;
}
