"""demo reader: a single read() of the whole period while the writer is active (one top-level directory)."""
import os
import sys
import time

import numpy as np
from digital_rf import DigitalRFReader

TOP, sync = sys.argv[1:3]
RATE = 10
START = 1700000000 * RATE


def touch(name):
    open(os.path.join(sync, name), "w").close()


def wait_for(name):
    while not os.path.exists(os.path.join(sync, name)):
        time.sleep(0.002)


wait_for("ready1")  # files 0, 1, 5 finalized; file 6 still tmp.
rd = DigitalRFReader(TOP)

# the reader looks for the candidate files one after the other (newest first).  After its look for file 6 has been
# answered ("not there": it is still tmp.) the reader is delayed for as long as the writer needs to close the session
# and to fill in file 2 with a new session.  Nothing else is touched.
real_access = os.access
state = {"released": False}
FILE6 = "rf@%d.000.h5" % (1700000006)


def access(path, mode, **kw):
    r = real_access(path, mode, **kw)
    if not state["released"] and str(path).endswith(FILE6):
        state["released"] = True
        state["file6_seen"] = r
        touch("go1")
        wait_for("ready2")
    return r


os.access = access
data = rd.read(START, START + 69, "ch")
os.access = real_access

blocks = [[int(k) - START, int(k) - START + len(v) - 1] for k, v in data.items()]
values_ok = all(np.array_equal(np.asarray(v).ravel(), np.arange(int(k) - START, int(k) - START + len(v))) for k, v in data.items())
again = rd.read(START, START + 69, "ch")
blocks2 = [[int(k) - START, int(k) - START + len(v) - 1] for k, v in again.items()]
touch("go2")
wait_for("closed")
final = rd.read(START, START + 69, "ch")
blocks3 = [[int(k) - START, int(k) - START + len(v) - 1] for k, v in final.items()]

# publication order of the files: 0, 1, 5 | 6 | 2 | 3  -> the sets of finalized samples that ever existed from the
# start of the call on
states = [[[0, 19], [50, 59]], [[0, 19], [50, 69]], [[0, 29], [50, 69]], [[0, 39], [50, 69]]]
if not state["released"]:
    print("demo did not reach the interleaving")
    sys.exit(3)
if blocks in states and values_ok and blocks3 == states[-1]:
    print("ok: read() overlapping the writer returned blocks %r (a state that existed); next read %r; after close %r"
          % (blocks, blocks2, blocks3))
    sys.exit(0)
print("VIOLATION: read() overlapping the writer returned blocks %r - samples 20..29 (file 2, written by the second "
      "session) without samples 60..69 (file 6, finalized BEFORE file 2): never the samples of the files finalized so far; "
      "next read() returns %r; after close %r; values ok: %r" % (blocks, blocks2, blocks3, values_ok))
sys.exit(1)
