/* demo writer: ONE contiguous recording (10 Hz, 1 s files, int32, continuous) whose first part (files 0..2) goes to
 * <A>/ch and which continues (a second session, same channel name) in <B>/ch (files 3, 4).  Both writer objects are
 * created up front.  The process stops at two points and waits for a flag file so that the reader's position relative
 * to the writer's file-system operations is known:
 *   stop 1: files 0 and 1 of A are finalized, file 2 of A is open (tmp.);      creates <sync>/ready1, waits for <sync>/go1
 *   then:   file 2 of A is finished, writer A is closed, files 3 and 4 are written to B (3 finalized, 4 open)
 *   stop 2:                                                                      creates <sync>/ready2, waits for <sync>/go2
 *   then:   writer B is closed (file 4 finalized).
 * sample value = index relative to the start of the recording */
#include <stdio.h>
#include <stdlib.h>
#include <unistd.h>
#include "digital_rf.h"

#define RATE 10
#define START (1700000000ULL * RATE)

static void touch(const char *dir, const char *name)
{
	char p[2048];
	FILE *f;
	snprintf(p, sizeof(p), "%s/%s", dir, name);
	f = fopen(p, "w");
	if (f) fclose(f);
}

static void wait_for(const char *dir, const char *name)
{
	char p[2048];
	snprintf(p, sizeof(p), "%s/%s", dir, name);
	while (access(p, F_OK) != 0) usleep(2000);
}

static int put(Digital_rf_write_object *w, uint64_t rel_to_writer, int first_value, int n)
{
	int buf[64], i;
	for (i = 0; i < n; i++) buf[i] = first_value + i;
	return digital_rf_write_hdf5(w, rel_to_writer, buf, n);
}

int main(int argc, char **argv)
{
	Digital_rf_write_object *a, *b;
	char da[1024], db[1024];
	const char *sync;
	if (argc != 4) { fprintf(stderr, "usage: writer A B syncdir\n"); return 2; }
	snprintf(da, sizeof(da), "%s/ch", argv[1]);
	snprintf(db, sizeof(db), "%s/ch", argv[2]);
	sync = argv[3];
	a = digital_rf_create_write_hdf5(da, H5T_NATIVE_INT, 3600, 1000, START, RATE, 1, "session-A", 0, 0, 0, 1, 1, 0);
	b = digital_rf_create_write_hdf5(db, H5T_NATIVE_INT, 3600, 1000, START + 30, RATE, 1, "session-B", 0, 0, 0, 1, 1, 0);
	if (!a || !b) return 3;
	if (put(a, 0, 0, 25)) return 4;          /* files 0, 1 complete and finalized; file 2 half written, still tmp. */
	touch(sync, "ready1");
	wait_for(sync, "go1");
	if (put(a, 25, 25, 5)) return 5;          /* rest of file 2 */
	if (digital_rf_close_write_hdf5(a)) return 6; /* file 2 finalized */
	if (put(b, 0, 30, 15)) return 7;          /* file 3 complete and finalized; file 4 half written, still tmp. */
	touch(sync, "ready2");
	wait_for(sync, "go2");
	if (put(b, 15, 45, 5)) return 8;
	if (digital_rf_close_write_hdf5(b)) return 9;
	touch(sync, "closed");
	return 0;
}
