/* scenario driver linked against the worktree's rf_write_hdf5.c
 * commands (one per line):
 *   init W dir dtype endian subdir_cad file_cad start srn srd comp cksum cplx nsub cont
 *   write W idx n
 *   blocks W n k g0 d0 g1 d1 ...
 *   close W
 *   sleepus N
 * value of sample abs index a, sub-channel s, imag part q: (a*3 + s*17 + q*7) % 120 + 1
 */
#include <stdio.h>
#include <stdlib.h>
#include <string.h>
#include <unistd.h>
#include "digital_rf.h"

#define NW 4
static Digital_rf_write_object *W[NW];
static struct { hid_t t; int size; int isfloat; int swap; int cplx; int nsub; uint64_t start; } C[NW];
static int out_fd = -1;

static void emit(int lineno, long ret)
{
	char buf[128];
	int n = snprintf(buf, sizeof(buf), "cmd|%d||%ld\n", lineno, ret);
	if (out_fd >= 0) { if (write(out_fd, buf, n) != n) exit(96); }
	else { fputs(buf, stdout); fflush(stdout); }
}

static hid_t get_type(const char *name, const char *endian, int *size, int *isfloat, int *swap)
{
	int be = (endian[0] == 'b');
	*swap = be; *isfloat = 0;
	if (!strcmp(name, "i1")) { *size = 1; *swap = 0; return H5T_NATIVE_CHAR; }
	if (!strcmp(name, "u1")) { *size = 1; *swap = 0; return H5T_NATIVE_UCHAR; }
	if (!strcmp(name, "i2")) { *size = 2; return be ? H5T_STD_I16BE : H5T_STD_I16LE; }
	if (!strcmp(name, "u2")) { *size = 2; return be ? H5T_STD_U16BE : H5T_STD_U16LE; }
	if (!strcmp(name, "i4")) { *size = 4; return be ? H5T_STD_I32BE : H5T_STD_I32LE; }
	if (!strcmp(name, "u4")) { *size = 4; return be ? H5T_STD_U32BE : H5T_STD_U32LE; }
	if (!strcmp(name, "i8")) { *size = 8; return be ? H5T_STD_I64BE : H5T_STD_I64LE; }
	if (!strcmp(name, "u8")) { *size = 8; return be ? H5T_STD_U64BE : H5T_STD_U64LE; }
	if (!strcmp(name, "f4")) { *size = 4; *isfloat = 1; return be ? H5T_IEEE_F32BE : H5T_IEEE_F32LE; }
	if (!strcmp(name, "f8")) { *size = 8; *isfloat = 1; return be ? H5T_IEEE_F64BE : H5T_IEEE_F64LE; }
	fprintf(stderr, "bad type %s\n", name); exit(2);
}

static void put(unsigned char *p, int w, long v)
{
	int size = C[w].size, i;
	unsigned char tmp[8];
	if (C[w].isfloat) {
		if (size == 4) { float f = (float)v; memcpy(tmp, &f, 4); }
		else { double d = (double)v; memcpy(tmp, &d, 8); }
	} else {
		int64_t x = v; memcpy(tmp, &x, size); /* little endian host */
	}
	if (C[w].swap) for (i = 0; i < size; i++) p[i] = tmp[size - 1 - i];
	else memcpy(p, tmp, size);
}

static unsigned char *make(int w, uint64_t n, uint64_t *gidx, uint64_t *didx, uint64_t k)
{
	/* values by absolute index following the block structure */
	int parts = C[w].cplx ? 2 : 1;
	unsigned char *buf = malloc(n * C[w].nsub * parts * C[w].size + 8);
	uint64_t i, b = 0;
	int s, q;
	for (i = 0; i < n; i++) {
		uint64_t a;
		while (b + 1 < k && didx[b + 1] <= i) b++;
		a = C[w].start + gidx[b] + (i - didx[b]);
		for (s = 0; s < C[w].nsub; s++)
			for (q = 0; q < parts; q++)
				put(buf + ((i * C[w].nsub + s) * parts + q) * C[w].size, w, (long)((a * 3 + s * 17 + q * 7) % 120 + 1));
	}
	return buf;
}

int main(int argc, char **argv)
{
	FILE *f;
	char line[65536];
	int lineno = 0;
	const char *s;
	if (argc < 2) { fprintf(stderr, "usage: driver scenario\n"); return 2; }
	if ((s = getenv("SHIM_OUT"))) out_fd = atoi(s);
	f = fopen(argv[1], "r");
	if (!f) { perror("scenario"); return 2; }
	while (fgets(line, sizeof(line), f)) {
		char cmd[32];
		int w, off = 0;
		lineno++;
		if (sscanf(line, "%31s%n", cmd, &off) < 1) continue;
		if (!strcmp(cmd, "sleepus")) { long us; sscanf(line + off, "%ld", &us); usleep(us); continue; }
		if (!strcmp(cmd, "init")) {
			char dir[1024], tn[8], en[8], uuid[64];
			unsigned long long sc, fc, st, srn, srd;
			int comp, ck, cplx, nsub, cont;
			sscanf(line + off, "%d %1023s %7s %7s %llu %llu %llu %llu %llu %d %d %d %d %d", &w, dir, tn, en, &sc, &fc, &st, &srn, &srd,
			       &comp, &ck, &cplx, &nsub, &cont);
			C[w].t = get_type(tn, en, &C[w].size, &C[w].isfloat, &C[w].swap);
			C[w].cplx = cplx; C[w].nsub = nsub; C[w].start = st;
			snprintf(uuid, sizeof(uuid), "uuid-%d-%d", w, lineno);
			W[w] = digital_rf_create_write_hdf5(dir, C[w].t, sc, fc, st, srn, srd, uuid, comp, ck, cplx, nsub, cont, 0);
			emit(lineno, W[w] ? 0 : -1);
		} else if (!strcmp(cmd, "write")) {
			unsigned long long idx, n;
			uint64_t g[1], d[1] = {0};
			unsigned char *buf;
			int r;
			sscanf(line + off, "%d %llu %llu", &w, &idx, &n);
			if (!W[w]) { emit(lineno, -100); continue; }
			g[0] = idx;
			buf = make(w, n, g, d, 1);
			r = digital_rf_write_hdf5(W[w], idx, buf, n);
			free(buf);
			emit(lineno, r);
		} else if (!strcmp(cmd, "blocks")) {
			unsigned long long n, k, i;
			uint64_t *g, *d;
			unsigned char *buf;
			int r, o2;
			char *p = line + off;
			sscanf(p, "%d %llu %llu%n", &w, &n, &k, &o2); p += o2;
			g = malloc(sizeof(uint64_t) * k); d = malloc(sizeof(uint64_t) * k);
			for (i = 0; i < k; i++) { unsigned long long a, b; sscanf(p, "%llu %llu%n", &a, &b, &o2); p += o2; g[i] = a; d[i] = b; }
			if (!W[w]) { emit(lineno, -100); free(g); free(d); continue; }
			buf = make(w, n, g, d, k);
			r = digital_rf_write_blocks_hdf5(W[w], g, d, k, buf, n);
			free(buf); free(g); free(d);
			emit(lineno, r);
		} else if (!strcmp(cmd, "close")) {
			int r = -100;
			sscanf(line + off, "%d", &w);
			if (W[w]) { r = digital_rf_close_write_hdf5(W[w]); W[w] = NULL; }
			emit(lineno, r);
		}
	}
	fclose(f);
	emit(0, 0);
	return 0;
}
