#!/bin/bash
# supplementary, probabilistic, NO simulated preemption:  REPO=<checkout> bash natural_run.sh [files_per_dir] [dirs<=4] [sleep_us] [readers]
# one contiguous recording (1 kHz, 10 ms files) streamed by a free-running writer process into top-level directory 0,
# then continued in directory 1, 2, 3 (all writer objects created up front); reader processes create a
# DigitalRFReader over all directories and call get_continuous_blocks() over the whole recording again and again.
# exit 1 if any call returned more than one block / a late first block (a hole that never existed).
set -u
REPO=${REPO:?set REPO to a checkout of digital_rf}
HERE=$(cd "$(dirname "$0")" && pwd)
PY=${PY:-/venv/bin/python}
T=$(mktemp -d)
trap 'rm -rf "$T"' EXIT
mkdir -p "$T/pkg"
gcc -O1 -w -I"$REPO/c/include" -I/usr/include/hdf5/serial "$HERE/scenario_driver.c" "$REPO/c/lib/rf_write_hdf5.c" \
    -L/usr/lib/x86_64-linux-gnu/hdf5/serial -lhdf5 -lm -o "$T/driver" || { echo "build failed"; exit 2; }
cp -r "$REPO/python/digital_rf" "$T/pkg/digital_rf"
cp /venv/lib/python3.12/site-packages/digital_rf/_py_rf_write_hdf5*.so "$T/pkg/digital_rf/" 2>/dev/null
[ -f "$T/pkg/digital_rf/_version.py" ] || printf "__version__ = version = '2.6.14'\n__version_tuple__ = version_tuple = (2, 6, 14)\n" > "$T/pkg/digital_rf/_version.py"
C09_TMP="$T" PYTHONPATH="$T/pkg" "$PY" "$HERE/natural.py" "$T/driver" "${1:-600}" "${2:-4}" "${3:-500}" "${4:-4}"
