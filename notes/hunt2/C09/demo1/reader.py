"""demo reader: one DigitalRFReader over [A, B]; a single read() of the whole recording while the writer is active."""
import os
import sys
import time

import numpy as np
import digital_rf
from digital_rf import DigitalRFReader

A, B, sync = sys.argv[1:4]
RATE = 10
START = 1700000000 * RATE


def touch(name):
    open(os.path.join(sync, name), "w").close()


def wait_for(name):
    while not os.path.exists(os.path.join(sync, name)):
        time.sleep(0.002)


wait_for("ready1")  # files 0, 1 of A finalized; file 2 of A still tmp.; B holds no data yet
rd = DigitalRFReader([A, B])

# The reader deals with the top-level directories one after the other: it looks for the files of A, opens and reads
# the ones it found, and only then looks into B.  Reading A's files takes time; here the writer gets exactly the time
# to finish file 2 (A) and to record file 3 (B) before the reader's first look into B.  Nothing else is touched.
real_access = os.access
state = {"released": False}


def access(path, mode, **kw):
    if not state["released"] and str(path).startswith(B + os.sep):
        state["released"] = True
        touch("go1")
        wait_for("ready2")
    return real_access(path, mode, **kw)


os.access = access
data = rd.read(START, START + 49, "ch")
os.access = real_access

blocks = [[int(k) - START, int(k) - START + len(v) - 1] for k, v in data.items()]
values_ok = all(np.array_equal(np.asarray(v).ravel(), np.arange(int(k) - START, int(k) - START + len(v))) for k, v in data.items())
again = rd.read(START, START + 49, "ch")
blocks2 = [[int(k) - START, int(k) - START + len(v) - 1] for k, v in again.items()]
touch("go2")
wait_for("closed")
final = rd.read(START, START + 49, "ch")
blocks3 = [[int(k) - START, int(k) - START + len(v) - 1] for k, v in final.items()]

# the recording is contiguous and its files are finalized in time order: at every moment the finalized samples are
# 0..19, 0..29, 0..39 or 0..49
states = [[[0, 19]], [[0, 29]], [[0, 39]], [[0, 49]]]
if not state["released"]:
    print("demo did not reach the interleaving (reader never looked into B)")
    sys.exit(3)
if blocks in states and values_ok and blocks3 == [[0, 49]]:
    print("ok: read() overlapping the writer returned blocks %r (a state that existed); next read %r; after close %r"
          % (blocks, blocks2, blocks3))
    sys.exit(0)
print("VIOLATION: read() over two top-level directories, overlapping the writer, returned blocks %r - samples 30..39 "
      "(file 3, in B) without samples 20..29 (file 2, in A, finalized BEFORE file 3): never the samples of the files "
      "finalized so far; next read() returns %r; after close %r; values ok: %r" % (blocks, blocks2, blocks3, values_ok))
sys.exit(1)
