"""One contiguous recording that continues from top-level directory A into top-level directory B (a new session),
free-running writer process; reader processes over [A, B] read the whole recording again and again.
No simulated preemption.  usage: natural2.py DRIVER NFILES_A NFILES_B SLEEPUS NREADERS"""
import os
import sys
import time
import shutil
import tempfile
import subprocess
import multiprocessing as mp

import numpy as np
from digital_rf import DigitalRFReader

SPF = 10  # samples per file: 10 Hz... we use 1000 Hz, 10 ms files
SRN = 1000
FC = 10
START = 1700000000 * SRN


def reader(rid, tops, lo, hi, stop, q):
    rd = None
    ncalls = 0
    nbad = 0
    while not stop.is_set():
        try:
            if True:  # a fresh reader for every poll, over the directories that hold the channel by now
                try:
                    rd = DigitalRFReader(tops)
                except Exception:
                    rd = None
                    time.sleep(0.002)
                    continue
            blocks = rd.get_continuous_blocks(lo, hi, "ch")
            ncalls += 1
            got = [(int(a) - START, int(n)) for a, n in blocks.items()]
            if len(got) > 1 or (got and got[0][0] != 0):
                nbad += 1
                if nbad <= 3:
                    q.put("reader %d: contiguous recording read back as blocks (start, length) %r" % (rid, got))
        except Exception as ex:
            q.put("reader %d raised %r" % (rid, ex))
    q.put(("done", ncalls, nbad))


def main():
    driver, na, nd, sleepus, nr = sys.argv[1], int(sys.argv[2]), int(sys.argv[3]), int(sys.argv[4]), int(sys.argv[5])
    root = tempfile.mkdtemp(prefix="c09n_", dir=os.environ.get("C09_TMP", "/dev/shm"))
    try:
        tops = [os.path.join(root, "top%02d" % i) for i in range(nd)]
        lines = []
        # the writer objects of all directories are created up front (each creates its drf_properties.h5)
        for j, top in enumerate(tops):
            os.makedirs(os.path.join(top, "ch"))
            lines.append("init %d %s/ch i4 l 3600 %d %d %d 1 0 0 0 1 1" % (j, top, FC, START + j * na * SPF, SRN))
        for j, top in enumerate(tops):
            for k in range(na):
                lines.append("write %d %d %d" % (j, k * SPF, SPF))
                if sleepus:
                    lines.append("sleepus %d" % sleepus)
            lines.append("close %d" % j)
        scen = os.path.join(root, "scen.txt")
        open(scen, "w").write("\n".join(lines) + "\n")
        stop = mp.Event()
        q = mp.Queue()
        lo, hi = START, START + (na * nd) * SPF - 1
        procs = [mp.Process(target=reader, args=(i, tops, lo, hi, stop, q)) for i in range(nr)]
        for p in procs:
            p.start()
        w = subprocess.Popen([driver, scen], stdout=subprocess.PIPE, stderr=subprocess.DEVNULL, text=True)
        out = w.communicate()[0]
        bad_w = [ln for ln in out.split() if not ln.endswith("|0")]
        time.sleep(0.5)
        stop.set()
        done = 0
        calls = bad = 0
        msgs = []
        while done < nr:
            m = q.get()
            if isinstance(m, tuple):
                done += 1
                calls += m[1]
                bad += m[2]
            else:
                msgs.append(m)
        for p in procs:
            p.join()
        # after close everything is one block
        rd = DigitalRFReader(tops)
        fin = [(int(a) - START, int(n)) for a, n in rd.get_continuous_blocks(lo, hi, "ch").items()]
        print("writer errors %d; %d reader calls, %d with a hole; after close: %r" % (len(bad_w), calls, bad, fin))
        for m in msgs[:6]:
            print("  ", m)
        return 1 if bad else 0
    finally:
        shutil.rmtree(root, ignore_errors=True)


if __name__ == "__main__":
    sys.exit(main())
