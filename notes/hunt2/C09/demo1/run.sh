#!/bin/bash
# REPO=<checkout> bash run.sh   -> exit 1 + one line if the violation is observed, 0 if not
set -u
REPO=${REPO:?set REPO to a checkout of digital_rf}
HERE=$(cd "$(dirname "$0")" && pwd)
PY=${PY:-/venv/bin/python}
T=$(mktemp -d)
trap '[ "$WPID" != 0 ] && kill $WPID 2>/dev/null; rm -rf "$T"' EXIT
WPID=0
mkdir -p "$T/A/ch" "$T/B/ch" "$T/sync" "$T/pkg"
gcc -O1 -w -I"$REPO/c/include" -I/usr/include/hdf5/serial "$HERE/writer.c" "$REPO/c/lib/rf_write_hdf5.c" \
    -L/usr/lib/x86_64-linux-gnu/hdf5/serial -lhdf5 -lm -o "$T/writer" || { echo "build failed"; exit 2; }
# the Python reader of the checkout (the prebuilt extension module is only needed for the package to import)
cp -r "$REPO/python/digital_rf" "$T/pkg/digital_rf"
cp /venv/lib/python3.12/site-packages/digital_rf/_py_rf_write_hdf5*.so "$T/pkg/digital_rf/" 2>/dev/null
[ -f "$T/pkg/digital_rf/_version.py" ] || printf "__version__ = version = '2.6.14'\n__version_tuple__ = version_tuple = (2, 6, 14)\n" > "$T/pkg/digital_rf/_version.py"
"$T/writer" "$T/A" "$T/B" "$T/sync" 2>"$T/writer.err" &
WPID=$!
PYTHONPATH="$T/pkg" timeout 120 "$PY" "$HERE/reader.py" "$T/A" "$T/B" "$T/sync"
RC=$?
wait $WPID 2>/dev/null
WRC=$?
WPID=0
if [ $RC -ne 1 ] && [ $WRC -ne 0 ]; then echo "writer exit code $WRC: $(head -3 "$T/writer.err")"; fi
exit $RC
