"""DigitalRFReader over two top-level directories: read_metadata / get_digital_metadata(channel)
of a reader created earlier stays bound to the metadata directory that existed at its first call.

A metadata write into the FIRST top-level directory (the one a new reader resolves) is never
reported by the earlier reader.
"""
import os
import sys

import numpy as np
import digital_rf as drf
from digital_rf import DigitalMetadataWriter

base = sys.argv[1]
A, B = os.path.join(base, "A"), os.path.join(base, "B")


def mkrf(top, start):
    # only drf_properties.h5 and one data file are needed; written by hand with h5py so
    # that the demo does not depend on the compiled writer
    import h5py

    ch = os.path.join(top, "ch0")
    sub = os.path.join(ch, "1970-01-01T00-00-00")
    os.makedirs(sub)
    props = dict(H5Tget_class=0, H5Tget_size=2, H5Tget_order=0, H5Tget_precision=16, H5Tget_offset=0,
                 subdir_cadence_secs=3600, file_cadence_millisecs=1000, sample_rate_numerator=100,
                 sample_rate_denominator=1, is_complex=0, num_subchannels=1, is_continuous=1,
                 epoch=np.bytes_("1970-01-01T00:00:00Z"), digital_rf_time_description=np.bytes_("x"),
                 digital_rf_version=np.bytes_("2.6.0"))
    with h5py.File(os.path.join(ch, "drf_properties.h5"), "w") as f:
        for k, v in props.items():
            f.attrs[k] = v
    with h5py.File(os.path.join(sub, "rf@%d.000.h5" % (start // 100)), "w") as f:
        ds = f.create_dataset("rf_data", data=np.zeros((100, 1), dtype=np.int16))
        for k, v in props.items():
            ds.attrs[k] = v
        f.create_dataset("rf_data_index", data=np.array([[start, 0]], dtype=np.uint64))


mkrf(A, 100000)
mkrf(B, 200000)
os.makedirs(os.path.join(B, "ch0", "metadata"))
wb = DigitalMetadataWriter(os.path.join(B, "ch0", "metadata"), 3600, 60, 100, 1, "metadata")
wb.write(200000, {"v": "B"})

old = drf.DigitalRFReader([A, B])
first = old.read_metadata(100000, 300000, "ch0")  # resolves (and caches) B/ch0/metadata
assert list(first) == [200000]

# the live channel A gets its metadata directory and a first sample
os.makedirs(os.path.join(A, "ch0", "metadata"))
wa = DigitalMetadataWriter(os.path.join(A, "ch0", "metadata"), 3600, 60, 100, 1, "metadata")
wa.write(100050, {"v": "A"})

new = drf.DigitalRFReader([A, B])
k_new = list(new.read_metadata(100000, 300000, "ch0"))
k_old = list(old.read_metadata(100000, 300000, "ch0"))
d_new = new.get_digital_metadata("ch0")._metadata_dir
d_old = old.get_digital_metadata("ch0")._metadata_dir
if k_old != k_new or d_old != d_new:
    print("VIOLATION: after write(100050) into A/ch0/metadata returned, a new DigitalRFReader([A, B]) reads keys %r "
          "(from %s) but the reader created earlier still reads keys %r (from %s)"
          % (k_new, os.path.relpath(d_new, base), k_old, os.path.relpath(d_old, base)))
    sys.exit(1)
print("ok: earlier and new DigitalRFReader agree: %r" % k_new)
