"""A list of byte strings that is not valid UTF-8 can be written, but no reader can read it back.

A single such byte string is fine (the reader keeps it as bytes); only the list / array branch
of DigitalMetadataReader._populate_data decodes without a fallback.
"""
import sys
import digital_rf
from digital_rf import DigitalMetadataReader, DigitalMetadataWriter

d = sys.argv[1]
w = DigitalMetadataWriter(d, 3600, 60, 1, 1, "md")
w.write(50, {"tag": b"\xff\xfe"})  # single non-UTF-8 byte string: accepted and readable
old = DigitalMetadataReader(d)
assert old.read_latest() == {50: {"tag": b"\xff\xfe"}}
w.write(100, {"tag": [b"ab", b"\xff\xfe"]})  # returns normally

bad = []
for name, r in (("earlier reader", old), ("new reader", DigitalMetadataReader(d))):
    assert r.get_bounds() == (50, 100)
    for qname, q in (("read(0, 200)", lambda: r.read(0, 200)), ("read_latest()", lambda: r.read_latest())):
        try:
            out = q()
            if 100 not in out:
                bad.append("%s %s -> keys %r" % (name, qname, list(out)))
        except Exception as e:  # noqa
            bad.append("%s %s raises %s" % (name, qname, type(e).__name__))
if bad:
    print("VIOLATION: write(100, {'tag': [b'ab', b'\\xff\\xfe']}) returned, bounds are (50, 100), but " + "; ".join(bad))
    sys.exit(1)
print("ok: the sample written with a list of non-UTF-8 byte strings is returned by read and read_latest")
