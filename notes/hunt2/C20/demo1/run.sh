#!/bin/bash
# REPO=<checkout> bash run.sh ; exits 1 when the violation is observed
set -u
: "${REPO:?set REPO to a digital_rf checkout}"
HERE="$(cd "$(dirname "$0")" && pwd)"
T="$(mktemp -d)"
trap 'rm -rf "$T"' EXIT
/tmp/agent-tools/mkscratch.sh "$REPO" "$T/pkg" >/dev/null 2>&1 || { mkdir -p "$T/pkg" && cp -r "$REPO/python/digital_rf" "$T/pkg/"; }
mkdir "$T/md"
PYTHONPATH="$T/pkg" /venv/bin/python "$HERE/demo.py" "$T/md"
