"""A channel whose subdirectory cadence is much larger than its file cadence (e.g. "one
subdirectory for everything": subdir_cadence_secs=10**12, file_cadence_secs=1) can be written,
get_bounds reports the sample, but every read / read_latest raises MemoryError:
_get_file_list materialises one array element per *possible* file of a subdirectory.
"""
import os
import sys

from digital_rf import DigitalMetadataReader, DigitalMetadataWriter

d = os.path.join(sys.argv[1], "md")
os.makedirs(d)
w = DigitalMetadataWriter(d, 10**12, 1, 1, 1, "md")  # valid: positive ints, 10**12 % 1 == 0
old = DigitalMetadataReader(d)
w.write(1500000000, {"v": 1})  # returns normally
bad = []
for name, r in (("earlier reader", old), ("new reader", DigitalMetadataReader(d))):
    assert r.get_bounds() == (1500000000, 1500000000)
    for qname, q in (("read(s, s)", lambda: r.read(1500000000, 1500000000)), ("read_latest()", lambda: r.read_latest())):
        try:
            out = q()
            if list(out) != [1500000000]:
                bad.append("%s %s -> %r" % (name, qname, list(out)))
        except MemoryError as e:
            bad.append("%s %s raises MemoryError (%s)" % (name, qname, str(e)[:40]))
if bad:
    print("VIOLATION: write(1500000000) returned and get_bounds reports it, but " + "; ".join(bad))
    sys.exit(1)
print("ok: read and read_latest return the sample for subdir_cadence_secs=10**12, file_cadence_secs=1")
