#!/bin/bash
# usage: REPO=<checkout> bash run.sh
# exits 1 and prints one VIOLATION line if an event for a name with an over-long number stops the mirror
set -u
HERE=$(cd "$(dirname "$0")" && pwd)
T=$(mktemp -d)
trap 'rm -rf "$T"' EXIT
mkdir -p "$T/pkg"
cp -r "$REPO/python/digital_rf" "$T/pkg/digital_rf"
cp /venv/lib/python3.12/site-packages/digital_rf/_py_rf_write_hdf5*.so "$T/pkg/digital_rf/" 2>/dev/null
cat > "$T/pkg/digital_rf/_version.py" <<'EOV'
__version__ = version = '2.6.14'
__version_tuple__ = version_tuple = (2, 6, 14)
__commit_id__ = commit_id = None
EOV
PYTHONPATH="$T/pkg" /venv/bin/python "$HERE/demo.py" "$T"
