"""A stray file whose name fits the data-file pattern but whose number is not a time (15 digits, e.g. a
date stamp with tenths of a second) appears in a sub-directory of a channel.  The event handler's time-window
test raises OverflowError out of dispatch(); in the observer thread that ends the thread, and the RF file that
is finalised afterwards is never mirrored (DigitalRFMirror.start(); with run() the thread is re-created within a
second and the events queued meanwhile are dropped)."""
import contextlib
import io
import os
import sys
import time

from watchdog.events import FileCreatedEvent

from digital_rf import mirror as M

top = sys.argv[1]
src = os.path.join(top, "src")
dst = os.path.join(top, "dst")
sub = os.path.join(src, "ch0", "2020-09-13T12-00-00")
os.makedirs(sub)
with open(os.path.join(src, "ch0", "drf_properties.h5"), "wb") as f:
    f.write(b"p")
junk = os.path.join(sub, "notes@202009131200000.h5")

with contextlib.redirect_stdout(io.StringIO()):
    m = M.DigitalRFMirror(src, dst, method="copy")
# 1. deterministic: the exception leaves dispatch()
escaped = None
try:
    with contextlib.redirect_stdout(io.StringIO()):
        for h in m.event_handlers:
            h.dispatch(FileCreatedEvent(junk))
except Exception as e:  # noqa
    escaped = e
# 2. the same with the real observer
with contextlib.redirect_stdout(io.StringIO()), contextlib.redirect_stderr(io.StringIO()):
    m.start()
    time.sleep(1.0)
    with open(junk, "wb") as f:
        f.write(b"x")
    time.sleep(1.5)
    alive = m.observer.is_alive()
    with open(os.path.join(sub, "tmp.rf@1600000000.000.h5"), "wb") as f:
        f.write(b"data")
    os.rename(os.path.join(sub, "tmp.rf@1600000000.000.h5"), os.path.join(sub, "rf@1600000000.000.h5"))
    time.sleep(1.5)
    m.stop()
mirrored = os.path.exists(os.path.join(dst, "ch0", "2020-09-13T12-00-00", "rf@1600000000.000.h5"))
if escaped is not None or not alive or not mirrored:
    print(
        "VIOLATION: created(%s) raised %r out of dispatch(); observer thread alive afterwards: %s; "
        "rf@1600000000.000.h5 finalised afterwards is in dest: %s" % (os.path.basename(junk), escaped, alive, mirrored)
    )
    sys.exit(1)
print("ok: the stray name is ignored, the observer thread lives, the RF file is mirrored")
sys.exit(0)
