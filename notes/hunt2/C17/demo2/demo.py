"""Link mode: a metadata file is appended to in place while the mirror handles a 'modified' event for it.

The destination is a hard link to the source (made when the file was created).  mirror_to_dest now compares
the *contents* of source and destination - two reads of one inode.  A write of the recorder between the read of
a block from the one name and the read of the same block from the other name makes them "differ", the
mirror links the source to tmp.<name> again and renames it onto the final name - and rename() of two links
to one inode does nothing, so tmp.<name> stays in the destination for good.

The only instrumentation: filecmp's open() is wrapped so that the *recorder* (this script) does its in-place
write after filecmp has read the first block of the source.  Nothing of the mirror is changed.
"""
import builtins
import contextlib
import filecmp
import io
import os
import sys

from watchdog.events import FileCreatedEvent, FileModifiedEvent

from digital_rf import mirror as M

top = sys.argv[1]
src = os.path.join(top, "src")
dst = os.path.join(top, "dst")
sub = os.path.join(src, "ch0", "metadata", "2020-09-13T12-00-00")
os.makedirs(sub)
F = os.path.join(sub, "metadata@1600000000.h5")
with open(F, "wb") as f:
    f.write(b"\x89HDF\r\n\x1a\n" + b"A" * 4088)

with contextlib.redirect_stdout(io.StringIO()):
    m = M.DigitalRFMirror(src, dst, method="link")


def send(ev):
    with contextlib.redirect_stdout(io.StringIO()):
        for h in m.event_handlers:
            h.dispatch(ev)


send(FileCreatedEvent(F))
D = os.path.join(dst, os.path.relpath(F, src))
assert os.path.samefile(F, D), "destination is not a hard link"


class RecorderWritesAfterFirstRead(object):
    """File object for filecmp: after the first read of the source the recorder rewrites a block in place."""

    def __init__(self, fp):
        self.fp = fp
        self.done = False

    def read(self, n=-1):
        b = self.fp.read(n)
        if not self.done:
            self.done = True
            with builtins.open(F, "r+b") as w:  # the recorder's write (same size, in place)
                w.seek(100)
                w.write(b"B" * 50)
        return b

    def __enter__(self):
        return self

    def __exit__(self, *a):
        self.fp.close()


def hooked_open(name, mode="r", *a, **k):
    fp = builtins.open(name, mode, *a, **k)
    if name == F and not hooked_open.used:
        hooked_open.used = True
        return RecorderWritesAfterFirstRead(fp)
    return fp


hooked_open.used = False
filecmp.open = hooked_open  # (module-level name, looked up before the builtin)
send(FileModifiedEvent(F))  # the event of an earlier write, handled while the recorder writes again
del filecmp.open
send(FileModifiedEvent(F))  # the event of that last write: everything is quiet now
send(FileModifiedEvent(F))

left = []
for dp, dn, fn in os.walk(dst):
    left += [os.path.relpath(os.path.join(dp, f), dst) for f in fn if f.startswith("tmp.")]
if left:
    print(
        "VIOLATION: after all events are processed the destination holds the staging file %s (a third hard link, "
        "st_nlink=%d) next to the final name" % (left[0], os.stat(D).st_nlink)
    )
    sys.exit(1)
print("ok: no staging file left in the destination; identical content: %s" % filecmp.cmp(F, D, shallow=False))
sys.exit(0)
