"""Real reproduction: DigitalRFMirror(method="link") with its inotify observer and the real
DigitalMetadataWriter appending 20 samples to each file of 6 channels.  Up to 6 runs; exits 1 at the first
run that leaves a tmp.<name> hard link in the destination (a race: about one run in five here)."""
import contextlib
import io
import os
import shutil
import sys
import time

import numpy as np

import digital_rf
from digital_rf import mirror as M

top = sys.argv[1]
t0 = 1600000000
NCH = 6


def one(n):
    src = os.path.join(top, "s%d" % n)
    dst = os.path.join(top, "d%d" % n)
    writers = []
    for c in range(NCH):
        d = os.path.join(src, "ch%d" % c, "metadata")
        os.makedirs(d)
        writers.append(digital_rf.DigitalMetadataWriter(d, 3600, 20, 1, 1, "metadata"))
    with contextlib.redirect_stdout(io.StringIO()):
        m = M.DigitalRFMirror(src, dst, method="link")
        m.start()
        time.sleep(1.0)
        for k in range(100):
            for c in range(NCH):
                writers[c].write(t0 + k, {"v": np.int64(k)})
            if k % 10 == 9:
                time.sleep(0.4)
        time.sleep(2.5)
        m.stop()
        m.observer.join()
    left = []
    for dp, dn, fn in os.walk(dst):
        left += [os.path.relpath(os.path.join(dp, f), dst) for f in fn if f.startswith("tmp.")]
    shutil.rmtree(src)
    shutil.rmtree(dst, ignore_errors=True)
    return left


for n in range(6):
    left = one(n)
    if left:
        print("VIOLATION (run %d): %d staging file(s) left in the destination, e.g. %s" % (n, len(left), left[0]))
        sys.exit(1)
print("ok: 6 runs, no staging file left in the destination")
