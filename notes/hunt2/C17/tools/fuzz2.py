"""dispatch-level fuzz, regime 'all files final, then an arbitrary event history' incl. moved / deleted / closed events.
usage: fuzz2.py ncases seed0 [observer]   (observer: feed through BaseObserver.dispatch_events -> set order)
"""
import contextlib
import datetime
import hashlib
import io
import os
import random
import shutil
import sys
import tempfile

from watchdog.events import (
    FileClosedEvent,
    FileCreatedEvent,
    FileDeletedEvent,
    FileModifiedEvent,
    FileMovedEvent,
)

from digital_rf import mirror as M

T0 = 1600000000


def sd(t, cad):
    sub = (t // cad) * cad
    return datetime.datetime.fromtimestamp(sub, tz=datetime.timezone.utc).strftime("%Y-%m-%dT%H-%M-%S")


def sha(p):
    with open(p, "rb") as f:
        return hashlib.sha1(f.read()).hexdigest()


def case(seed, via_observer):
    rnd = random.Random(seed)
    top = tempfile.mkdtemp(prefix="fz", dir="/tmp/hw-C17-work")
    src = os.path.join(top, "src")
    dst = os.path.join(top, "dst")
    method = rnd.choice(["copy", "move", "link"])
    link = rnd.random() < 0.3
    nch = rnd.randint(1, 3)
    cad = rnd.choice([2, 3600])
    files = {}  # rel -> (kind, ch, t)
    for c in range(nch):
        ch = rnd.choice(["ch%d" % c, "a/b/ch%d" % c])
        os.makedirs(os.path.join(src, ch))
        open(os.path.join(src, ch, "drf_properties.h5"), "wb").write(b"p%d" % c)
        files[os.path.join(ch, "drf_properties.h5")] = ("prop", ch, None)
        n = rnd.randint(1, 6)
        for k in range(n):
            t = T0 + k
            rel = os.path.join(ch, sd(t, cad), "rf@%d.000.h5" % t)
            os.makedirs(os.path.dirname(os.path.join(src, rel)), exist_ok=True)
            open(os.path.join(src, rel), "wb").write(os.urandom(rnd.randint(1, 300)))
            files[rel] = ("rf", ch, t)
        if rnd.random() < 0.8:
            mch = os.path.join(ch, "metadata") if rnd.random() < 0.6 else "md%d" % c
            os.makedirs(os.path.join(src, mch), exist_ok=True)
            open(os.path.join(src, mch, "dmd_properties.h5"), "wb").write(b"m%d" % c)
            files[os.path.join(mch, "dmd_properties.h5")] = ("prop", mch, None)
            fc = rnd.choice([1, 2, 5])
            for k in range(0, rnd.randint(1, 6) * fc, fc):
                t = T0 + k
                rel = os.path.join(mch, sd(t, cad * fc), "metadata@%d.h5" % t)
                os.makedirs(os.path.dirname(os.path.join(src, rel)), exist_ok=True)
                open(os.path.join(src, rel), "wb").write(os.urandom(rnd.randint(1, 300)))
                files[rel] = ("md", mch, t)
    truth = {rel: sha(os.path.join(src, rel)) for rel in files}
    kw = {}
    st = en = None
    if rnd.random() < 0.4:
        st = T0 + rnd.randint(0, 5)
        kw["starttime"] = datetime.datetime.fromtimestamp(st, tz=datetime.timezone.utc)
    if rnd.random() < 0.4:
        en = T0 + rnd.randint(0, 8)
        kw["endtime"] = datetime.datetime.fromtimestamp(en, tz=datetime.timezone.utc)
    inc_drf, inc_dmd = rnd.choice([(True, True), (True, True), (True, False), (False, True)])
    with contextlib.redirect_stdout(io.StringIO()):
        m = M.DigitalRFMirror(src, dst, method=method, link=link, include_drf=inc_drf, include_dmd=inc_dmd, **kw)
    # events
    evs = []
    ghosts = []
    for rel, (kind, ch, t) in files.items():
        p = os.path.join(src, rel)
        r = rnd.random()
        if r < 0.6 or kind == "prop":
            evs.append(FileCreatedEvent(p))
        elif r < 0.8:
            d, b = os.path.split(p)
            evs.append(FileMovedEvent(os.path.join(d, "tmp." + b), p))
        else:
            # inode re-use: reported as a move from a vanished file of the same kind
            d, b = os.path.split(p)
            ghost = os.path.join(d, b.replace("@16", "@15"))
            evs.append(FileMovedEvent(ghost, p))
        for _ in range(rnd.choice([0, 0, 1, 2])):
            evs.append(rnd.choice([FileModifiedEvent, FileClosedEvent, FileCreatedEvent])(p))
        if rnd.random() < 0.15:
            d, b = os.path.split(p)
            ghost = os.path.join(d, b.replace("@16", "@14"))
            evs.append(rnd.choice([FileCreatedEvent, FileModifiedEvent, FileDeletedEvent])(ghost))
    mode = rnd.choice(["inorder", "window", "shuffle"])
    if mode == "shuffle":
        rnd.shuffle(evs)
    elif mode == "window":
        for i in range(len(evs) - 1):
            j = min(len(evs) - 1, i + rnd.randint(0, 3))
            evs[i], evs[j] = evs[j], evs[i]
    errout = io.StringIO()
    with contextlib.redirect_stdout(io.StringIO()), contextlib.redirect_stderr(errout):
        if via_observer:
            (watch,) = list(m.observer._handlers)
            for ev in evs:
                m.observer.event_queue.put((ev, watch))
                m.observer.dispatch_events(m.observer.event_queue)
        else:
            for ev in evs:
                for h in m.event_handlers:
                    h.dispatch(ev)
    # oracle
    bad = []
    if "Traceback" in errout.getvalue():
        bad.append("traceback: " + errout.getvalue().strip().splitlines()[-1])

    def selected(kind, t):
        if kind == "prop":
            return True
        if st is not None and t < st:
            return False
        if en is not None and t > en:
            return False
        return True

    newest = {}
    for rel, (kind, ch, t) in files.items():
        if kind == "md" and inc_dmd and selected(kind, t):
            newest[ch] = max(newest.get(ch, -1), t)
    for rel, (kind, ch, t) in files.items():
        inc = {"rf": inc_drf, "md": inc_dmd}.get(kind)
        if kind == "prop":
            inc = inc_drf if rel.endswith("drf_properties.h5") else inc_dmd
        s = os.path.join(src, rel)
        d = os.path.join(dst, rel)
        if inc and selected(kind, t):
            if not os.path.exists(d):
                bad.append("missing in dest %s (src %s)" % (rel, os.path.exists(s)))
            elif sha(d) != truth[rel]:
                bad.append("different in dest %s" % rel)
            if method == "move" and kind == "rf" and os.path.exists(s):
                bad.append("rf still in src %s" % rel)
            if method == "move" and kind == "md":
                if (t == newest[ch]) != os.path.exists(s):
                    bad.append("md src presence wrong %s newest=%s" % (rel, t == newest[ch]))
            if method != "move" or kind == "prop":
                if not os.path.exists(s):
                    bad.append("source removed %s" % rel)
        else:
            if os.path.exists(d):
                bad.append("unselected file in dest %s" % rel)
            if not os.path.exists(s) or sha(s) != truth[rel]:
                bad.append("unselected file touched in src %s" % rel)
    for dp, dn, fn in os.walk(dst):
        for f in fn:
            if f.startswith("tmp."):
                bad.append("staging left %s" % f)
            rel = os.path.relpath(os.path.join(dp, f), dst)
            if rel not in files and not f.startswith("tmp."):
                bad.append("extra file in dest %s" % rel)
    shutil.rmtree(top)
    return bad, (method, link, mode, st, en, inc_drf, inc_dmd)


def main():
    n = int(sys.argv[1])
    s0 = int(sys.argv[2])
    via = len(sys.argv) > 3
    nb = 0
    for seed in range(s0, s0 + n):
        bad, cfg = case(seed, via)
        if bad:
            nb += 1
            print("seed", seed, cfg, bad[:4])
    print("cases", n, "bad", nb)


main()
