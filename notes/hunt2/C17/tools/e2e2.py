"""e2e with fake files only (full control): scenarios around directory life-cycle.

usage: e2e2.py method polling scenario seed
scenarios:
  newchan   : a new channel directory (with nested new subdir and files written at once) appears mid-run
  recreate  : src is removed (rm -rf) and re-created mid-run, then files written
  deepsrc   : src = a/b/c does not exist at start, created later via makedirs with content written at once
  burstdirs : every file in its own new subdirectory (subdir cadence == file cadence), written fast
"""
import hashlib
import os
import random
import shutil
import sys
import tempfile
import time
import datetime

from digital_rf import mirror as M
import digital_rf

assert "/tmp/hw-C17-work" in digital_rf.__file__


def sha(p):
    with open(p, "rb") as f:
        return hashlib.sha1(f.read()).hexdigest()


truth = {}
SRC = None


def subdir(t, cad):
    sub = (t // cad) * cad
    return datetime.datetime.fromtimestamp(sub, tz=datetime.timezone.utc).strftime("%Y-%m-%dT%H-%M-%S")


def rf(ch, t, cad=3600):
    d = os.path.join(SRC, ch, subdir(t, cad))
    os.makedirs(d, exist_ok=True)
    pp = os.path.join(SRC, ch, "drf_properties.h5")
    if not os.path.exists(pp):
        with open(pp, "wb") as f:
            f.write(b"props " + ch.encode())
        truth[os.path.join(ch, "drf_properties.h5")] = sha(pp)
    data = os.urandom(2000)
    tmp = os.path.join(d, "tmp.rf@%d.000.h5" % t)
    with open(tmp, "wb") as f:
        f.write(data)
    os.rename(tmp, os.path.join(d, "rf@%d.000.h5" % t))
    truth[os.path.join(ch, subdir(t, cad), "rf@%d.000.h5" % t)] = hashlib.sha1(data).hexdigest()


def main():
    global SRC
    method, polling, scen, seed = sys.argv[1], bool(int(sys.argv[2])), sys.argv[3], int(sys.argv[4])
    rnd = random.Random(seed)
    top = tempfile.mkdtemp(prefix="e2f", dir="/tmp/hw-C17-work")
    SRC = src = os.path.join(top, "src") if scen != "deepsrc" else os.path.join(top, "a", "b", "src")
    dst = os.path.join(top, "dst")
    if scen != "deepsrc":
        os.makedirs(src)
    t0 = 1600000000
    if scen in ("newchan", "recreate", "burstdirs"):
        rf("ch0", t0)
    m = M.DigitalRFMirror(src, dst, method=method, force_polling=polling)
    m.start()
    time.sleep(1.2)
    if scen == "newchan":
        for k in range(1, 4):
            rf("ch0", t0 + k)
        for k in range(0, 5):
            rf("new/ch%d" % (k % 2), t0 + k)
        time.sleep(1.5)
        for k in range(5, 8):
            rf("new/ch%d" % (k % 2), t0 + k)
            rf("ch0", t0 + k)
    elif scen == "recreate":
        for k in range(1, 4):
            rf("ch0", t0 + k)
        time.sleep(1.5)
        keep = dict(truth)
        shutil.rmtree(src)
        time.sleep(float(os.environ.get("GAP", "1.5")))
        os.makedirs(src)
        for k in range(10, 14):
            rf("ch0", t0 + k)
        time.sleep(1.5)
        for k in range(14, 17):
            rf("ch0", t0 + k)
    elif scen == "deepsrc":
        os.makedirs(src)
        for k in range(0, 4):
            rf("ch0", t0 + k)
        time.sleep(1.5)
        for k in range(4, 7):
            rf("ch0", t0 + k)
    elif scen == "burstdirs":
        for k in range(1, 12):
            rf("ch0", t0 + k, cad=1)
            if k % 4 == 0:
                time.sleep(rnd.choice([0.2, 0.6, 1.2]))
    time.sleep(4.0 if polling else 2.5)
    m.stop()
    m.observer.join()
    bad = []
    for rel, h in sorted(truth.items()):
        p = os.path.join(dst, rel)
        if not os.path.exists(p):
            bad.append("MISSING in dest: %s (in src: %s)" % (rel, os.path.exists(os.path.join(src, rel))))
        elif sha(p) != h:
            bad.append("DIFFERENT in dest: %s" % rel)
    for dp, dn, fn in os.walk(dst):
        for f in fn:
            if f.startswith("tmp."):
                bad.append("left-over staging file: %s" % os.path.relpath(os.path.join(dp, f), dst))
    print("\nresult", scen, method, polling, "n", len(truth), "bad", len(bad))
    for b in bad[:6]:
        print("  ", b)
    shutil.rmtree(top)
    return 1 if bad else 0


sys.exit(main())
