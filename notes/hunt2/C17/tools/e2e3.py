import os, sys, time, shutil, tempfile, contextlib, io
import numpy as np, digital_rf
from digital_rf import mirror as M
top=tempfile.mkdtemp(dir='/tmp/hw-C17-work'); src=os.path.join(top,'src'); dst=os.path.join(top,'dst'); os.makedirs(src)
stage=os.path.join(top,'stage','chA','metadata'); os.makedirs(stage)
w=digital_rf.DigitalMetadataWriter(stage,3600,1,1,1,'metadata')
t0=1600000000
for k in range(8): w.write(t0+k,{'v':np.int64(k)})
out=io.StringIO()
with contextlib.redirect_stdout(out):
    m=M.DigitalRFMirror(src,dst,method='move',verbose=True); (hs,)=list(m.observer._handlers.values())
    kinds=["rb" if hasattr(h,'queues') else h.mirror_fun.__name__ for h in hs]
    m.start(); time.sleep(1)
    if sys.argv[1]=='mv': os.rename(os.path.join(top,'stage','chA'), os.path.join(src,'chA'))
    else: shutil.copytree(os.path.join(top,'stage','chA'), os.path.join(src,'chA'))
    time.sleep(3); m.stop(); m.observer.join()
lost=[k for k in range(8) if not os.path.exists(os.path.join(dst,'chA','metadata','2020-09-13T12-00-00','metadata@%d.h5'%(t0+k)))]
print(sys.argv[1], kinds, 'not in dest:', lost, 'src has', sorted(os.listdir(os.path.join(src,'chA','metadata','2020-09-13T12-00-00'))))
print(out.getvalue().replace(top,""))
shutil.rmtree(top)
