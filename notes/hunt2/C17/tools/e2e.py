"""End-to-end: real observer threads + real metadata writer (+ fake RF files by tmp+rename).

usage: e2e.py method polling(0/1) nfiles burst seed [link]
Checks after quiescence: every metadata sample written is readable from dest (file-level: every
metadata file ever produced exists in dest, byte-identical to the last content the writer left),
newest metadata file still in src, no tmp. left in dest, RF files all in dest (move: not in src).
"""
import hashlib
import os
import random
import shutil
import sys
import tempfile
import threading
import time

import numpy as np

import digital_rf
from digital_rf import mirror as M




def sha(p):
    with open(p, "rb") as f:
        return hashlib.sha1(f.read()).hexdigest()


FC = int(os.environ.get("FC", "1"))


def main():
    method = sys.argv[1]
    polling = bool(int(sys.argv[2]))
    nfiles = int(sys.argv[3])
    burst = int(sys.argv[4])
    seed = int(sys.argv[5])
    link = len(sys.argv) > 6 and sys.argv[6] == "link"
    rnd = random.Random(seed)
    top = tempfile.mkdtemp(prefix="e2e", dir="/tmp/hw-C17-work")
    src = os.path.join(top, "src")
    dst = os.path.join(top, "dst")
    os.makedirs(src)
    nch = 2
    t0 = 1600000000
    writers = []
    for c in range(nch):
        d = os.path.join(src, "ch%d" % c, "metadata")
        os.makedirs(d)
        writers.append(
            digital_rf.DigitalMetadataWriter(d, 3600 if c else 4*FC, FC, 1, 1, "metadata")
        )
    truth = {}  # relpath -> sha of last content

    rf_truth = {}

    def rf(c, t):
        import datetime
        sub = (t // 4) * 4
        dn = datetime.datetime.fromtimestamp(sub, tz=datetime.timezone.utc).strftime("%Y-%m-%dT%H-%M-%S")
        d = os.path.join(src, "ch%d" % c, dn)
        os.makedirs(d, exist_ok=True)
        pp = os.path.join(src, "ch%d" % c, "drf_properties.h5")
        if not os.path.exists(pp):
            open(pp, "wb").write(b"props%d" % c)
        data = os.urandom(3000)
        with open(os.path.join(d, "tmp.rf@%d.000.h5" % t), "wb") as f:
            f.write(data[:1000])
            f.flush()
            f.write(data[1000:])
        os.rename(os.path.join(d, "tmp.rf@%d.000.h5" % t), os.path.join(d, "rf@%d.000.h5" % t))
        rf_truth[os.path.join("ch%d" % c, dn, "rf@%d.000.h5" % t)] = hashlib.sha1(data).hexdigest()

    def snap(c, t):
        if os.environ.get("RF"):
            rf(c, t)
        # record the content of the file that holds sample t of channel c
        w = writers[c]
        sub = (t // w._subdir_cadence_secs) * w._subdir_cadence_secs
        import datetime

        dn = datetime.datetime.fromtimestamp(sub, tz=datetime.timezone.utc).strftime("%Y-%m-%dT%H-%M-%S")
        rel = os.path.join("ch%d" % c, "metadata", dn, "metadata@%d.h5" % ((t // FC) * FC))
        truth[rel] = sha(os.path.join(src, rel))

    m = M.DigitalRFMirror(src, dst, method=method, force_polling=polling, link=link, verbose=bool(os.environ.get("VERBOSE")))
    pre = int(os.environ.get("PRE", "0"))
    k = 0
    for k in range(pre):
        for c in range(nch):
            writers[c].write(t0 + k, {"v": np.int64(k), "c": c})
            snap(c, t0 + k)
    m.start()
    hs = list(m.observer._handlers.values())
    order = [("rb" if not hasattr(h, "mirror_fun") else getattr(h.mirror_fun, "__name__", "link")) for h in (list(hs[0]) if hs else [])]
    time.sleep(float(os.environ.get("SETTLE", "1.5")))
    k = pre
    while k < nfiles:
        for b in range(burst):
            if k >= nfiles:
                break
            for c in range(nch):
                writers[c].write(t0 + k, {"v": np.int64(k), "c": c})
                snap(c, t0 + k)
            k += 1
        time.sleep(rnd.choice([0.3, 0.7, 1.1, 1.6]))
    time.sleep(4.0 if polling else 2.5)
    m.stop()
    m.observer.join()
    bad = []
    for rel, h in sorted(truth.items()):
        p = os.path.join(dst, rel)
        if not os.path.exists(p):
            bad.append("MISSING in dest: %s (in src: %s)" % (rel, os.path.exists(os.path.join(src, rel))))
        elif sha(p) != h:
            bad.append("DIFFERENT in dest: %s" % rel)
    for rel, h in sorted(rf_truth.items()):
        p = os.path.join(dst, rel)
        if not os.path.exists(p):
            bad.append("RF MISSING in dest: %s (in src: %s)" % (rel, os.path.exists(os.path.join(src, rel))))
        elif sha(p) != h:
            bad.append("RF DIFFERENT in dest: %s" % rel)
        if method == "move" and os.path.exists(os.path.join(src, rel)):
            bad.append("RF still in src: %s" % rel)
    for c in range(nch):
        rel = [r for r in truth if r.startswith("ch%d/" % c)]
        newest = max(rel, key=lambda r: int(r.split("@")[1][:-3]))
        if not os.path.exists(os.path.join(src, newest)):
            bad.append("newest metadata not in src: %s" % newest)
        if method == "move":
            for r in rel:
                if r != newest and os.path.exists(os.path.join(src, r)):
                    bad.append("old metadata still in src: %s" % r)
    for dp, dn, fn in os.walk(dst):
        for f in fn:
            if f.startswith("tmp."):
                bad.append("left-over staging file: %s" % os.path.relpath(os.path.join(dp, f), dst))
    print("\norder", order, "n", len(truth), "bad", len(bad))
    for b in bad[:int(os.environ.get("NBAD", "4"))]:
        print("  ", b)
    shutil.rmtree(top)
    return 1 if bad else 0


sys.exit(main())
