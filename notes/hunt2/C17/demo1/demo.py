"""Move mode: created(B), created(A) (A older, same metadata channel) delivered through the observer's own
dispatch routine.  The observer keeps the handlers of a watch in a *set*, so the order in which the
copy handler and the count=1 ring-buffer handler see one event is arbitrary; when the ring buffer comes
first it deletes A from the source before the copy handler has mirrored it.

Nothing of the mirror is changed or mocked: the events go through BaseObserver.dispatch_events (the
routine the observer thread runs); the threads are simply not started so that the run is deterministic.
"""
import contextlib
import io
import os
import sys

import h5py
from watchdog.events import FileCreatedEvent

from digital_rf import mirror as M

top = sys.argv[1]


def build(n):
    src = os.path.join(top, "src%d" % n)
    dst = os.path.join(top, "dst%d" % n)
    sub = os.path.join(src, "ch0", "metadata", "2020-09-13T12-00-00")
    os.makedirs(sub)
    with h5py.File(os.path.join(src, "ch0", "metadata", "dmd_properties.h5"), "w") as f:
        f.attrs["x"] = 1
    names = []
    for t in (1600000001, 1600000002):
        p = os.path.join(sub, "metadata@%d.h5" % t)
        with h5py.File(p, "w") as f:
            f.create_group(str(t)).attrs["v"] = t
        names.append(p)
    with contextlib.redirect_stdout(io.StringIO()):
        m = M.DigitalRFMirror(src, dst, method="move")
    return m, src, dst, names


keep = []
for n in range(60):
    m, src, dst, (A, B) = build(n)
    keep.append(m)  # keep alive so that the next handlers get other addresses (other set order)
    (watch, handlers), = m.observer._handlers.items()
    kinds = [
        "ringbuffer" if hasattr(h, "queues") else getattr(getattr(h, "mirror_fun", None), "__name__", type(h).__name__)
        for h in handlers
    ]
    # the history: both files are final; the creation events arrive newest first (what a polling observer
    # does for two files that appeared between two snapshots, or inotify for a tree copied in readdir order)
    with contextlib.redirect_stdout(io.StringIO()):
        for p in (B, A):
            m.observer.event_queue.put((FileCreatedEvent(p), watch))
            m.observer.dispatch_events(m.observer.event_queue)
    relA = os.path.relpath(A, src)
    in_src = os.path.exists(A)
    in_dst = os.path.exists(os.path.join(dst, relA))
    if not in_dst:
        print(
            "VIOLATION: observer handler order %s (try %d): after created(B), created(A) the metadata file %s "
            "is not in the destination (in the source: %s)" % (kinds, n, relA, in_src)
        )
        sys.exit(1)
print("ok: 60 mirrors (handler orders vary), created(B), created(A): A always mirrored before it was expired")
sys.exit(0)
