"""Real reproduction: DigitalRFMirror(method="move", force_polling=True) with its observer threads and the
real DigitalMetadataWriter writing 3 one-sample files per second into 2 channels.  Up to 8 runs (the
handler order of a run is arbitrary); exits 1 at the first run in which metadata files are lost."""
import contextlib
import io
import os
import shutil
import sys
import time

import numpy as np

import digital_rf
from digital_rf import mirror as M

top = sys.argv[1]
t0 = 1600000000


def one(n):
    src = os.path.join(top, "s%d" % n)
    dst = os.path.join(top, "d%d" % n)
    writers = []
    for c in range(2):
        d = os.path.join(src, "ch%d" % c, "metadata")
        os.makedirs(d)
        writers.append(digital_rf.DigitalMetadataWriter(d, 3600, 1, 1, 1, "metadata"))
    out = io.StringIO()
    with contextlib.redirect_stdout(out):
        m = M.DigitalRFMirror(src, dst, method="move", force_polling=True)
        (handlers,) = list(m.observer._handlers.values())
        kinds = [
            "ringbuffer" if hasattr(h, "queues") else getattr(getattr(h, "mirror_fun", None), "__name__", type(h).__name__)
            for h in handlers
        ]
        m.start()
        time.sleep(1.5)
        for k in range(12):
            for c in range(2):
                writers[c].write(t0 + k, {"v": np.int64(k)})
            if k % 3 == 2:
                time.sleep(1.3)
        time.sleep(3.5)
        m.stop()
        m.observer.join()
    lost = []
    for c in range(2):
        for k in range(12):
            rel = os.path.join("ch%d" % c, "metadata", "2020-09-13T12-00-00", "metadata@%d.h5" % (t0 + k))
            if not os.path.exists(os.path.join(dst, rel)) and not os.path.exists(os.path.join(src, rel)):
                lost.append(rel)
    shutil.rmtree(src)
    shutil.rmtree(dst, ignore_errors=True)
    return kinds, lost


for n in range(8):
    kinds, lost = one(n)
    if lost:
        print(
            "VIOLATION (run %d, handler order %s): %d of 24 metadata files exist neither in src nor in dest, e.g. %s"
            % (n, kinds, len(lost), lost[0])
        )
        sys.exit(1)
print("ok: 8 runs, 24 metadata files each, none lost")
