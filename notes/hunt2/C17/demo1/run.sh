#!/bin/bash
# usage: REPO=<checkout> bash run.sh        (E2E=1 additionally runs the real-observer reproduction)
# exits 1 and prints one VIOLATION line if a metadata file is lost in move mode because the observer
# dispatches to the ring-buffer handler before the copy handler
set -u
HERE=$(cd "$(dirname "$0")" && pwd)
T=$(mktemp -d)
trap 'rm -rf "$T"' EXIT
mkdir -p "$T/pkg"
cp -r "$REPO/python/digital_rf" "$T/pkg/digital_rf"
cp /venv/lib/python3.12/site-packages/digital_rf/_py_rf_write_hdf5*.so "$T/pkg/digital_rf/" 2>/dev/null
cat > "$T/pkg/digital_rf/_version.py" <<'EOV'
__version__ = version = '2.6.14'
__version_tuple__ = version_tuple = (2, 6, 14)
__commit_id__ = commit_id = None
EOV
if [ "${E2E:-0}" = 1 ]; then
  PYTHONPATH="$T/pkg" /venv/bin/python "$HERE/e2e.py" "$T"
else
  PYTHONPATH="$T/pkg" /venv/bin/python "$HERE/demo.py" "$T"
fi
