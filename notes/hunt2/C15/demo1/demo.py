import os, sys
from digital_rf import list_drf, watchdog_drf
from watchdog.events import FileCreatedEvent, FileMovedEvent

root = sys.argv[1]
ch = os.path.join(root, "ch")
good = os.path.join(ch, "2016-01-01T00-00-00", "rf@1451606400.000.h5")
bad = os.path.join(ch, "2016-13-01T00-00-00", "rf@1451606400.000.h5")
for p in (os.path.join(ch, "drf_properties.h5"), good, bad):
    os.makedirs(os.path.dirname(p), exist_ok=True)
    open(p, "w").close()


class Rec(watchdog_drf.DigitalRFEventHandler):
    def __init__(self, **kw):
        super().__init__(**kw)
        self.log = []

    def on_created(self, e):
        self.log.append(("created", e.src_path))

    def on_deleted(self, e):
        self.log.append(("deleted", e.src_path))

    def on_modified(self, e):
        self.log.append(("modified", e.src_path))

    def on_moved(self, e):
        self.log.append(("moved", e.src_path, e.dest_path))


listed = list_drf.lsdrf(root)
h = Rec()
h.dispatch(FileCreatedEvent(bad))
created = list(h.log)
h.log = []
h.dispatch(FileMovedEvent(good, bad))
moved = [x[0] for x in h.log]

problems = []
if (bad in listed) != bool(created):
    problems.append(
        "created event for ch/2016-13-01T00-00-00/rf@1451606400.000.h5 %s by the filter, "
        "path %s by lsdrf" % ("ACCEPTED" if created else "rejected", "listed" if bad in listed else "NOT listed")
    )
exp = ["moved"] if bad in listed else ["deleted"]
if moved != exp:
    problems.append("rename of a listed file into that directory delivered as %s, expected %s" % (moved, exp))
if problems:
    print("VIOLATION: " + "; ".join(problems))
    sys.exit(1)
print("ok: filter and listing agree on the not-a-date sub-directory")
