#!/bin/bash
# demo1: a sub-directory name that fits the pattern but is not a date (2016-13-01T00-00-00):
# the listing skips it (since "fix: skip names that fit ... but are not times when listing"),
# the event filter still accepts files in it.   usage: REPO=<checkout> bash run.sh
set -u
REPO=${REPO:?set REPO to a checkout}
HERE=$(cd "$(dirname "$0")" && pwd)
W=$(mktemp -d)
trap 'rm -rf "$W"' EXIT
mkdir -p "$W/pkg"
cp -r "$REPO/python/digital_rf" "$W/pkg/digital_rf"
cp /venv/lib/python3.12/site-packages/digital_rf/_py_rf_write_hdf5*.so "$W/pkg/digital_rf/" 2>/dev/null
printf "__version__ = version = '0'\n__version_tuple__ = version_tuple = (0,)\n" > "$W/pkg/digital_rf/_version.py"
PYTHONPATH="$W/pkg" /venv/bin/python "$HERE/demo.py" "$W/tree"
