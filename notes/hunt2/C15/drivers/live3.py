import os, sys, time, tempfile, shutil
from live2 import Rec
from digital_rf import watchdog_drf, list_drf
polling = len(sys.argv)>1 and sys.argv[1]=='poll'
base=tempfile.mkdtemp(dir='/tmp/hw-C15-work'); root=base+'/data'; os.mkdir(root)
h=Rec(); w=watchdog_drf.DirWatcher(root, force_polling=polling); w.schedule(h,root,recursive=True); w.start(); time.sleep(0.5)
W = 2.5 if polling else 1.2
def step(msg, f):
    n=len(h.log); f(); time.sleep(W)
    print(msg); 
    for l in h.log[n:]: print('    ', tuple(x.replace(root+'/','') for x in l))
ch=root+'/a'; sd=ch+'/2016-01-01T00-00-00'
def mk():
    os.makedirs(sd); open(ch+'/drf_properties.h5','w').close()
    for t in (0,1,2):
        open(sd+'/tmp.rf@%d.000.h5'%(1451606400+t),'w').close(); os.rename(sd+'/tmp.rf@%d.000.h5'%(1451606400+t), sd+'/rf@%d.000.h5'%(1451606400+t))
step('create', mk)
step('mv subdir -> junkdir', lambda: os.rename(sd, ch+'/junkdir'))
step('mv junkdir -> subdir2', lambda: os.rename(ch+'/junkdir', ch+'/2016-01-01T00-00-10'))
step('mv subdir2 -> subdir3', lambda: os.rename(ch+'/2016-01-01T00-00-10', ch+'/2016-01-01T00-00-20'))
step('mv channel a -> z', lambda: os.rename(ch, root+'/z'))
step('mv subdir3 outside', lambda: os.rename(root+'/z/2016-01-01T00-00-20', base+'/outside'))
step('mv outside back in', lambda: os.rename(base+'/outside', root+'/z/2016-01-01T00-00-00'))
step('rmtree subdir', lambda: shutil.rmtree(root+'/z/2016-01-01T00-00-00'))
print('tracked', sorted(x.replace(root+'/','') for x in h.tracked)); print('listed', [x.replace(root+'/','') for x in list_drf.lsdrf(root)])
w.stop(); w.join(); shutil.rmtree(base)
