set -u
export PYTHONPATH=/tmp/hw-C15-work/pkg
D=$(mktemp -d /tmp/hw-C15-work/cli.XXXX)
DRF="/venv/bin/python -u -c 'from digital_rf.drf_command import main; main()'"
opts="$*"
mkdir -p $D/data
( eval "$DRF ringbuffer $D/data -c 100 -n -v -p 1000 $opts" > $D/rb.log 2>&1 & echo $! > $D/pid )
( eval "$DRF mirror cp $D/data $D/dest -v $opts" > $D/mi.log 2>&1 & echo $! > $D/pid2 )
sleep 2
mkdir -p $D/data/ch/2016-01-01T00-00-00 $D/data/md/2016-01-01T00-00-00
touch $D/data/ch/drf_properties.h5; touch $D/data/md/dmd_properties.h5
sleep 0.5
for t in 1451606400 1451606401 1451606402 1451606403 1451606404 1451606405 1451606406; do
  echo x > $D/data/ch/2016-01-01T00-00-00/tmp.rf@$t.000.h5
  mv $D/data/ch/2016-01-01T00-00-00/tmp.rf@$t.000.h5 $D/data/ch/2016-01-01T00-00-00/rf@$t.000.h5
  echo x > $D/data/md/2016-01-01T00-00-00/tmp.md@$t.h5
  mv $D/data/md/2016-01-01T00-00-00/tmp.md@$t.h5 $D/data/md/2016-01-01T00-00-00/md@$t.h5
done
sleep 2
kill -INT $(cat $D/pid) $(cat $D/pid2); sleep 1
grep Added $D/rb.log | sed 's/.*Added //' | sed "s#$D/data/##" | sort -u > $D/w.txt
grep Mirroring $D/mi.log | grep -v "Mirroring (" | sed 's/.*Mirroring //' | sed "s#$D/data/##" | sort -u > $D/m.txt
(cd $D/data && eval "$DRF ls -r . --nodrfprops --nodmdprops $opts" | sed 's#^\./##' | sort) > $D/l.txt
(cd $D/data && eval "$DRF ls -r . $opts" | sed 's#^\./##' | sort) > $D/l2.txt
(cd $D/dest && find . -type f | sed 's#^\./##' | sort) > $D/d.txt
echo "opts: $opts"; echo "ringbuffer vs ls:"; diff $D/w.txt $D/l.txt && echo SAME; echo "mirror vs ls:"; diff $D/m.txt $D/l2.txt && echo SAME;  echo "dest vs ls:"; diff $D/d.txt $D/l2.txt && echo SAME
grep -i "error\|Traceback" $D/rb.log $D/mi.log | head
rm -rf $D
