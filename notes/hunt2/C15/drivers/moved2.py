import os, sys, itertools, collections, datetime
sys.argv = sys.argv[:1]
import importlib.util
src = open('drive2.py').read().rsplit('\nmain()',1)[0]
exec(compile(src, 'drive2.py', 'exec'))
T=T0
S='2016-01-01T00-00-00'
PATHS = ['top/ch/%s/rf@%d.000.h5'%(S,T), 'top/ch/%s/rf@%d.000.h5'%(S,T+10), 'top/ch/%s/rf@%d.000.h5'%(S,T-10),
         'top/ch/%s/md@%d.h5'%(S,T), 'top/ch/%s/md@%d.h5'%(S,T+10), 'top/ch/%s/tmp.rf@%d.000.h5'%(S,T), 'top/ch/%s/tmp.md@%d.h5'%(S,T),
         'top/ch/drf_properties.h5', 'top/ch/dmd_properties.h5', 'top/ch/metadata.h5', 'top/ch/tmp.drf_properties.h5',
         'top/ch/%s/junk.txt'%S, 'top/ch/rf@%d.000.h5'%T, 'top/ch/2016-13-01T00-00-00/rf@%d.000.h5'%T,
         'top/ch/%s/rf@100000000000000.000.h5'%S, 'top/other/%s/rf@%d.000.h5'%(S,T), 'elsewhere/rf.h5', '']
dt = lambda s, usec=0: EPOCH + datetime.timedelta(seconds=s, microseconds=usec)
pts = [None, dt(T), dt(T+5), dt(T-5), dt(T+10), dt(T-10), dt(T+11), dt(T-11)]
wins = list(itertools.product(pts,pts))
diffs = collections.Counter(); n=0
for fl in FLAGS:
    eff = (fl[0], fl[1], fl[0] if fl[2] is None else fl[2], fl[1] if fl[3] is None else fl[3])
    if not any(eff): continue
    for st,et in wins:
        h = H(starttime=st, endtime=et, include_drf=fl[0], include_dmd=fl[1], include_drf_properties=fl[2], include_dmd_properties=fl[3])
        w = (us(st),us(et))
        ok = {p: (oracle(p, fl, w) if p else False) for p in PATHS}
        for a,b in itertools.permutations(PATHS,2):
            if not a: continue
            A = '/base/'+a; B = '/base/'+b if b else ''
            h.log=[]
            try:
                h.dispatch(FileMovedEvent(A,B)); got = h.log
            except Exception as ex:
                got = 'EXC:'+type(ex).__name__
            if ok[a] and ok[b]: exp=[('moved',A,B)]
            elif ok[a]: exp=[('deleted',A)]
            elif ok[b]: exp=[('created',B)]
            else: exp=[]
            n+=1
            if got!=exp:
                diffs[(a,b,str(got if isinstance(got,str) else [g[0] for g in got]),str([g[0] for g in exp]))]+=1
print(n,'move events')
agg=collections.Counter()
for (a,b,g,e),v in diffs.items():
    cls = ('baddate' if '2016-13' in a+b else '') + ('overflow' if '1000000000' in a+b else '')
    agg[(cls,g,e)]+=v
for k,v in sorted(agg.items()): print(k,v)
for (a,b,g,e),v in diffs.items():
    if '2016-13' not in a+b and '1000000000' not in a+b: print('OTHER',a,b,g,e,v)
