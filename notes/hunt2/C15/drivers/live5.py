import os, sys, time, tempfile, shutil
from live2 import Rec
from digital_rf import watchdog_drf, list_drf
base=tempfile.mkdtemp(dir='/tmp/hw-C15-work'); root=base+'/data'; os.mkdir(root)
h=Rec(); w=watchdog_drf.DirWatcher(root); w.schedule(h,root,recursive=True)
orig_c=w.on_created; orig_d=w.on_deleted
import watchdog.events as E
class Spy(E.FileSystemEventHandler):
    def on_any_event(s,e): print('  ROOTOBS', e.event_type, e.is_directory, e.src_path.replace(base,''), getattr(e,'dest_path','').replace(base,''))
w.start(); w.root_observer.schedule(Spy(), root, recursive=False); time.sleep(0.5)
def write(ch, ts):
    sd=root+'/'+ch+'/2016-01-01T00-00-00'; os.makedirs(sd, exist_ok=True)
    open(root+'/'+ch+'/drf_properties.h5','w').close()
    for t in ts:
        tmp=sd+'/tmp.rf@%d.000.h5'%(1451606400+t); open(tmp,'w').close(); os.rename(tmp, sd+'/rf@%d.000.h5'%(1451606400+t))
write('b',range(2)); time.sleep(1.5); print('log', [(l[0],l[1].replace(root,'')) for l in h.log]); h.log.clear()
print('rename root'); os.rename(root, root+'.old'); time.sleep(1.5); print('log', [(l[0],l[1].replace(root,'')) for l in h.log]); h.log.clear()
print('root_watch', w.root_watch, 'emitters', [e.watch.path.replace(base,'') for e in w.emitters])
print('new root + files'); write('c',range(2)); time.sleep(1.5); print('log', [(l[0],l[1].replace(root,'')) for l in h.log]); h.log.clear()
print('write into renamed-away dir'); 
sd=root+'.old/b/2016-01-01T00-00-00'; open(sd+'/tmp.rf@1451606409.000.h5','w').close(); os.rename(sd+'/tmp.rf@1451606409.000.h5', sd+'/rf@1451606409.000.h5'); time.sleep(1.5)
print('log', [(l[0],l[1].replace(root,'')) for l in h.log]); print('alive', w.all_alive())
w.stop(); w.join(); shutil.rmtree(base)
