set -u
export PYTHONPATH=/tmp/hw-C15-work/pkg
D=$(mktemp -d /tmp/hw-C15-work/cli.XXXX)
DRF="/venv/bin/python -u -c 'from digital_rf.drf_command import main; main()'"
run() { eval "$DRF $*"; }
opts="$*"
( eval "$DRF watch $D/data $opts" > $D/watch.log 2>&1 & echo $! > $D/pid )
sleep 2
mkdir -p $D/data/ch/2016-01-01T00-00-00 $D/data/md/2016-01-01T00-00-00
touch $D/data/ch/drf_properties.h5; touch $D/data/md/dmd_properties.h5
sleep 0.5
for t in 1451606400 1451606401 1451606402 1451606403 1451606404 1451606405 1451606406; do
  echo x > $D/data/ch/2016-01-01T00-00-00/tmp.rf@$t.000.h5
  mv $D/data/ch/2016-01-01T00-00-00/tmp.rf@$t.000.h5 $D/data/ch/2016-01-01T00-00-00/rf@$t.000.h5
  echo x > $D/data/md/2016-01-01T00-00-00/tmp.md@$t.h5
  mv $D/data/md/2016-01-01T00-00-00/tmp.md@$t.h5 $D/data/md/2016-01-01T00-00-00/md@$t.h5
done
sleep 2
kill -INT $(cat $D/pid); sleep 1
grep Created $D/watch.log | sed 's/.*Created //' | sort > $D/w.txt
(cd $D/data && eval "$DRF ls -r . $opts" | sed 's#^\./##' | sort) > $D/l.txt
echo "opts: $opts"; diff $D/w.txt $D/l.txt && echo SAME; grep -v "Created\|Modified" $D/watch.log | head
echo W; cat $D/w.txt; echo L; cat $D/l.txt; cat $D/watch.log | head -30; rm -rf $D
