"""Random histories under a real DirWatcher; tracked set from delivered events vs lsdrf."""
import os, sys, random, shutil, tempfile, time, datetime, threading
from digital_rf import list_drf, watchdog_drf
UTC=datetime.timezone.utc
T0=1451606400
class Rec(watchdog_drf.DigitalRFEventHandler):
    def __init__(s, **k):
        super().__init__(**k); s.tracked=set(); s.log=[]; s.lock=threading.Lock(); s.bad=[]
    def on_created(s,e):
        with s.lock: s.tracked.add(e.src_path); s.log.append(('C',e.src_path)); s.chk(e.src_path)
    def on_deleted(s,e):
        with s.lock: s.tracked.discard(e.src_path); s.log.append(('D',e.src_path)); s.chk(e.src_path)
    def on_modified(s,e):
        with s.lock: s.log.append(('M',e.src_path)); s.chk(e.src_path)
    def on_moved(s,e):
        with s.lock: s.tracked.discard(e.src_path); s.tracked.add(e.dest_path); s.log.append(('V',e.src_path,e.dest_path)); s.chk(e.src_path); s.chk(e.dest_path)
    def chk(s,p):
        b=os.path.basename(p)
        if b.startswith('tmp.') or b.endswith('.junk'): s.bad.append(p)

def run(seed, polling, nops, win):
    rnd=random.Random(seed)
    base=tempfile.mkdtemp(dir='/tmp/hw-C15-work'); root=os.path.join(base,'data'); os.mkdir(root)
    out=os.path.join(base,'outside'); os.mkdir(out)
    st,et=win
    h=Rec(starttime=st,endtime=et)
    w=watchdog_drf.DirWatcher(root, force_polling=polling)
    from watchdog.events import FileSystemEventHandler
    class Raw(FileSystemEventHandler):
        def __init__(s): s.ev=[]
        def on_any_event(s,e): s.ev.append(e)
    raw=Raw()
    w.schedule(h, root, recursive=True)
    w.schedule(raw, root, recursive=True)
    sys.stdout=open(os.devnull,'w'); w.start(); sys.stdout=sys.__stdout__
    time.sleep(0.3)
    chans=['a','b/c']
    def subdirs(ch):
        d=os.path.join(root,ch)
        return [x for x in os.listdir(d) if os.path.isdir(os.path.join(d,x))] if os.path.isdir(d) else []
    def allfiles():
        r=[]
        for dp,dn,fn in os.walk(root):
            for f in fn:
                if '@' in f: r.append(os.path.join(dp,f))
        return r
    for ch in chans:
        os.makedirs(os.path.join(root,ch))
        open(os.path.join(root,ch,'drf_properties.h5' if ch=='a' else 'dmd_properties.h5'),'w').close()
    pause = (lambda: time.sleep(1.2)) if polling else (lambda: time.sleep(rnd.choice([0,0,0.01,0.05])))
    for i in range(nops):
        op=rnd.choice(['write']*6+['junk','unjunk','retime','del','mod','mvsub','mvsubjunk','rmsub','mvch','out','in','crosssub'])
        ch=rnd.choice(chans); t=T0+rnd.randrange(0,20); sd='2016-01-01T00-00-%02d'%(t-T0 - (t-T0)%10)
        name=('rf@%d.000.h5' if ch=='a' else 'md@%d.h5')%t
        h.log.append(('OP',i,op,ch,name))
        try:
            if op=='write':
                d=os.path.join(root,ch,sd); os.makedirs(d,exist_ok=True)
                tmp=os.path.join(d,'tmp.'+name)
                with open(tmp,'w') as f: f.write('x'*rnd.randrange(1,100))
                if rnd.random()<0.5: pause()
                os.rename(tmp, os.path.join(d,name))
            else:
                fs=allfiles()
                if op in('junk','retime','del','mod','out','crosssub'):
                    fs=[f for f in fs if not f.endswith('.junk')]
                    if not fs: continue
                    f=rnd.choice(fs)
                    if op=='junk': os.rename(f,f+'.junk')
                    elif op=='retime':
                        b=os.path.basename(f); pre=b.split('@')[0]
                        nb=(pre+'@%d.000.h5'%(T0+rnd.randrange(0,20))) if pre=='rf' else (pre+'@%d.h5'%(T0+rnd.randrange(0,20)))
                        os.rename(f, os.path.join(os.path.dirname(f),nb))
                    elif op=='del': os.remove(f)
                    elif op=='mod':
                        with open(f,'a') as fh: fh.write('y')
                    elif op=='out': os.rename(f, os.path.join(out, os.path.basename(f)))
                    elif op=='crosssub':
                        chd=os.path.dirname(os.path.dirname(f)); nsd=os.path.join(chd,'2016-01-01T00-00-%02d'%rnd.choice([0,10,20]))
                        os.makedirs(nsd,exist_ok=True); os.rename(f, os.path.join(nsd, os.path.basename(f)))
                elif op=='unjunk':
                    fs=[f for f in fs if f.endswith('.junk')]
                    if fs:
                        f=rnd.choice(fs); os.rename(f,f[:-5])
                elif op=='in':
                    o=os.listdir(out)
                    if o:
                        b=rnd.choice(o); d=os.path.join(root,ch,sd); os.makedirs(d,exist_ok=True); os.rename(os.path.join(out,b), os.path.join(d,b))
                elif op in('mvsub','mvsubjunk','rmsub'):
                    sds=subdirs(ch)
                    if not sds: continue
                    s=rnd.choice(sds); sp=os.path.join(root,ch,s)
                    h.log.append(('  sub',s))
                    if op=='rmsub': shutil.rmtree(sp)
                    elif op=='mvsub':
                        cands=['2016-01-01T00-00-%02d'%x for x in (0,10,20,30)]+['junkdir']
                        n=rnd.choice(cands); np=os.path.join(root,ch,n)
                        if not os.path.exists(np): os.rename(sp,np); h.log.append(('  mvsub',s,n))
                    else:
                        np=os.path.join(root,ch,'junkdir2')
                        if not os.path.exists(np): os.rename(sp,np)
                elif op=='mvch':
                    pass
        except OSError as ex:
            pass
        pause()
    time.sleep(2.5 if polling else 1.0)
    alive = w.all_alive()
    with h.lock: tracked=set(h.tracked); bad=list(h.bad); log=list(h.log)
    w.stop(); w.join()
    listed=set(list_drf.lsdrf(root,starttime=st,endtime=et))
    # drop forward fill file of the metadata listing: files before start
    if st is not None:
        stms=int((st-datetime.datetime(1970,1,1,tzinfo=UTC)).total_seconds()*1000)
        listed={p for p in listed if list_drf.sortkey_drf(p) is None or list_drf.sortkey_drf(p)[0]>=stms}
    # replay raw events through a fresh filter, single-threaded
    h2=Rec(starttime=st,endtime=et)
    for e in raw.ev: h2.dispatch(e)
    replay_same = (h2.tracked==tracked)
    rawstale=[e for e in raw.ev if not e.is_directory and e.event_type in('created','modified') and not os.path.lexists(e.src_path)]
    if '-r' in sys.argv:
        for e in raw.ev:
            if 'a/2016-01-01T00-00-00' in e.src_path+e.dest_path or 'junkdir' in e.src_path+e.dest_path: print('RAW', e.event_type, e.is_directory, e.src_path.replace(root,''), e.dest_path.replace(root,''), e.is_synthetic)
    res=(tracked-listed, listed-tracked, bad, alive and replay_same)
    shutil.rmtree(base)
    return res, log
if __name__=='__main__':
    polling = sys.argv[1]=='poll'; n=int(sys.argv[2]); seeds=range(int(sys.argv[3]),int(sys.argv[4]))
    dt=lambda s: datetime.datetime.fromtimestamp(s,UTC)
    nbad=0
    for seed in seeds:
        win = [(None,None),(dt(T0+5),dt(T0+14)),(None,dt(T0+9)),(dt(T0+10),None)][seed%4]
        (extra,missing,bad,alive),log=run(seed,polling,n,win)
        if extra or missing or bad or not alive:
            nbad+=1
            print('seed',seed,'extra',sorted(extra),'missing',sorted(missing),'bad',bad,'alive',alive)
            if '-v' in sys.argv:
                for l in log: print('   ',l)
    print('done',len(list(seeds)),'seeds, mismatching',nbad)
