import os, sys, time, tempfile, shutil
from live2 import Rec
from digital_rf import watchdog_drf, list_drf
polling = len(sys.argv)>1 and sys.argv[1]=='poll'
gap = float(sys.argv[2]) if len(sys.argv)>2 else 0.0
base=tempfile.mkdtemp(dir='/tmp/hw-C15-work'); root=base+'/x/y/data'
h=Rec(); w=watchdog_drf.DirWatcher(root, force_polling=polling); w.schedule(h,root,recursive=True); w.start(); time.sleep(0.5)
W = 3 if polling else 1.5
def write(ch, ts):
    sd=root+'/'+ch+'/2016-01-01T00-00-00'
    os.makedirs(sd, exist_ok=True)
    if not os.path.exists(root+'/'+ch+'/drf_properties.h5'): open(root+'/'+ch+'/drf_properties.h5','w').close()
    for t in ts:
        tmp=sd+'/tmp.rf@%d.000.h5'%(1451606400+t)
        with open(tmp,'w') as f: f.write('x')
        if gap: time.sleep(gap)
        os.rename(tmp, sd+'/rf@%d.000.h5'%(1451606400+t))
        if gap: time.sleep(gap)
def check(msg):
    time.sleep(W)
    listed=set(list_drf.lsdrf(root)) if os.path.isdir(root) else set()
    with h.lock: tr=set(h.tracked); bad=list(h.bad)
    ok = (tr==listed and not bad)
    print(msg, 'OK' if ok else 'MISMATCH', 'tracked-listed', sorted(x.replace(root,'') for x in tr-listed), 'listed-tracked', sorted(x.replace(root,'') for x in listed-tr), 'bad', bad, 'alive', w.all_alive())
    return ok
res=[]
write('a', range(3)); res.append(check('1 root created by writer (makedirs deep) + 3 files'))
write('a', range(3,6)); res.append(check('2 three more files'))
shutil.rmtree(root); res.append(check('3 rmtree root'))
write('a', range(2)); res.append(check('4 re-created root, 2 files'))
shutil.rmtree(base+'/x'); res.append(check('5 rmtree grand-parent'))
write('b', range(4)); res.append(check('6 re-created from grand-parent, 4 files'))
os.rename(root, root+'.old'); res.append(check('7 root renamed away'))
write('c', range(2)); res.append(check('8 new root, 2 files'))
w.stop(); w.join(); shutil.rmtree(base)
sys.exit(0 if all(res) else 1)
