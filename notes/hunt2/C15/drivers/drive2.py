"""Exhaustive filter-vs-listing-vs-text-oracle over a bounded grammar (round 2)."""
import os, sys, re, tempfile, shutil, datetime, itertools, collections
from digital_rf import list_drf, watchdog_drf
from watchdog.events import *
UTC = datetime.timezone.utc
EPOCH = datetime.datetime(1970,1,1,tzinfo=UTC)
T0 = 1451606400  # 2016-01-01T00:00:00

class H(watchdog_drf.DigitalRFEventHandler):
    def __init__(s, **k):
        super().__init__(**k); s.log=[]
    def on_created(s,e): s.log.append(('created',e.src_path))
    def on_deleted(s,e): s.log.append(('deleted',e.src_path))
    def on_modified(s,e): s.log.append(('modified',e.src_path))
    def on_moved(s,e): s.log.append(('moved',e.src_path,e.dest_path))

# ---------- text oracle -------------
def subdir_ok(s):
    m = re.fullmatch(r'(\d{4})-(\d\d)-(\d\d)T(\d\d)-(\d\d)-(\d\d)', s, re.A)
    if not m: return None
    try:
        return datetime.datetime(*map(int, m.groups()), tzinfo=UTC)
    except ValueError:
        return None
def parse_file(f):
    """return (kind, time in ms) or None"""
    if f.startswith('tmp.'): return None
    if '\n' in f: return None
    m = re.fullmatch(r'(.+)@([0-9]+)\.([0-9]{3})\.h5', f, re.A|re.S)
    if m: return ('drf', int(m.group(2))*1000+int(m.group(3)))
    m = re.fullmatch(r'(.+)@([0-9]+)\.h5', f, re.A|re.S)
    if m: return ('dmd', int(m.group(2))*1000)
    return None
MAXMS = 86400*10**9*1000
def oracle(rel, flags, win, isdir=False):
    """Would a listing with these kinds / window list a finalized file at rel (under some channel kind)?"""
    inc_drf, inc_dmd, p_drf, p_dmd = flags
    if p_drf is None: p_drf = inc_drf
    if p_dmd is None: p_dmd = inc_dmd
    if isdir: return False
    comps = rel.split('/')
    f = comps[-1]
    # properties file: in the channel directory
    if len(comps) >= 2:
        if f in ('drf_properties.h5','metadata.h5') and p_drf and subdir_ok(comps[-2]) is None: return True
        if f in ('dmd_properties.h5','metadata.h5') and p_dmd and subdir_ok(comps[-2]) is None: return True
    if len(comps) < 3: return False
    if subdir_ok(comps[-2]) is None: return False
    pf = parse_file(f)
    if pf is None: return False
    kind, ms = pf
    if ms >= MAXMS: return False   # not a time
    if kind == 'drf' and not inc_drf: return False
    if kind == 'dmd' and not inc_dmd: return False
    st, et = win
    if st is not None and ms*1000 < st: return False
    if et is not None and ms*1000 > et: return False
    return True

def us(dt):
    if dt is None: return None
    if dt.tzinfo is None: dt = dt.replace(tzinfo=UTC)
    td = dt - EPOCH
    return (td.days*86400 + td.seconds)*10**6 + td.microseconds

# ---------- grammar -------------
SUBDIRS = ['2016-01-01T00-00-00', None, '2016-13-01T00-00-00', '2016-02-30T00-00-00', '2016-01-01T24-00-00',
           '0000-01-01T00-00-00', '1969-12-31T23-00-00', '9999-12-31T23-59-59', '2016-01-01T00-00-0', 'x2016-01-01T00-00-00',
           '2016-01-01T00-00-00x', '2016-01-01 00-00-00', '2016-01-01T00:00:00', '2015-12-31T23-00-00', 'tmp.2016-01-01T00-00-00']
def files(T):
    return ['rf@%d.000.h5'%T, 'rf@%d.001.h5'%T, 'rf@%d.999.h5'%(T-1), 'md@%d.h5'%T, 'md@%d.h5'%(T-1), 'md@%d.h5'%(T+1),
            'tmp.rf@%d.000.h5'%T, 'tmp.md@%d.h5'%T, 'tmp.@%d.h5'%T, 'tmp@%d.h5'%T, 'tmpx.rf@%d.000.h5'%T, 'a.tmp.rf@%d.000.h5'%T,
            '@%d.000.h5'%T, 'rf@.000.h5', 'rf@%d.00.h5'%T, 'rf@%d.0000.h5'%T, 'rf@%d.000.h5x'%T, 'rf@%d.000.hdf5'%T, 'rf@%d.000'%T,
            'rf@%d.h5'%T, 'rf%d.000.h5'%T, 'rf@a@%d.000.h5'%T, 'rf@1.000.h5@%d.000.h5'%T, 'rf@%d.000.h5@1'%T,
            'rf@0%d.000.h5'%T, 'rf@0.000.h5', 'md@0.h5', 'rf@86399999999999.999.h5', 'rf@86400000000000.000.h5', 'md@86400000000000.h5',
            'rf@100000000000000000000.000.h5', 'rf@-1.000.h5', 'rf@+%d.000.h5'%T, 'rf@%d.000.h5 '%T, ' rf@%d.000.h5'%T,
            'rf@ %d.000.h5'%T, 'rf@%de0.000.h5'%T, 'rf@%d_000.h5'%T, 'rf@١.000.h5', 'ré@%d.000.h5'%T,
            'drf_properties.h5', 'dmd_properties.h5', 'metadata.h5', 'tmp.drf_properties.h5', 'drf_properties.h5.tmp', 'xdrf_properties.h5',
            'properties.h5', 'drf_properties.hdf5', 'metadata@.h5', 'drf_properties@%d.h5'%T, 'metadata@%d.000.h5'%T]
FLAGS = list(itertools.product([True,False],[True,False],[None,True,False],[None,True,False]))
def windows(T):
    dt = lambda s, usec=0: EPOCH + datetime.timedelta(seconds=s, microseconds=usec)
    pts = [None, dt(T), dt(T,1000), dt(T,-1), dt(T,1).replace(tzinfo=None),
           dt(T).astimezone(datetime.timezone(datetime.timedelta(hours=5,minutes=30))), dt(0), dt(T-1),
           datetime.datetime(9999,12,31,23,59,59,tzinfo=UTC)]
    return list(itertools.product(pts, pts))
PROPSETS = [('drf_properties.h5',), ('dmd_properties.h5',), ('metadata.h5',), ('drf_properties.h5','dmd_properties.h5')]

def main():
    global SUBDIRS
    if len(sys.argv)>1: SUBDIRS=[SUBDIRS[int(sys.argv[1])]]
    base = tempfile.mkdtemp(dir='/dev/shm' if os.path.isdir('/dev/shm') else None)
    stats = collections.Counter(); diffs = collections.Counter(); examples = {}
    wins = windows(T0)
    try:
        for sd in SUBDIRS:
            for f in files(T0):
                for isdir in (False, True):
                    rel = 'top/ch/' + (sd + '/' if sd else '') + f
                    # listing per propset
                    listed = collections.defaultdict(bool)  # (flags, winidx) -> bool
                    lexc = {}
                    for ps in PROPSETS:
                        if f in ('drf_properties.h5','dmd_properties.h5','metadata.h5') and not sd:
                            # the path is itself a properties file in channel dir
                            if ps != PROPSETS[0]: continue
                            extra = ()
                        else:
                            extra = ps
                        root = os.path.join(base, 'r'); shutil.rmtree(root, ignore_errors=True)
                        p = os.path.join(root, rel)
                        os.makedirs(os.path.dirname(p))
                        if isdir: os.mkdir(p)
                        else: open(p,'w').close()
                        for e in extra: open(os.path.join(root,'top/ch',e),'w').close()
                        for fl in FLAGS:
                            for wi, (st,et) in enumerate(wins):
                                if not (fl[0] or fl[1]) and wi>0: 
                                    # props only, window irrelevant for listing; still run one
                                    pass
                                try:
                                    got = list_drf.lsdrf(root, starttime=st, endtime=et, include_drf=fl[0], include_dmd=fl[1],
                                                         include_drf_properties=fl[2], include_dmd_properties=fl[3])
                                except Exception as ex:
                                    lexc[(fl,wi)] = repr(ex); got=[]
                                stats['listings']+=1
                                if p in got: listed[(fl,wi)] = True
                    absp = os.path.join(base,'r',rel)
                    for fl in FLAGS:
                        eff = (fl[0], fl[1], fl[0] if fl[2] is None else fl[2], fl[1] if fl[3] is None else fl[3])
                        for wi,(st,et) in enumerate(wins):
                            exp = oracle(rel, fl, (us(st),us(et)), isdir)
                            if not any(eff):
                                fres = 'noinit'
                            else:
                                h = H(starttime=st, endtime=et, include_drf=fl[0], include_dmd=fl[1], include_drf_properties=fl[2], include_dmd_properties=fl[3])
                                res = []
                                for ev in ([DirCreatedEvent(absp), DirModifiedEvent(absp), DirDeletedEvent(absp)] if isdir else
                                           [FileCreatedEvent(absp), FileModifiedEvent(absp), FileDeletedEvent(absp)]):
                                    h.log=[]
                                    try:
                                        h.dispatch(ev)
                                        res.append(bool(h.log) and h.log==[(ev.event_type, absp)])
                                        if h.log and h.log!=[(ev.event_type, absp)]: res[-1]='odd'
                                    except Exception as ex:
                                        res.append('EXC:'+type(ex).__name__)
                                    stats['filter']+=1
                                fres = res[0] if len(set(res))==1 else tuple(res)
                            lres = listed[(fl,wi)]
                            if (fl,wi) in lexc: lres = 'EXC'
                            if fres == 'noinit': fres = False
                            if fres != exp or lres != exp:
                                key = ('filter=%s list=%s oracle=%s'%(fres,lres,exp), sd, f if len(f)<40 else f[:40], isdir)
                                diffs[key]+=1
                                examples.setdefault(key, (fl, wi))
    finally:
        shutil.rmtree(base, ignore_errors=True)
    print(stats)
    agg = collections.defaultdict(list)
    for k,v in sorted(diffs.items(), key=lambda kv: str(kv[0])):
        agg[(k[0], k[3])].append((k[1],k[2],v))
    for k, lst in agg.items():
        print('==', k, len(lst), 'path classes,', sum(x[2] for x in lst), 'cases')
        for x in lst[:60]: print('    ', x)
main()
