#!/bin/bash
# demo2: a data file name whose number is too large to be a time (rf@100000000000000.000.h5):
# the listing skips it, the event filter raises OverflowError out of dispatch() (which kills
# the observer thread) - also for the rename of a listed file to that name, where a deletion is due.
# usage: REPO=<checkout> bash run.sh
set -u
REPO=${REPO:?set REPO to a checkout}
HERE=$(cd "$(dirname "$0")" && pwd)
W=$(mktemp -d)
trap 'rm -rf "$W"' EXIT
mkdir -p "$W/pkg"
cp -r "$REPO/python/digital_rf" "$W/pkg/digital_rf"
cp /venv/lib/python3.12/site-packages/digital_rf/_py_rf_write_hdf5*.so "$W/pkg/digital_rf/" 2>/dev/null
printf "__version__ = version = '0'\n__version_tuple__ = version_tuple = (0,)\n" > "$W/pkg/digital_rf/_version.py"
PYTHONPATH="$W/pkg" /venv/bin/python "$HERE/demo.py" "$W/tree"
