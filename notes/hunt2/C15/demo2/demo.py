import os, sys, time, io, contextlib
from digital_rf import list_drf, watchdog_drf
from watchdog.events import FileCreatedEvent, FileMovedEvent

root = sys.argv[1]
ch = os.path.join(root, "ch")
sd = os.path.join(ch, "2016-01-01T00-00-00")
good = os.path.join(sd, "rf@1451606400.000.h5")
big = os.path.join(sd, "rf@100000000000000.000.h5")
for p in (os.path.join(ch, "drf_properties.h5"), good, big):
    os.makedirs(os.path.dirname(p), exist_ok=True)
    open(p, "w").close()


class Rec(watchdog_drf.DigitalRFEventHandler):
    def __init__(self, **kw):
        super().__init__(**kw)
        self.log = []

    def on_created(self, e):
        self.log.append(("created", e.src_path))

    def on_deleted(self, e):
        self.log.append(("deleted", e.src_path))

    def on_modified(self, e):
        self.log.append(("modified", e.src_path))

    def on_moved(self, e):
        self.log.append(("moved", e.src_path, e.dest_path))


listed = list_drf.lsdrf(root)  # must not raise, must not list `big`
problems = []
h = Rec()
for what, ev, exp in (
    ("created event for rf@100000000000000.000.h5", FileCreatedEvent(big), [] if big not in listed else ["created"]),
    ("rename rf@1451606400.000.h5 -> rf@100000000000000.000.h5", FileMovedEvent(good, big),
     ["deleted"] if big not in listed else ["moved"]),
):
    h.log = []
    try:
        h.dispatch(ev)
        got = [x[0] for x in h.log]
    except Exception as ex:  # noqa
        got = "raised %s" % type(ex).__name__
    if got != exp:
        problems.append("%s: filter %s, expected %s (lsdrf %s the name)" % (
            what, got, exp, "lists" if big in listed else "does not list"))

# the same through a real observer: the exception ends the observer thread
os.remove(big)
h2 = Rec()
w = watchdog_drf.DirWatcher(root)
w.schedule(h2, root, recursive=True)
err = io.StringIO()
with contextlib.redirect_stdout(io.StringIO()):
    w.start()
time.sleep(0.5)
open(big, "w").close()
time.sleep(1.5)
alive = w.all_alive()
w.stop()
if not alive:
    problems.append("observer thread died after `touch rf@100000000000000.000.h5`")
if problems:
    print("VIOLATION: " + "; ".join(problems))
    sys.exit(1)
print("ok: filter and listing agree on the not-a-time file name")
