import os, shutil, tempfile
from digital_rf import ringbuffer as rb
top = tempfile.mkdtemp(dir="/tmp/hw-C16-work")
ch = os.path.join(top, "ch0")
def mk(sub, name, size):
    p = os.path.join(ch, sub, name); os.makedirs(os.path.dirname(p), exist_ok=True)
    open(p, "wb").write(b"x"*size); return p
h = rb.DigitalRFRingbufferHandler(size=100)
X = mk("2014-03-09T12-30-00", "rf@1394368200.000.h5", 10)
Y = mk("2014-03-09T12-30-10", "rf@1394368200.000.h5", 40)   # same key, other sub-directory
Z = mk("2014-03-09T12-30-10", "rf@1394368211.000.h5", 40)
h.add_files([X]); h.add_files([Y]); h.add_files([Z])
print(list(h.queues.values()), h.active_size)
open(X, "wb").write(b"x"*30)    # X grows: 30+40+40 = 110 > 100
h.modify_files([X, Y], sort=True)
print("records:", {os.path.relpath(p, top): r.size for p, r in h.records.items()}, "active", h.active_size)
print("on disk:", [os.path.relpath(os.path.join(r, f), top) for r, d, fs in os.walk(top) for f in fs])
shutil.rmtree(top)
