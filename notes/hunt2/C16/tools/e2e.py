"""End-to-end: real DigitalRFRingbuffer (inotify, threads) + the real writers (prebuilt ext only generates files)."""
import os, sys, time, shutil, tempfile, threading, datetime, io, contextlib
import numpy as np
import digital_rf as drf
from digital_rf import ringbuffer as rb

def run(cfg, seed):
    top = tempfile.mkdtemp(dir="/tmp/hw-C16-work", prefix="e2e")
    tree = os.path.join(top, "data"); os.makedirs(tree)
    sr = 1000
    t0 = 1394368200
    start_idx = t0 * sr
    writers = []
    for ch in ("chA", "chB"):
        d = os.path.join(tree, ch); os.makedirs(d)
        w = drf.DigitalRFWriter(d, np.int16, 2, 200, start_idx, sr, 1, "uuid", 0, False, 1, True, False)
        md = os.path.join(d, "metadata"); os.makedirs(md)
        m = drf.DigitalMetadataWriter(md, 10, 5, sr, 1, "metadata")
        writers.append((w, m))
    kw = {}
    if cfg.get("start") is not None:
        kw["starttime"] = datetime.datetime.fromtimestamp(t0 + cfg["start"], tz=datetime.timezone.utc)
    ring = rb.DigitalRFRingbuffer(tree, size=cfg.get("size"), count=cfg.get("count"), duration=cfg.get("duration"),
                                  status_interval=None, **kw)
    pre = cfg.get("pre", 0)
    data = np.arange(100, dtype=np.int16)
    pos = 0
    def write_block(n):
        nonlocal pos
        for _ in range(n):
            for w, m in writers:
                w.rf_write(data)
                m.write(start_idx + pos, {"a": pos, "b": "x" * 50})
            pos += 100
    write_block(pre)
    ring.start()
    for i in range(cfg.get("n", 120)):
        write_block(1)
        time.sleep(0.005)
    for w, m in writers: w.close()
    time.sleep(1.0)
    for t in ring._task_threads: t.join()
    h = ring.event_handler
    with h._record_lock:
        recs = dict(h.records)
        asz = getattr(h, "active_size", None)
    ring.stop(); ring.observer.join()
    ondisk = {}
    for root, dirs, files in os.walk(tree):
        for f in files:
            if "@" in f and not f.startswith("tmp."):
                ondisk[os.path.join(root, f)] = os.stat(os.path.join(root, f)).st_size
    probs = []
    startkey = None if cfg.get("start") is None else (t0 + cfg["start"]) * 1000
    def key(p):
        b = os.path.basename(p).split("@")[1][:-3]
        parts = b.split(".")
        return int(parts[0]) * 1000 + (int(parts[1]) if len(parts) > 1 and parts[1] else 0)
    exp = {p: s for p, s in ondisk.items() if startkey is None or key(p) >= startkey}
    if set(recs) != set(exp):
        probs.append(("tracked!=disk", sorted(os.path.relpath(p, tree) for p in set(recs) ^ set(exp))[:6]))
    if asz is not None:
        tot = sum(exp[p] for p in recs if p in exp)
        if asz != tot:
            probs.append(("active_size", asz, tot))
        if tot > cfg["size"]:
            probs.append(("size limit exceeded", tot))
    groups = {}
    for p in exp:
        groups.setdefault(os.path.dirname(os.path.dirname(p)), []).append(key(p))
    for g, ks in groups.items():
        if cfg.get("count") is not None and len(ks) > cfg["count"]:
            probs.append(("count exceeded", g, len(ks)))
        if cfg.get("duration") is not None and max(ks) - min(ks) > cfg["duration"]:
            probs.append(("duration exceeded", g, max(ks) - min(ks)))
    for ch in ("chA", "chB"):
        for p in (os.path.join(tree, ch, "drf_properties.h5"), os.path.join(tree, ch, "metadata", "dmd_properties.h5")):
            if not os.path.exists(p): probs.append(("properties gone", p))
    shutil.rmtree(top)
    return probs, len(ondisk), len(recs)

if __name__ == "__main__":
    cfgs = [dict(size=60000), dict(count=3), dict(duration=2000), dict(size=80000, count=4, duration=3000),
            dict(size=60000, pre=40), dict(count=2, pre=40), dict(size=60000, pre=40, start=3), dict(count=3, pre=40, start=2),
            dict(duration=1000, pre=30, start=1)]
    for i, c in enumerate(cfgs):
        buf = io.StringIO()
        with contextlib.redirect_stdout(buf):
            r = run(c, i)
        print(c, r)
