"""Round-2 random driver for C16 (ringbuffer).  Oracle written from the property text.

New dimensions vs round 1: time windows (starttime/endtime) through dispatch(), include_drf/include_dmd,
count 0/1, re-scans through the real DigitalRFRingbuffer methods (_add_existing_files /
_verify_ringbuffer_files, run synchronously), equal time keys in two sub-directories, metadata files
named well before the RF files, shrink, dryrun off.
"""
import datetime
import os
import random
import shutil
import sys
import tempfile
import re

from watchdog.events import (
    FileCreatedEvent,
    FileDeletedEvent,
    FileModifiedEvent,
    FileMovedEvent,
    DirCreatedEvent,
    DirDeletedEvent,
)

import digital_rf
from digital_rf import ringbuffer as rb

assert "/hw-C16-work/" in digital_rf.__file__, digital_rf.__file__

BASE = 1394368200  # 2014-03-09T12:30:00Z
EPOCH = datetime.datetime(1970, 1, 1, tzinfo=datetime.timezone.utc)


def subdir_for(secs, cadence=10):
    t = (secs // cadence) * cadence
    return (EPOCH + datetime.timedelta(seconds=t)).strftime("%Y-%m-%dT%H-%M-%S")


PAT_RF = re.compile(r"^(?!tmp\.)[^/]+@([0-9]+)\.([0-9]{3})\.h5$")
PAT_MD = re.compile(r"^(?!tmp\.)[^/]+@([0-9]+)\.h5$")
PAT_SUB = re.compile(r"^\d{4}-\d\d-\d\dT\d\d-\d\d-\d\d$")


def classify(path, top):
    """From the TEXT: tracked data or metadata file inside the tree -> (group, key, kind) else None."""
    if not path.startswith(top + os.sep):
        return None
    parts = path.split(os.sep)
    fn, sub, ch = parts[-1], parts[-2], os.sep.join(parts[:-2])
    if not PAT_SUB.match(sub):
        return None
    m = PAT_RF.match(fn)
    if m:
        return ((ch, fn.split("@")[0]), int(m.group(1)) * 1000 + int(m.group(2)), "drf")
    m = PAT_MD.match(fn)
    if m:
        return ((ch, fn.split("@")[0]), int(m.group(1)) * 1000, "dmd")
    return None


class Violation(Exception):
    pass


class Harness:
    def __init__(self, seed, cfg, nsteps, verbose=False):
        self.rng = random.Random(seed)
        self.seed = seed
        self.cfg = cfg
        self.nsteps = nsteps
        self.verbose = verbose
        self.top = tempfile.mkdtemp(prefix="rbf", dir=os.environ.get("WORK", "/tmp/hw-C16-work"))
        self.tree = os.path.join(self.top, "data")
        os.makedirs(self.tree)
        self.outside = os.path.join(self.top, "outside")
        os.makedirs(self.outside)
        self.log = []
        self.model = {}  # path -> dict(group,key,size)
        self.deletions = 0
        self.problems = []

        self.start = cfg.get("start")
        self.end = cfg.get("end")
        kw = {}
        if self.start is not None:
            kw["starttime"] = EPOCH + datetime.timedelta(milliseconds=self.start)
        if self.end is not None:
            kw["endtime"] = EPOCH + datetime.timedelta(milliseconds=self.end)
        self.inc_drf = cfg.get("include_drf", True)
        self.inc_dmd = cfg.get("include_dmd", True)
        self.ring = rb.DigitalRFRingbuffer(
            self.tree,
            size=cfg.get("size"),
            count=cfg.get("count"),
            duration=cfg.get("duration"),
            include_drf=self.inc_drf,
            include_dmd=self.inc_dmd,
            status_interval=None,
            **kw,
        )
        self.h = self.ring.event_handler
        # channels
        self.rfch = [os.path.join(self.tree, c) for c in ("chA", "chB")][: cfg.get("nrf", 2)]
        self.mdch = [os.path.join(self.tree, "chA", "metadata"), os.path.join(self.tree, "meta2")][
            : cfg.get("nmd", 1)
        ]
        self.protected = []
        for c in self.rfch:
            os.makedirs(c, exist_ok=True)
            p = os.path.join(c, "drf_properties.h5")
            open(p, "wb").write(b"p" * 7)
            self.protected.append(p)
        for c in self.mdch:
            os.makedirs(c, exist_ok=True)
            p = os.path.join(c, "dmd_properties.h5")
            open(p, "wb").write(b"p" * 7)
            self.protected.append(p)
        p = os.path.join(self.outside, "chA", subdir_for(BASE))
        os.makedirs(p)
        p = os.path.join(p, "rf@%d.000.h5" % BASE)
        open(p, "wb").write(b"o" * 9)
        self.protected.append(p)
        self.outside_file = p
        self.current_op = None
        self.handling_add = False

    def hook_handler(self):
        h = self.h
        self.notify = None  # None: off, else dict(windowed=bool)
        self.depth = 0
        orig_add, orig_mod = h._add_record, h._modify_record

        def wrap(orig):
            def f(rec):
                if self.notify is not None and self.depth == 0:
                    if not os.path.exists(rec.path):
                        self.problem("record handled for a file that does not exist: %s" % rec.path)
                    c = self.eligible(rec.path)
                    if (c is not None and self.notify["windowed"] and not self.in_window(c[1]) and c[2] == "dmd"
                            and self.start is not None and c[1] < self.start and os.environ.get("TOL_FFILL")):
                        self.ffill_seen = True
                        self.model[rec.path] = dict(group=c[0], key=c[1], size=rec.size)
                    elif c is None or (self.notify["windowed"] and not self.in_window(c[1])):
                        self.problem("ineligible path handled in scan/batch: %s" % rec.path)
                    else:
                        self.model[rec.path] = dict(group=c[0], key=c[1], size=rec.size)
                self.depth += 1
                try:
                    return orig(rec)
                finally:
                    self.depth -= 1
                    if self.notify is not None and self.depth == 0:
                        self.check_state(False)
            return f

        h._add_record = wrap(orig_add)
        h._modify_record = wrap(orig_mod)

    # ----- intercept
    def install(self):
        self.hook_handler()
        self._remove = os.remove
        self._rmdir = os.rmdir
        os.remove = self.hook_remove
        os.rmdir = self.hook_rmdir

    def uninstall(self):
        os.remove = self._remove
        os.rmdir = self._rmdir

    def hook_rmdir(self, path):
        # only directories inside the tree, only empty ones (os does that) and never the tree itself
        if not (path.startswith(self.tree + os.sep)):
            self.problem("rmdir outside tree: %s" % path)
        return self._rmdir(path)

    def limits_exceeded(self, group):
        """Is any configured limit exceeded in the model such that a deletion in `group` is warranted?"""
        cfg = self.cfg
        members = [v for v in self.model.values() if v["group"] == group]
        if cfg.get("count") is not None and len(members) > cfg["count"]:
            return True
        if cfg.get("duration") is not None and members:
            keys = [v["key"] for v in members]
            if max(keys) - min(keys) > cfg["duration"]:
                return True
        if cfg.get("size") is not None:
            if sum(v["size"] for v in self.model.values()) > cfg["size"]:
                return True
        return False

    def hook_remove(self, path):
        self.deletions += 1
        base = os.path.basename(path)
        if base.startswith("tmp.") or base.endswith("_properties.h5") or not path.startswith(self.tree + os.sep):
            self.problem("deleted protected file %s" % path)
        ent = self.model.get(path)
        if ent is None:
            self.problem("deleted untracked (per model) file %s" % path)
        else:
            grp = ent["group"]
            older = [p for p, v in self.model.items() if v["group"] == grp and v["key"] < ent["key"]]
            if older:
                self.problem("deleted %s although older %s kept" % (path, older))
            if not self.limits_exceeded(grp):
                self.problem("deleted %s although no limit exceeded (model)" % path)
            del self.model[path]
        return self._remove(path)

    def problem(self, msg):
        self.problems.append((len(self.log), self.current_op, msg))
        if self.verbose:
            print("PROBLEM", len(self.log), self.current_op, msg)

    # ----- universe
    def rand_path(self):
        rng = self.rng
        kind = rng.random()
        secs = BASE + rng.randrange(0, 24)
        if kind < 0.6 and self.rfch:
            ch = rng.choice(self.rfch)
            frac = rng.choice(["000", "000", "500"])
            sub = subdir_for(secs)
            if rng.random() < 0.05 and self.start is None and self.end is None:
                sub = subdir_for(secs + 10)  # same key can live in two sub-directories
            return os.path.join(ch, sub, "rf@%d.%s.h5" % (secs, frac))
        elif self.mdch:
            ch = rng.choice(self.mdch)
            secs = BASE - 20 + 4 * rng.randrange(0, 11)  # metadata files named earlier / coarser
            return os.path.join(ch, subdir_for(secs, 20), "metadata@%d.h5" % secs)
        else:
            ch = rng.choice(self.rfch)
            return os.path.join(ch, subdir_for(secs), "rf@%d.000.h5" % secs)

    def noise_path(self):
        rng = self.rng
        c = rng.randrange(5)
        if c == 0:
            return rng.choice([p for p in self.protected if p.startswith(self.tree)])
        ch = rng.choice(self.rfch or self.mdch)
        secs = BASE + rng.randrange(0, 24)
        if c == 1:
            return os.path.join(ch, subdir_for(secs), "tmp.rf@%d.000.h5" % secs)
        if c == 2:
            return os.path.join(ch, "rf@%d.000.h5" % secs)  # not in a sub-directory
        if c == 3:
            return os.path.join(ch, subdir_for(secs), "rf@%d.000.h5.bak" % secs)
        return os.path.join(ch, subdir_for(secs), "notes.txt")

    def in_window(self, key):
        if self.start is not None and key < self.start:
            return False
        if self.end is not None and key > self.end:
            return False
        return True

    def eligible(self, path):
        c = classify(path, self.tree)
        if c is None:
            return None
        grp, key, kind = c
        if kind == "drf" and not self.inc_drf:
            return None
        if kind == "dmd" and not self.inc_dmd:
            return None
        return c

    # ----- file helpers (use os.unlink so our own deletions are not hooked)
    def write(self, path, size):
        os.makedirs(os.path.dirname(path), exist_ok=True)
        with open(path, "wb") as f:
            f.write(b"x" * size)
        if os.path.basename(path).startswith("tmp."):
            if path not in self.protected:
                self.protected.append(path)

    def rand_size(self):
        return self.rng.choice([5, 10, 12, 20, 30, 40])

    # ----- model transitions (what the TEXT says a report means)
    def m_report(self, path, windowed):
        """created/modified report of path (after dispatch filter if windowed)."""
        c = self.eligible(path)
        if c is None:
            return False
        grp, key, kind = c
        if windowed and not self.in_window(key):
            return False
        try:
            size = os.stat(path).st_size
        except OSError:
            return False
        self.model[path] = dict(group=grp, key=key, size=size)
        return True

    def m_forget(self, path, windowed):
        c = self.eligible(path)
        if c is None:
            return
        if windowed and not self.in_window(c[1]):
            return
        self.model.pop(path, None)

    def listed(self):
        r = self.ring
        return set(digital_rf.list_drf.ilsdrf(r.path, starttime=r.starttime, endtime=r.endtime, include_drf=r.include_drf,
                   include_dmd=r.include_dmd, include_drf_properties=False, include_dmd_properties=False))

    # ----- checks
    def check_state(self, after_add):
        h = self.h
        recs = h.records
        if set(recs) != set(self.model):
            self.problem(
                "tracked set differs: handler-only %s model-only %s"
                % (sorted(set(recs) - set(self.model)), sorted(set(self.model) - set(recs)))
            )
        # queues
        inq = {}
        for grp, q in h.queues.items():
            lq = list(q)
            if lq != sorted(lq, key=lambda kp: kp[0]):
                self.problem("queue %s not sorted %s" % (grp, lq))
            for k, p in lq:
                if p in inq:
                    self.problem("path twice in queues %s" % p)
                inq[p] = (grp, k)
        if set(inq) != set(recs):
            self.problem("queues and records differ")
        for p, (grp, k) in inq.items():
            m = self.model.get(p)
            if m and (m["group"] != grp or m["key"] != k):
                self.problem("group/key differs for %s: %s vs %s" % (p, (grp, k), m))
        if self.cfg.get("size") is not None:
            tot = sum(v["size"] for v in self.model.values())
            if h.active_size != tot:
                self.problem("active_size %s != model total %s" % (h.active_size, tot))
            for p, r in recs.items():
                if p in self.model and r.size != self.model[p]["size"]:
                    self.problem("record size differs %s %s %s" % (p, r.size, self.model[p]["size"]))
            if h.active_size != sum(r.size for r in recs.values()):
                self.problem("active_size != sum of record sizes")
        if after_add:
            groups = set(v["group"] for v in self.model.values())
            for g in groups:
                if self.limits_exceeded(g):
                    self.problem("limit exceeded after handled add (group %s)" % (g,))
        for p in self.protected:
            if not os.path.exists(p):
                self.problem("protected file vanished %s" % p)
                self.protected.remove(p)

    # ----- operations
    def send(self, ev):
        if self.rng.random() < 0.85:
            self.h.dispatch(ev)
            return True
        # direct on_* call only makes sense for paths that match (dispatch filters otherwise)
        return None

    def step(self):
        rng = self.rng
        r = rng.random()
        windowed = True
        if r < 0.30:
            p = self.rand_path()
            sz = self.rand_size()
            self.write(p, sz)
            self.current_op = ("create+event", p, sz)
            self.log.append(self.current_op)
            self.m_report(p, True)
            self.h.dispatch(FileCreatedEvent(p))
            return True
        if r < 0.36:
            p = self.rand_path()
            sz = self.rand_size()
            if os.path.exists(p):
                sz = max(sz, os.stat(p).st_size)
            self.write(p, sz)
            self.current_op = ("create-silent", p, sz)
            self.log.append(self.current_op)
            # truth about tracked files: if tracked its size is as last reported; nothing to do
            return False
        if r < 0.46:
            # grow / shrink + modified
            cands = [p for p in self.model if os.path.exists(p)] or [self.rand_path()]
            p = rng.choice(sorted(cands))
            if os.path.exists(p):
                sz = self.rand_size()
                self.write(p, sz)
            self.current_op = ("modify+event", p)
            self.log.append(self.current_op)
            added = self.m_report(p, True)
            self.h.dispatch(FileModifiedEvent(p))
            return added
        if r < 0.50:
            p = self.rand_path()
            self.current_op = ("modified-arbitrary", p)
            self.log.append(self.current_op)
            added = self.m_report(p, True)
            self.h.dispatch(FileModifiedEvent(p))
            return added
        if r < 0.58:
            cands = [p for p in self.model if os.path.exists(p)]
            if not cands:
                return False
            p = rng.choice(sorted(cands))
            os.unlink(p)
            self.current_op = ("delete+event", p)
            self.log.append(self.current_op)
            self.m_forget(p, True)
            self.h.dispatch(FileDeletedEvent(p))
            return False
        if r < 0.61:
            cands = [p for p in self.model if os.path.exists(p)]
            if not cands:
                return False
            p = rng.choice(sorted(cands))
            os.unlink(p)
            self.current_op = ("delete-silent", p)
            self.log.append(self.current_op)
            # the handler cannot know; the truth is the file is gone.  The model keeps it as
            # "tracked" (the text: bookkeeping about the files it tracks) until a report/rescan.
            return False
        if r < 0.64:
            p = self.rand_path()
            self.current_op = ("deleted-spurious", p)
            self.log.append(self.current_op)
            self.m_forget(p, True)
            self.h.dispatch(FileDeletedEvent(p))
            return False
        if r < 0.72:
            # move
            src_c = [p for p in self.model if os.path.exists(p)]
            which = rng.random()
            if which < 0.3:
                src = self.rand_path().replace("rf@", "tmp.rf@").replace("metadata@", "tmp.metadata@")
                self.write(src, self.rand_size())
                if src in self.protected:
                    self.protected.remove(src)
            elif src_c:
                src = rng.choice(sorted(src_c))
            else:
                return False
            dst = self.rand_path() if rng.random() < 0.85 else self.noise_path()
            if dst in self.protected or dst == src:
                return False
            os.makedirs(os.path.dirname(dst), exist_ok=True)
            os.rename(src, dst)
            self.current_op = ("move", src, dst)
            self.log.append(self.current_op)
            self.m_forget(src, True)
            added = self.m_report(dst, True)
            self.h.dispatch(FileMovedEvent(src, dst))
            return added
        if r < 0.78:
            p = self.noise_path()
            kind = rng.randrange(3)
            self.current_op = ("noise", kind, p)
            self.log.append(self.current_op)
            if kind == 0:
                if not os.path.exists(p):
                    self.write(p, 5)
                    if p not in self.protected:
                        self.protected.append(p)
                self.h.dispatch(FileCreatedEvent(p))
            elif kind == 1:
                self.h.dispatch(FileModifiedEvent(p))
            else:
                self.h.dispatch(DirCreatedEvent(os.path.dirname(p)))
            return False
        if r < 0.84:
            # batch call (not windowed: direct API)
            n = rng.randrange(1, 5)
            paths = [self.rand_path() for _ in range(n)]
            for p in paths:
                if rng.random() < 0.6:
                    self.write(p, self.rand_size())
            paths = list(dict.fromkeys(paths))  # duplicates inside a batch: known transient, round 1
            which = rng.choice(["add", "modify", "remove"])
            sort = rng.random() < 0.5
            self.current_op = ("batch", which, sort, tuple(paths))
            self.log.append(self.current_op)
            if which == "remove":
                for p in paths:
                    self.m_forget(p, False)
                self.h.remove_files(paths)
                return False
            # model: each path handled in the order the handler is told to use.  The oracle cannot
            # know the order for sort=True except "oldest to newest by key": emulate sorted by key.
            order = paths
            if sort:
                def sk(p):
                    c = classify(p, self.tree)
                    try:
                        s = os.stat(p).st_size
                    except OSError:
                        s = -1
                    return (c[1] if c else -1, s, p)
                order = sorted(paths, key=sk)
            # interleave: report one, let handler handle one
            for p in order:
                self.m_report(p, False)
                if which == "add":
                    self.h.add_files([p], sort=sort)
                else:
                    self.h.modify_files([p], sort=sort)
                self.check_state(False)
            return True
        if r < 0.88:
            # same but really as one batch (stale stat hazard)
            n = rng.randrange(2, 6)
            paths = [self.rand_path() for _ in range(n)]
            if self.model and rng.random() < 0.7:
                paths += rng.sample(sorted(self.model), min(len(self.model), rng.randrange(1, 4)))
            for p in paths:
                if rng.random() < 0.5:
                    self.write(p, self.rand_size())
            paths = list(dict.fromkeys(paths))
            which = rng.choice(["add", "modify"])
            self.current_op = ("realbatch", which, tuple(paths))
            self.log.append(self.current_op)
            # model: deletions are validated as they happen; reports are applied up-front only for the
            # tracked-set; sizes are those at batch start (files do not change during the batch)
            snapshot = {}
            for p in paths:
                try:
                    snapshot[p] = os.stat(p).st_size
                except OSError:
                    pass
            self.batch_pending = snapshot
            # apply all reports to the model first, then validate deletions: a deletion of a pending
            # file must remove it from the model (hook does) - and it must then stay removed.
            self.notify = dict(windowed=False)
            try:
                if which == "add":
                    self.h.add_files(paths, sort=True)
                else:
                    self.h.modify_files(paths, sort=True)
            finally:
                self.notify = None
            return True
        if r < 0.94:
            # re-scan as after an observer restart
            self.current_op = ("verify",)
            self.log.append(self.current_op)
            inbuffer = set(self.h.records.keys())
            # model: after the scan the tracked set is: what is on disk, in window, eligible
            newmodel = {}
            for root, dirs, files in os.walk(self.tree):
                for f in files:
                    p = os.path.join(root, f)
                    c = self.eligible(p)
                    if c and self.in_window(c[1]):
                        newmodel[p] = dict(group=c[0], key=c[1], size=os.stat(p).st_size)
            for p in list(self.model):
                if p not in newmodel:
                    if os.environ.get("TOL_FFILL") and os.path.exists(p) and "metadata@" in p and p in self.listed():
                        continue
                    del self.model[p]
            self.notify = dict(windowed=True)
            try:
                self.ring._verify_ringbuffer_files(inbuffer)
            finally:
                self.notify = None
            for p in getattr(self, "ffill_maybe", set()):
                if p in self.model and p not in self.h.records:
                    del self.model[p]
            self.ffill_maybe = set()
            for p in newmodel:
                if p not in self.model and os.path.exists(p):
                    self.problem("scan did not pick up %s" % p)
            return True
        # initial-scan style
        self.current_op = ("add_existing",)
        self.log.append(self.current_op)
        expect = []
        for root, dirs, files in os.walk(self.tree):
            for f in files:
                p = os.path.join(root, f)
                c = self.eligible(p)
                if c and self.in_window(c[1]):
                    expect.append(p)
        self.notify = dict(windowed=True)
        try:
            self.ring._add_existing_files()
        finally:
            self.notify = None
        for p in expect:
            if p not in self.model and os.path.exists(p):
                self.problem("scan did not pick up %s" % p)
        return True

    def run(self):
        self.install()
        try:
            for i in range(self.nsteps):
                after_add = self.step()
                self.check_state(bool(after_add))
                if self.problems:
                    break
        finally:
            self.uninstall()
            shutil.rmtree(self.top, ignore_errors=True)
        return self.problems


def configs(rng):
    size = rng.choice([None, None, 100, 135, 400])
    count = rng.choice([None, None, 0, 1, 2, 5])
    duration = rng.choice([None, None, 0, 3000, 7500, 12000.5])
    if size is None and count is None and duration is None:
        size = 135
    nrf = rng.choice([1, 2])
    nmd = rng.choice([0, 1, 2])
    # size at least one largest file (40) per group
    if size is not None:
        size = max(size, 40 * (nrf + nmd))
    cfg = dict(size=size, count=count, duration=duration, nrf=nrf, nmd=nmd)
    w = rng.random()
    if w < 0.35:
        cfg["start"] = (BASE + rng.randrange(0, 12)) * 1000 + rng.choice([0, 0, 500])
    if 0.25 < w < 0.5:
        cfg["end"] = (BASE + rng.randrange(10, 24)) * 1000 + rng.choice([0, 0, 500])
    i = rng.random()
    if i < 0.1:
        cfg["include_dmd"] = False
    elif i < 0.2:
        cfg["include_drf"] = False
    return cfg


if __name__ == "__main__":
    s0 = int(sys.argv[1])
    n = int(sys.argv[2])
    steps = int(sys.argv[3])
    tot_del = 0
    seen = {}
    for seed in range(s0, s0 + n):
        rng = random.Random(seed * 7919 + 1)
        cfg = configs(rng)
        h = Harness(seed, cfg, steps)
        import io, contextlib
        buf = io.StringIO()
        with contextlib.redirect_stdout(buf):
            probs = h.run()
        tot_del += h.deletions
        if probs:
            k = probs[0][2].split(":")[0].split(" /")[0][:60]
            seen.setdefault(k, []).append(seed)
            print("seed", seed, "cfg", cfg, "step", probs[0][0], probs[0][1], "\n    ", probs[0][2][:400])
    print("done seeds", s0, s0 + n, "deletions checked", tot_del, "problem classes", {k: len(v) for k, v in seen.items()})
