"""C16 demo 1: with a start time, the initial scan tracks the forward-filled metadata file (named before the
start time) but the event filter drops every event for that file, so the bookkeeping about a TRACKED file goes stale."""
import contextlib
import datetime
import io
import os
import sys

from watchdog.events import FileDeletedEvent, FileModifiedEvent

import digital_rf
from digital_rf import ringbuffer as rb

top = sys.argv[1]
assert digital_rf.__file__.startswith(top), digital_rf.__file__
tree = os.path.join(top, "data")


def mk(rel, size):
    p = os.path.join(tree, rel)
    os.makedirs(os.path.dirname(p), exist_ok=True)
    with open(p, "wb") as f:
        f.write(b"x" * size)
    return p


mk("ch0/drf_properties.h5", 7)
mk("ch0/metadata/dmd_properties.h5", 7)
# the current metadata file, started at 12:00:00, still being appended to (Digital Metadata files grow in place)
md = mk("ch0/metadata/2014-03-09T12-00-00/metadata@1394366400.h5", 40)
mk("ch0/2014-03-09T12-00-00/rf@1394368200.000.h5", 40)  # 12:30:00
mk("ch0/2014-03-09T12-00-00/rf@1394368201.000.h5", 40)

start = datetime.datetime(2014, 3, 9, 12, 30, 0, tzinfo=datetime.timezone.utc)
out = io.StringIO()
with contextlib.redirect_stdout(out):
    ring = rb.DigitalRFRingbuffer(tree, size=150, starttime=start, status_interval=None)
    ring._add_existing_files()  # what start() runs (synchronously here)
    h = ring.event_handler
    tracked0 = sorted(os.path.relpath(p, tree) for p in h.records)
    size0 = h.active_size
    # the metadata writer appends: the file grows in place, watchdog reports "modified"
    with open(md, "ab") as f:
        f.write(b"y" * 60)
    h.dispatch(FileModifiedEvent(md))
    rec_after_grow = h.records[md].size if md in h.records else None
    size1 = h.active_size
    disk1 = sum(os.path.getsize(p) for p in h.records if os.path.exists(p))
    # somebody removes the file, watchdog reports "deleted"
    os.unlink(md)
    h.dispatch(FileDeletedEvent(md))
    ghost = md in h.records
    size2 = h.active_size
    disk2 = sum(os.path.getsize(p) for p in h.records if os.path.exists(p))

bad = []
if md in [os.path.join(tree, t) for t in tracked0]:
    if rec_after_grow != 100 or size1 != disk1 or disk1 > 150:
        bad.append(
            "after 'modified' for the tracked file: record size %s (disk 100), active_size %s, tracked files on disk %s > limit 150, nothing expired"
            % (rec_after_grow, size1, disk1)
        )
    if ghost or size2 != disk2:
        bad.append("after 'deleted' for it: still tracked=%s, active_size %s vs %s on disk" % (ghost, size2, disk2))
if bad:
    print("VIOLATION: tracked after initial scan: %s (active_size %s); " % (tracked0, size0) + "; ".join(bad))
    sys.exit(1)
print("ok: tracked %s; bookkeeping equals the files on disk after every reported event" % (tracked0,))
