#!/bin/bash
# usage: REPO=/path/to/checkout bash run.sh   -> exits non-zero if the violation is observed
set -u
: "${REPO:?set REPO to a checkout of digital_rf}"
HERE="$(cd "$(dirname "$0")" && pwd)"
TMP="$(mktemp -d)"
trap 'rm -rf "$TMP"' EXIT
/tmp/agent-tools/mkscratch.sh "$REPO" "$TMP/pkg" >/dev/null 2>&1 || { echo "could not build scratch package"; exit 2; }
PYTHONPATH="$TMP/pkg" /venv/bin/python "$HERE/demo1.py" "$TMP"
