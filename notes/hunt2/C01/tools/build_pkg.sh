#!/bin/bash
# usage: build_pkg.sh <repo> <dest>  -> dest/digital_rf = repo's python sources + extension compiled from repo's C sources
set -e
REPO=$1; DEST=$2
rm -rf "$DEST"; mkdir -p "$DEST"
cp -r "$REPO/python/digital_rf" "$DEST/digital_rf"
cat > "$DEST/digital_rf/_version.py" <<'EOV'
__version__ = version = '2.6.14'
__version_tuple__ = version_tuple = (2, 6, 14)
__commit_id__ = commit_id = None
EOV
PYINC=$(/venv/bin/python -c "import sysconfig; print(sysconfig.get_paths()['include'])")
NPINC=$(/venv/bin/python -c "import numpy; print(numpy.get_include())")
SUF=$(/venv/bin/python -c "import sysconfig; print(sysconfig.get_config_var('EXT_SUFFIX'))")
gcc -O1 -g -w -shared -fPIC -I"$REPO/c/include" -I/usr/include/hdf5/serial -I"$NPINC" -I"$PYINC" \
  "$REPO/python/lib/py_rf_write_hdf5.c" "$REPO/c/lib/rf_write_hdf5.c" \
  -L/usr/lib/x86_64-linux-gnu/hdf5/serial -lhdf5 -lm -o "$DEST/digital_rf/_py_rf_write_hdf5$SUF"
