import numpy as np, os, shutil
from digital_rf import DigitalRFWriter, DigitalRFReader
base='/tmp/hw-C01-work/t2'
shutil.rmtree(base, ignore_errors=True)
# (a) glob metacharacters in channel / top-level names
for top,ch in [(base+'/a','ch[1]'),(base+'/run[2]','ch')]:
    os.makedirs(os.path.join(top,ch))
    w=DigitalRFWriter(os.path.join(top,ch),'i2',3600,1000,10**10,10,1,is_complex=False,marching_periods=False)
    w.rf_write(np.arange(25,dtype='i2')); w.close()
    try:
        r=DigitalRFReader(top); print(top,ch,'channels',r.get_channels(), r.get_bounds(ch)); print(list(r.read(10**10,10**10+24,ch).items())[0][1][:3,0])
    except Exception as e: print(top,ch,'EXC',repr(e))
# (b) two top-level dirs, same channel, different file cadence
for i,(cad,start) in enumerate([(1000,10**10),(500,10**10+100)]):
    top=base+'/m%d'%i; os.makedirs(top+'/ch')
    w=DigitalRFWriter(top+'/ch','i2',3600,cad,start,10,1,is_complex=False,is_continuous=False,marching_periods=False)
    w.rf_write(np.arange(25,dtype='i2')+100*i); w.close()
try:
    r=DigitalRFReader([base+'/m0',base+'/m1'])
    print('bounds',r.get_bounds('ch'))
    print({k:len(v) for k,v in r.read(10**10,10**10+200,'ch').items()})
except Exception as e: print('EXC',repr(e))
