import sys, time, os
os.environ.setdefault("FZ_WORK","/tmp/hw-C01-work/fzt")
import fuzz2
os.makedirs(fuzz2.WORK, exist_ok=True)
for s in range(int(sys.argv[1]), int(sys.argv[2])):
    t=time.time(); ok=fuzz2.run_case(s); print(s, ok, round(time.time()-t,2)); sys.stdout.flush()
