#include <stdio.h>
#include <inttypes.h>
#include "digital_rf.h"
int main(void){ uint64_t s,n,d,sec,ps,si; char op[4];
 while (scanf("%3s",op)==1){ if(op[0]=='F'){scanf("%" SCNu64 " %" SCNu64 " %" SCNu64,&s,&n,&d); digital_rf_get_timestamp_floor(s,n,d,&sec,&ps); printf("%" PRIu64 " %" PRIu64 "\n",sec,ps);} 
  else {scanf("%" SCNu64 " %" SCNu64 " %" SCNu64 " %" SCNu64,&sec,&ps,&n,&d); digital_rf_get_sample_ceil(sec,ps,n,d,&si); printf("%" PRIu64 "\n",si);} }
 return 0;}
