"""Exhaustive small universe: 10 consecutive indices over 4 files of 3,2,3,2 samples (25 Hz, 100 ms files),
every subset written as (call 1 = rf_write_blocks of the part below a split point, call 2 = the rest),
in a given storage mode; whole-range and per-index reads compared with the model."""
import os, sys, shutil, itertools
import numpy as np
from digital_rf import DigitalRFWriter, DigitalRFReader

mode = sys.argv[1]  # gapped | contfull | contcomp
offset = int(sys.argv[2]) if len(sys.argv) > 2 else 0   # start offset into the first file
WORK = "/tmp/hw-C01-work/exh_%s_%d" % (mode, offset)
n, d, cad, sub = 25, 1, 100, 1
base = 1000000000 * 25  # file boundary
U = 10
devnull = os.open("/dev/null", os.O_WRONLY)
os.dup2(devnull, 2)


def fstart(f):
    return -((-f * cad * n) // (1000 * d))


def fof(s):
    return (s * d * 1000 // n) // cad


def runs_of(idx):
    out = []
    for i in idx:
        if out and out[-1][1] == i:
            out[-1][1] = i + 1
        else:
            out.append([i, i + 1])
    return out


bad = 0
cases = 0
start = base + offset
for mask in range(1, 1 << U):
    idx = [i for i in range(U) if mask >> i & 1]
    rr = runs_of(idx)
    # split points: between runs, and inside runs (contiguous data written by two calls)
    splits = set([len(idx)])
    for k in range(1, len(idx)):
        splits.add(k)
    for sp in sorted(splits):
        parts = [idx[:sp], idx[sp:]]
        top = WORK
        shutil.rmtree(top, ignore_errors=True)
        os.makedirs(top + "/ch")
        w = DigitalRFWriter(top + "/ch", "i4", sub, cad, start, n, d, is_complex=False,
                            is_continuous=(mode != "gapped"), compression_level=(1 if mode == "contcomp" else 0),
                            marching_periods=False)
        try:
            for p in parts:
                if not p:
                    continue
                r = runs_of(p)
                g = [a for a, b in r]
                bs = list(np.cumsum([0] + [b - a for a, b in r])[:-1])
                data = np.array(p, dtype="i4") + 1000
                ret = w.rf_write_blocks(data, g, bs)
                assert ret == p[-1] + 1, (ret, p)
        except Exception as e:
            print("WRITE FAIL", mask, sp, repr(e))
            bad += 1
            w.close()
            continue
        w.close()
        cases += 1
        rd = DigitalRFReader(top)
        got = rd.read(start - 2, start + U + 8, "ch")
        # expectation
        if mode == "contfull":
            files = sorted(set(fof(start + i) for i in idx))
            pres = []
            for f in files:
                a, b = fstart(f), fstart(f + 1)
                if pres and pres[-1][1] == a:
                    pres[-1][1] = b
                else:
                    pres.append([a, b])
        else:
            pres = [[start + a, start + b] for a, b in rr]
        ok = list(got.keys()) == [a for a, b in pres]
        if ok:
            for (a, b) in pres:
                v = got[a][:, 0]
                if len(v) != b - a:
                    ok = False
                    break
                for j in range(a, b):
                    e = (j - start + 1000) if (j - start) in idx else -2147483648
                    if v[j - a] != e:
                        ok = False
        if ok and mask % 7 == 0:
            for j in range(start - 1, start + U + 1):
                g1 = rd.read(j, j, "ch")
                inp = any(a <= j < b for a, b in pres)
                if inp != (list(g1.keys()) == [j]):
                    ok = False
        if not ok:
            bad += 1
            print("BAD mode=%s offset=%d idx=%r split=%d got=%r" % (mode, offset, idx, sp, {k: v[:, 0].tolist() for k, v in got.items()}))
            sys.stdout.flush()
print("done", mode, offset, "cases", cases, "bad", bad)
