import numpy as np, os, shutil, itertools
from digital_rf import DigitalRFWriter, DigitalRFReader
base='/tmp/hw-C01-work/t3'
bad=0
for cont,comp in itertools.product((False,True),(0,2)):
    shutil.rmtree(base, ignore_errors=True); os.makedirs(base+'/ch')
    n,d,cad=10,1,1000
    start=10**10
    # pre-existing data from an earlier writer in file +5 (samples 50..59)
    w0=DigitalRFWriter(base+'/ch','i2',3600,cad,start+50,n,d,is_complex=False,num_subchannels=2,is_continuous=cont,compression_level=comp,marching_periods=False)
    w0.rf_write(np.full((10,2),7,'i2')); w0.close()
    w=DigitalRFWriter(base+'/ch','i2',3600,cad,start,n,d,is_complex=False,num_subchannels=2,is_continuous=cont,compression_level=comp,marching_periods=False)
    model={}
    def put(i,L):
        a=(np.arange(L*2,dtype='i2').reshape(L,2)+i*10); 
        for k in range(L): model[start+i+k]=a[k].copy()
        return a
    w.rf_write(put(0,15))            # files 0,1
    for badcall in [lambda: w.rf_write(np.zeros((3,2),'i2'),5),          # in the past
                    lambda: w.rf_write(np.zeros((3,3),'i2')),            # wrong shape
                    lambda: w.rf_write(np.zeros((3,2),'f8')),            # unsafe cast
                    lambda: w.rf_write_blocks(np.zeros((4,2),'i2'),[20,19],[0,2]),  # out of order
                    lambda: w.rf_write_blocks(np.zeros((4,2),'i2'),[20,21],[0,2]),  # overlapping
                    lambda: w.rf_write_blocks(np.zeros((4,2),'i2'),[16,30],[0,9])]: # index beyond data
        try: badcall(); print('UNEXPECTED accept')
        except Exception as e: pass
    w.rf_write(put(17,5),17)         # gap 15,16 ; file 1/2
    # now a write that runs into the existing file (+5): samples 45..52 -> must fail when reaching file 5
    try:
        w.rf_write(np.zeros((8,2),'i2')+99,45); print('UNEXPECTED accept of overlap')
    except Exception as e: partial=True
    # writer continues after the existing file
    try:
        r=w.rf_write(put(63,12),63)
    except Exception as e:
        print(cont,comp,'later write refused:',repr(e)); r=None
    w.close()
    rd=DigitalRFReader(base)
    got=rd.read(start-5,start+100,'ch')
    # check every model sample
    flat={}
    for k,v in got.items():
        for j in range(len(v)): flat[k+j]=v[j]
    miss=[i-start for i in model if i not in flat or not np.array_equal(flat[i],model[i])]
    extra=[i-start for i in flat if i not in model and not (50<=i-start<60) and not (45<=i-start<50)]
    extra_nonfill=[i for i in extra if not (flat[start+i]==-32768).all()]
    print(cont,comp,'ret',r,'missing/wrong',miss,'extra nonfill',extra_nonfill, 'blocks',{k-start:len(v) for k,v in got.items()})
