/* C replay driver for the digital_rf writer: reads ops from stdin */
#include <stdio.h>
#include <stdlib.h>
#include <string.h>
#include <inttypes.h>
#include "digital_rf.h"

static hid_t pick_type(const char *kind, int size, const char *bo)
{
	int be = (bo[0] == '>');
	if (kind[0] == 'f') return size == 4 ? (be ? H5T_IEEE_F32BE : H5T_IEEE_F32LE) : (be ? H5T_IEEE_F64BE : H5T_IEEE_F64LE);
	if (kind[0] == 'i') switch (size) {
		case 1: return be ? H5T_STD_I8BE : H5T_STD_I8LE;
		case 2: return be ? H5T_STD_I16BE : H5T_STD_I16LE;
		case 4: return be ? H5T_STD_I32BE : H5T_STD_I32LE;
		default: return be ? H5T_STD_I64BE : H5T_STD_I64LE; }
	switch (size) {
		case 1: return be ? H5T_STD_U8BE : H5T_STD_U8LE;
		case 2: return be ? H5T_STD_U16BE : H5T_STD_U16LE;
		case 4: return be ? H5T_STD_U32BE : H5T_STD_U32LE;
		default: return be ? H5T_STD_U64BE : H5T_STD_U64LE; }
}

static uint64_t start;
static int rowbytes;

static void fill(unsigned char *p, uint64_t absidx, uint64_t n)
{
	uint64_t i; int b;
	for (i = 0; i < n; i++)
		for (b = 0; b < rowbytes; b++)
			p[i * rowbytes + b] = (unsigned char)(((absidx + i) * 131u + (uint64_t)b * 29u + ((absidx + i) >> 7)) & 0xFF);
}

int main(void)
{
	char op[8], dir[2000], kind[4], bo[4];
	Digital_rf_write_object *w = NULL;
	int size, comp, cks, cplx, nsub, cont;
	uint64_t sub, cad, n, d;
	while (scanf("%7s", op) == 1)
	{
		if (op[0] == 'C')
		{
			scanf("%1999s %3s %d %3s %" SCNu64 " %" SCNu64 " %" SCNu64 " %" SCNu64 " %" SCNu64 " %d %d %d %d %d",
				dir, kind, &size, bo, &sub, &cad, &start, &n, &d, &comp, &cks, &cplx, &nsub, &cont);
			rowbytes = size * (cplx ? 2 : 1) * nsub;
			w = digital_rf_create_write_hdf5(dir, pick_type(kind, size, bo), sub, cad, start, n, d, "uuid", comp, cks, cplx, nsub, cont, 0);
			printf("create %d\n", w != NULL);
		}
		else if (op[0] == 'W')
		{
			uint64_t idx, len; int r; unsigned char *buf;
			scanf("%" SCNu64 " %" SCNu64, &idx, &len);
			buf = malloc(len * rowbytes + 1);
			fill(buf, start + idx, len);
			r = digital_rf_write_hdf5(w, idx, buf, len);
			free(buf);
			printf("ret %d gi %" PRIu64 "\n", r, w->global_index);
		}
		else if (op[0] == 'B')
		{
			uint64_t k, i, total, *g, *di; int r; unsigned char *buf;
			scanf("%" SCNu64, &k);
			g = malloc(sizeof(uint64_t) * k); di = malloc(sizeof(uint64_t) * k);
			for (i = 0; i < k; i++) scanf("%" SCNu64 " %" SCNu64, &g[i], &di[i]);
			scanf("%" SCNu64, &total);
			buf = malloc(total * rowbytes + 1);
			for (i = 0; i < k; i++)
				fill(buf + di[i] * rowbytes, start + g[i], (i + 1 < k ? di[i + 1] : total) - di[i]);
			r = digital_rf_write_blocks_hdf5(w, g, di, k, buf, total);
			free(buf); free(g); free(di);
			printf("ret %d gi %" PRIu64 "\n", r, w->global_index);
		}
		else if (op[0] == 'X')
		{
			int r = digital_rf_close_write_hdf5(w);
			w = NULL;
			printf("close %d\n", r);
		}
		fflush(stdout);
	}
	if (w) digital_rf_close_write_hdf5(w);
	return 0;
}
