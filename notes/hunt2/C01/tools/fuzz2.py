"""Round-2 fuzzer for C01: Python writer -> reader, long histories with restarts,
persistent readers, mixed storage modes, many blocks, all compression levels.
Oracle is written from the property text: model of abs index -> row bytes."""
import os, sys, shutil, random, math, traceback
import numpy as np

WORK = os.environ.get("FZ_WORK", "/tmp/hw-C01-work/fz")
SPFMAX = float(os.environ.get("FZ_SPFMAX", "300"))
SPFMIN = float(os.environ.get("FZ_SPFMIN", "1"))
TOTAL = int(os.environ.get("FZ_TOTAL", "6000"))
import digital_rf
from digital_rf import DigitalRFWriter, DigitalRFReader

RATES = [(1, 2), (1, 1), (2, 3), (7, 3), (10, 1), (100, 1), (200, 3), (1000, 3), (1000, 7),
         (30000, 1001), (999, 1000), (44100, 1), (100000, 1), (4294967295, 65537),
         (4294967291, 40000000), (400, 6), (1000000, 3), (1, 10), (3, 1000), (123457, 1000),
         (2500, 9), (48000, 1), (4294967295, 4294967294), (4000000000, 3999999999), (65537, 65536)]
CADS = [1, 2, 3, 4, 5, 7, 8, 10, 20, 25, 40, 50, 100, 125, 200, 250, 500, 1000, 2000, 3000, 5000,
        7000, 10000, 60000, 600000, 3600000, 86400000]
KINDS = [("i", 1), ("i", 2), ("i", 4), ("i", 8), ("u", 1), ("u", 2), ("u", 4), ("u", 8), ("f", 4), ("f", 8)]


def cdiv(a, b):
    return -((-a) // b)


class Cfg(object):
    pass


def gen_cfg(rng):
    c = Cfg()
    while True:
        c.n, c.d = rng.choice(RATES)
        cands = [cad for cad in CADS if SPFMIN <= cad * c.n / (1000.0 * c.d) <= SPFMAX]
        if cands:
            break
    c.cad = rng.choice(cands)
    ks = [k for k in range(1, 13) if (c.cad * k) % 1000 == 0]
    if not ks:
        g = math.gcd(c.cad, 1000)
        ks = [1000 // g * m for m in (1, 2, 3)]
    c.fps = rng.choice(ks)
    c.sub = c.cad * c.fps // 1000
    assert c.sub >= 1 and (c.sub * 1000) % c.cad == 0
    c.kind, c.size = rng.choice(KINDS)
    c.bo = rng.choice("<>") if c.size > 1 else "|"
    c.cplx = rng.random() < 0.5
    c.nsub = rng.choice([1, 1, 2, 3, 5, 8])
    return c


def real_dtype(c):
    return np.dtype("%s%s%d" % (c.bo if c.bo != "|" else "", c.kind, c.size))


def file_of(c, s):
    return (s * c.d * 1000 // c.n) // c.cad


def file_start(c, f):
    return cdiv(f * c.cad * c.n, 1000 * c.d)


class Model(object):
    def __init__(self, c):
        self.c = c
        self.rowbytes = c.size * (2 if c.cplx else 1) * c.nsub
        self.runs = []  # list of [start, uint8 array (len,rowbytes)] non-overlapping sorted
        self.filemode = {}  # file idx -> 'full' or 'sparse'

    def add(self, start, data, mode):
        c = self.c
        n = data.shape[0]
        if n == 0:
            return
        f0, f1 = file_of(c, start), file_of(c, start + n - 1)
        # every file between with at least one sample
        f = f0
        s = start
        while s < start + n:
            f = file_of(c, s)
            self.filemode.setdefault(f, mode)
            s = file_start(c, f + 1)
        self.runs.append([start, data])

    def presence(self):
        """list of (start, end_excl) maximal runs of indices the reader should return"""
        c = self.c
        iv = []
        for s, d in self.runs:
            iv.append((s, s + d.shape[0]))
        for f, m in self.filemode.items():
            if m == "full":
                iv.append((file_start(c, f), file_start(c, f + 1)))
        iv.sort()
        out = []
        for a, b in iv:
            if out and a <= out[-1][1]:
                out[-1][1] = max(out[-1][1], b)
            else:
                out.append([a, b])
        return out

    def expected(self, a, b):
        """expected read result for [a,b] inclusive: dict start -> (uint8 array, written mask)"""
        res = {}
        for s, e in self.presence():
            lo, hi = max(s, a), min(e, b + 1)
            if lo >= hi:
                continue
            arr = np.zeros((hi - lo, self.rowbytes), np.uint8)
            mask = np.zeros(hi - lo, bool)
            for rs, rd in self.runs:
                l2, h2 = max(rs, lo), min(rs + rd.shape[0], hi)
                if l2 < h2:
                    arr[l2 - lo:h2 - lo] = rd[l2 - rs:h2 - rs]
                    assert not mask[l2 - lo:h2 - lo].any()
                    mask[l2 - lo:h2 - lo] = True
            res[lo] = (arr, mask)
        return res


def fill_ok(c, rowsbytes):
    """rowsbytes: uint8 (k, rowbytes) of unwritten-but-present samples"""
    if rowsbytes.shape[0] == 0:
        return True
    rd = real_dtype(c)
    rd = rd.newbyteorder('=')
    vals = np.ascontiguousarray(rowsbytes).view(rd)
    if c.kind == "f":
        return bool(np.isnan(vals).all())
    if c.kind == "i":
        return bool((vals == np.iinfo(rd).min).all())
    return bool((vals == 0).all())


def to_bytes(v, c, sub_channel):
    v = np.ascontiguousarray(v)
    k = v.shape[0]
    return v.view(np.uint8).reshape(k, -1)


def make_input(rng, c, data, style):
    """data uint8 (N,rowbytes) in storage byte order -> array to hand to the writer"""
    rd = real_dtype(c)
    N = data.shape[0]
    if not c.cplx:
        arr = np.ascontiguousarray(data).view(rd).reshape(N, c.nsub)
        if style == "swapped" and c.size > 1:
            arr = arr.astype(rd.newbyteorder())
        if c.nsub == 1 and rng.random() < 0.5:
            arr = arr.reshape(N)
        return arr
    sd = np.dtype([("r", rd), ("i", rd)])
    if style == "struct":
        arr = np.ascontiguousarray(data).view(sd).reshape(N, c.nsub)
    elif style == "complex" and c.kind == "f":
        cd = np.dtype("c%d" % (2 * c.size)).newbyteorder(rd.byteorder)
        arr = np.ascontiguousarray(data).view(cd).reshape(N, c.nsub)
    elif style == "swapped" and c.size > 1:
        arr = np.ascontiguousarray(data).view(rd).reshape(N, 2 * c.nsub).astype(rd.newbyteorder())
    else:
        arr = np.ascontiguousarray(data).view(rd).reshape(N, 2 * c.nsub)
        return arr
    if c.nsub == 1 and arr.ndim == 2 and arr.shape[1] == 1 and rng.random() < 0.5:
        arr = arr.reshape(N)
    return arr


def rand_data(rng, nprng, c, N, rowbytes):
    mode = rng.random()
    if mode < 0.7:
        d = nprng.integers(0, 256, size=(N, rowbytes), dtype=np.uint8)
    elif mode < 0.85:
        # extremes
        d = nprng.choice(np.array([0, 0xFF, 0x80, 0x7F], np.uint8), size=(N, rowbytes))
    else:
        d = np.zeros((N, rowbytes), np.uint8)
        d[:] = (np.arange(N) % 251)[:, None]
    return np.ascontiguousarray(d)


def run_case(seed, verbose=False):
    rng = random.Random(seed)
    nprng = np.random.default_rng(seed)
    c = gen_cfg(rng)
    top = os.path.join(WORK, "c%d" % seed)
    shutil.rmtree(top, ignore_errors=True)
    chdir = os.path.join(top, "ch")
    os.makedirs(chdir)
    model = Model(c)
    spf = c.cad * c.n / (1000.0 * c.d)
    # start index
    t0 = rng.randrange(315532800, 4102444800 - 10 * 86400 * 400)
    f0 = (t0 * 1000) // c.cad
    choice = rng.random()
    if choice < 0.3:
        start = file_start(c, f0)
    elif choice < 0.5:
        start = file_start(c, f0) - 1
    elif choice < 0.65:
        # subdir boundary
        fsub = ((t0 // c.sub) * c.sub * 1000) // c.cad
        start = file_start(c, fsub) - rng.choice([0, 1])
    else:
        start = file_start(c, f0) + rng.randrange(0, max(1, int(spf)))
    desc = "seed=%d rate=%d/%d cad=%d sub=%d %s%s%d cplx=%d nsub=%d start=%d spf=%.3f" % (
        seed, c.n, c.d, c.cad, c.sub, c.bo, c.kind, c.size, c.cplx, c.nsub, start, spf)
    log = [desc]
    errors = []
    persistent = None
    cursor_abs = start  # absolute next available
    nseg = rng.choice([1, 1, 2, 3, 4])
    total = 0
    cont = rng.random() < 0.5
    for seg in range(nseg):
        comp = rng.choice([0, 0, 1, 2, 3, 4, 5, 6, 7, 8, 9])
        cks = rng.random() < 0.3
        mode = "full" if (cont and comp == 0 and not cks) else "sparse"
        if seg > 0:
            # restart: must begin in a file after the last one touched
            lastf = file_of(c, cursor_abs - 1)
            skipf = rng.choice([1, 1, 1, 2, 3, c.fps, c.fps + 1, 2 * c.fps])
            nf = lastf + skipf
            seg_start = file_start(c, nf) + rng.choice([0, 0, 1, int(spf) // 2])
            if file_of(c, seg_start) <= lastf:
                seg_start = file_start(c, lastf + 1)
        else:
            seg_start = start
        try:
            w = DigitalRFWriter(chdir, (np.dtype([("r", real_dtype(c)), ("i", real_dtype(c))]) if (c.cplx and rng.random() < 0.5) else real_dtype(c)),
                                c.sub, c.cad, seg_start, c.n, c.d, uuid_str="u%d" % seg,
                                compression_level=comp, checksum=cks, is_complex=c.cplx,
                                num_subchannels=c.nsub, is_continuous=cont, marching_periods=False)
        except Exception as e:
            errors.append("writer create failed seg %d: %r" % (seg, e))
            break
        log.append("seg %d start=%d cont=%d comp=%d cks=%d" % (seg, seg_start, cont, comp, cks))
        rel = 0  # relative next avail
        ncalls = rng.choice([1, 2, 3, 5, 8, 15, 30])
        for call in range(ncalls):
            if total > TOTAL:
                break
            absn = seg_start + rel
            fcur = file_of(c, absn)
            to_eof = file_start(c, fcur + 1) - absn

            def pick_gap():
                g = rng.random()
                if g < 0.4:
                    return 0
                if g < 0.55:
                    return 1
                if g < 0.7:
                    return to_eof  # land on first sample of next file (if len 0 written)
                if g < 0.8:
                    return max(0, to_eof - 1)
                if g < 0.9:
                    return file_start(c, fcur + rng.choice([2, 3, c.fps, c.fps + 1])) - absn + rng.choice([0, 1])
                return rng.randrange(0, int(3 * spf) + 2)

            def pick_len(at_abs):
                f = file_of(c, at_abs)
                te = file_start(c, f + 1) - at_abs
                g = rng.random()
                if g < 0.2:
                    return 1
                if g < 0.4:
                    return te
                if g < 0.5:
                    return te + 1
                if g < 0.6:
                    return max(1, te - 1)
                if g < 0.75:
                    return file_start(c, f + rng.choice([2, 3, 4])) - at_abs + rng.choice([-1, 0, 1])
                return rng.randrange(1, int(2.5 * spf) + 3)

            style = rng.choice(["struct", "complex", "inter", "swapped"])
            if rng.random() < 0.5:
                gap = pick_gap() if not (seg == 0 and call == 0 and rng.random() < 0.5) else 0
                L = pick_len(absn + gap)
                data = rand_data(rng, nprng, c, L, model.rowbytes)
                arr = make_input(rng, c, data, style)
                try:
                    if gap == 0 and rng.random() < 0.5:
                        r = w.rf_write(arr)
                    else:
                        r = w.rf_write(arr, rel + gap)
                except Exception as e:
                    errors.append("rf_write failed: %r (rel=%d gap=%d L=%d)" % (e, rel, gap, L))
                    break
                log.append(" write at %d len %d" % (seg_start + rel + gap, L))
                model.add(seg_start + rel + gap, data, mode)
                if r != rel + gap + L:
                    errors.append("rf_write returned %d expected %d" % (r, rel + gap + L))
                rel = rel + gap + L
                total += L
            else:
                nb = rng.choice([1, 2, 3, 5, 9, 20])
                gs, bs, datas = [], [], []
                pos = rel
                off = 0
                for b in range(nb):
                    absn2 = seg_start + pos
                    fcur = file_of(c, absn2)
                    to_eof = file_start(c, fcur + 1) - absn2
                    gap = pick_gap()
                    if b > 0 and gap == 0 and rng.random() < 0.8:
                        gap = 1
                    L = pick_len(seg_start + pos + gap)
                    if nb > 5:
                        L = min(L, int(spf) + 2)
                    gs.append(pos + gap)
                    bs.append(off)
                    datas.append(rand_data(rng, nprng, c, L, model.rowbytes))
                    pos = pos + gap + L
                    off += L
                data = np.concatenate(datas)
                arr = make_input(rng, c, data, style)
                garr = np.array(gs, dtype=np.uint64) if rng.random() < 0.7 else gs
                barr = np.array(bs, dtype=np.uint64) if rng.random() < 0.7 else bs
                try:
                    r = w.rf_write_blocks(arr, garr, barr)
                except Exception as e:
                    errors.append("rf_write_blocks failed: %r gs=%r bs=%r" % (e, gs, bs))
                    break
                for g_, d_ in zip(gs, datas):
                    model.add(seg_start + g_, d_, mode)
                log.append(" blocks at %r lens %r" % ([seg_start + g for g in gs], [d.shape[0] for d in datas]))
                if r != pos:
                    errors.append("rf_write_blocks returned %d expected %d" % (r, pos))
                rel = pos
                total += off
        w.close()
        del w
        cursor_abs = seg_start + rel
        if errors:
            break
        if not model.runs:
            continue
        # verify with fresh and persistent readers
        readers = [("fresh", DigitalRFReader(top))]
        if persistent is None:
            persistent = readers[0][1]
        else:
            readers.append(("persistent", persistent))
        for name, rd in readers:
            errs = verify(rng, c, model, rd, quick=(name == "persistent" or seg < nseg - 1))
            errors.extend("%s seg%d: %s" % (name, seg, e) for e in errs)
        if errors:
            break
    if errors:
        print("BAD", desc)
        for l in log[1:]:
            print("   ", l)
        for e in errors[:10]:
            print("   ERR", e)
        return False
    shutil.rmtree(top, ignore_errors=True)
    return True


def verify(rng, c, model, rd, quick):
    errs = []
    pres = model.presence()
    lo, hi = pres[0][0], pres[-1][1] - 1
    b = rd.get_bounds("ch")
    if b != (lo, hi):
        errs.append("get_bounds %r expected %r" % (b, (lo, hi)))
    ranges = [(lo - 3, hi + 3), (lo, hi)]
    files = sorted(model.filemode)
    pick = files if len(files) <= 12 else rng.sample(files, 12)
    for f in pick:
        a, e = file_start(c, f), file_start(c, f + 1) - 1
        ranges += [(a, e), (a, a), (e, e), (a - 1, a), (e, e + 1), (a + 1, e - 1) if e - 1 >= a + 1 else (a, e),
                   (lo - 1, a), (e, hi + 1), (a, min(hi, e + int(rng.random() * 3 * (e - a + 1))))]
    for _ in range(10):
        x = rng.randrange(lo - 2, hi + 3)
        y = rng.randrange(x, hi + 4)
        ranges.append((x, y))
    for s, e in pres[:6]:
        ranges += [(s, e - 1), (s - 1, e), (e - 1, e - 1), (e, e)]
    if quick:
        ranges = ranges[:2] + rng.sample(ranges[2:], min(12, len(ranges) - 2))
    for (a, z) in ranges:
        if z < a:
            continue
        sc = None
        if rng.random() < 0.3:
            sc = rng.randrange(c.nsub)
        try:
            got = rd.read(a, z, "ch", sub_channel=sc)
        except Exception as e:
            errs.append("read(%d,%d) raised %r" % (a, z, e))
            continue
        exp = model.expected(a, z)
        if list(got.keys()) != sorted(exp.keys()):
            errs.append("read(%d,%d) keys %r expected %r" % (a, z, list(got.keys()), sorted(exp.keys())))
            continue
        for k, v in got.items():
            ea, mask = exp[k]
            if v.shape[0] != ea.shape[0]:
                errs.append("read(%d,%d) block %d len %d expected %d" % (a, z, k, v.shape[0], ea.shape[0]))
                continue
            gb = np.ascontiguousarray(v.astype(v.dtype.newbyteorder('='))).view(np.uint8).reshape(v.shape[0], -1)
            ean = np.ascontiguousarray(np.ascontiguousarray(ea).view(real_dtype(c)).astype(real_dtype(c).newbyteorder('='))).view(np.uint8).reshape(ea.shape[0], -1)
            if sc is not None:
                es = c.size * (2 if c.cplx else 1)
                eb = ean[:, sc * es:(sc + 1) * es]
            else:
                eb = ean
                if (v.ndim != 2 or v.shape[1] != c.nsub):
                    errs.append("read(%d,%d) shape %r" % (a, z, v.shape))
                    continue
            if gb.shape != eb.shape:
                errs.append("read(%d,%d) byte shape %r vs %r" % (a, z, gb.shape, eb.shape))
                continue
            if not np.array_equal(gb[mask], eb[mask]):
                bad = np.nonzero((gb != eb).any(axis=1) & mask)[0]
                errs.append("read(%d,%d,sc=%r) block %d DATA MISMATCH at idx %r" % (a, z, sc, k, (k + bad[:5]).tolist()))
            if not fill_ok(c, gb[~mask]):
                errs.append("read(%d,%d) block %d unwritten samples not fill" % (a, z, k))
        if rng.random() < 0.3:
            gl = rd.get_continuous_blocks(a, z, "ch")
            el = dict((k, v[0].shape[0]) for k, v in exp.items())
            if dict(gl) != el or list(gl.keys()) != sorted(el):
                errs.append("get_continuous_blocks(%d,%d) %r expected %r" % (a, z, dict(gl), el))
        if len(errs) > 5:
            break
    return errs


if __name__ == "__main__":
    s0, s1 = int(sys.argv[1]), int(sys.argv[2])
    os.makedirs(WORK, exist_ok=True)
    devnull = os.open(os.environ.get("FZ_ERR", "/dev/null"), os.O_WRONLY | os.O_CREAT | os.O_APPEND)
    os.dup2(devnull, 2)
    bad = 0
    for seed in range(s0, s1):
        try:
            ok = run_case(seed)
        except Exception:
            print("EXC seed", seed)
            traceback.print_exc(file=sys.stdout)
            ok = False
        if not ok:
            bad += 1
        sys.stdout.flush()
    print("done %d-%d bad=%d" % (s0, s1, bad))
