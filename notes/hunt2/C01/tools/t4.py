import numpy as np, os, shutil, time
from digital_rf import DigitalRFWriter, DigitalRFReader
base='/tmp/hw-C01-work/t4'
rng=np.random.default_rng(1)
def case(name,dtype,sub,cad,start,n,d,nsub,cplx,cont,comp,cks,writes,reads):
    shutil.rmtree(base, ignore_errors=True); os.makedirs(base+'/ch')
    w=DigitalRFWriter(base+'/ch',dtype,sub,cad,start,n,d,is_complex=cplx,num_subchannels=nsub,is_continuous=cont,compression_level=comp,checksum=cks,marching_periods=False)
    rd=np.dtype(dtype); rb=rd.itemsize*(2 if cplx else 1)*nsub
    model={}
    for (rel,L) in writes:
        raw=rng.integers(0,256,size=(L,rb),dtype=np.uint8)
        arr=raw.view(rd).reshape(L,-1)
        w.rf_write(arr,rel)
        model[start+rel]=raw
    w.close()
    r=DigitalRFReader(base)
    ok=True
    t=time.time()
    for (a,b) in reads:
        got=r.read(start+a,start+b,'ch')
        for k,v in got.items():
            gb=np.ascontiguousarray(v.astype(v.dtype.newbyteorder('='))).view(np.uint8).reshape(len(v),-1)
            # compare to model
            for ms,raw in model.items():
                lo=max(ms,k); hi=min(ms+len(raw),k+len(v))
                if lo<hi:
                    e=np.ascontiguousarray(raw[lo-ms:hi-ms]).view(rd).astype(rd.newbyteorder('=')).view(np.uint8).reshape(hi-lo,-1)
                    if not np.array_equal(e,gb[lo-k:hi-k]): ok=False
        # coverage: union of written within [a,b] must be inside returned
        for ms,raw in model.items():
            lo=max(ms,start+a); hi=min(ms+len(raw),start+b+1)
            if lo<hi and not any(k<=lo and hi<=k+len(v) for k,v in got.items()): ok=False
    print(name,ok,r.get_bounds('ch'),(start+writes[0][0], start+writes[-1][0]+writes[-1][1]-1), round(time.time()-t,1))
t0=1700000000
case('nsub64 c16 comp9 cks','f8',10,1000,t0*100,100,1,64,True,False,9,True,[(0,250),(250,1),(300,777)],[(0,1100),(99,100),(100,199),(249,301)])
case('1000 files/subdir','i2',1,1,t0*100000-50,100000,1,1,True,True,0,False,[(0,250000),(250001,7)],[(-5,250100),(49,50),(50,149),(100049,100050)])
case('1 day files 0.1Hz','<i8',86400,86400000,(t0//86400)*8640-3,1,10,2,False,False,1,False,[(0,10),(10,8640),(9000,10000)],[(-1,20000),(2,3),(3,8642),(8642,8643)])
case('1 yr subdir','>u2',31536000,3600000,t0*10-7,10,1,1,False,True,0,False,[(0,36000*3+5)],[(0,36000*3+10),(35999+7,36000+7)])
case('max rate','<i2',1,1,(2**32-1)*t0-1000,2**32-1,1,1,True,False,0,False,[(0,3000),(3001,4294967-3001+5)],[(0,5000),(999,1000),(1000,1001)])
