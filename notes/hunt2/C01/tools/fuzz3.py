"""Restart histories: many writer restarts that fill holes / go backwards in time, persistent reader."""
import os, sys, shutil, random, traceback
import numpy as np
import fuzz2
from fuzz2 import gen_cfg, Model, file_of, file_start, verify, real_dtype, make_input, rand_data
from digital_rf import DigitalRFWriter, DigitalRFReader

WORK = fuzz2.WORK


def run_case(seed):
    rng = random.Random(seed * 31337 + 5)
    nprng = np.random.default_rng(seed)
    c = gen_cfg(rng)
    top = os.path.join(WORK, "h%d" % seed)
    shutil.rmtree(top, ignore_errors=True)
    chdir = os.path.join(top, "ch")
    os.makedirs(chdir)
    model = Model(c)
    spf = c.cad * c.n / (1000.0 * c.d)
    t0 = rng.randrange(315532800, 4102444800 - 10 * 86400 * 400)
    fbase = (t0 * 1000) // c.cad
    cont = rng.random() < 0.5
    desc = "hseed=%d rate=%d/%d cad=%d sub=%d %s%s%d cplx=%d nsub=%d spf=%.3f cont=%d" % (
        seed, c.n, c.d, c.cad, c.sub, c.bo, c.kind, c.size, c.cplx, c.nsub, spf, cont)
    log, errors = [], []
    persistent = None
    span = rng.choice([6, 12, 3 * c.fps + 2])
    nseg = rng.choice([3, 6, 12, 25])
    for seg in range(nseg):
        free = [f for f in range(fbase, fbase + span) if f not in model.filemode]
        if not free:
            break
        h = rng.choice(free)
        k = 1
        while (h + k) in free and k < 4 and rng.random() < 0.6:
            k += 1
        lo, hi = file_start(c, h), file_start(c, h + k)  # may write [lo,hi)
        comp = rng.choice([0, 0, 1, 5, 9])
        cks = rng.random() < 0.3
        mode = "full" if (cont and comp == 0 and not cks) else "sparse"
        seg_start = lo + rng.choice([0, 0, 1, rng.randrange(0, hi - lo)])
        if seg_start >= hi:
            seg_start = lo
        try:
            w = DigitalRFWriter(chdir, real_dtype(c), c.sub, c.cad, seg_start, c.n, c.d,
                                compression_level=comp, checksum=cks, is_complex=c.cplx,
                                num_subchannels=c.nsub, is_continuous=cont, marching_periods=False)
        except Exception as e:
            errors.append("create failed: %r" % (e,))
            break
        log.append("seg %d files %d..%d start=%d comp=%d cks=%d" % (seg, h - fbase, h + k - 1 - fbase, seg_start, comp, cks))
        rel = 0
        for call in range(rng.choice([1, 1, 2, 4])):
            avail = hi - (seg_start + rel)
            if avail <= 0:
                break
            gap = rng.choice([0, 0, 1, rng.randrange(0, avail)])
            if gap >= avail:
                gap = 0
            L = rng.choice([1, avail - gap, rng.randrange(1, avail - gap + 1)])
            data = rand_data(rng, nprng, c, L, model.rowbytes)
            arr = make_input(rng, c, data, rng.choice(["struct", "complex", "inter", "swapped"]))
            try:
                if rng.random() < 0.5:
                    r = w.rf_write(arr, rel + gap)
                else:
                    r = w.rf_write_blocks(arr, [rel + gap], [0])
            except Exception as e:
                errors.append("write failed: %r" % (e,))
                break
            log.append("  write at %d len %d" % (seg_start + rel + gap, L))
            model.add(seg_start + rel + gap, data, mode)
            rel += gap + L
            if r != rel:
                errors.append("returned %d expected %d" % (r, rel))
        w.close()
        if errors or not model.runs:
            break
        fresh = DigitalRFReader(top)
        if persistent is None:
            persistent = fresh
        for name, rd in (("fresh", fresh), ("persistent", persistent)):
            if name == "fresh" and seg < nseg - 1 and rng.random() < 0.6:
                continue
            errs = verify(rng, c, model, rd, quick=(seg < nseg - 1))
            errors.extend("%s seg%d: %s" % (name, seg, e) for e in errs)
        if errors:
            break
    if errors:
        print("BAD", desc)
        for l in log:
            print("   ", l)
        for e in errors[:10]:
            print("   ERR", e)
        return False
    shutil.rmtree(top, ignore_errors=True)
    return True


if __name__ == "__main__":
    s0, s1 = int(sys.argv[1]), int(sys.argv[2])
    os.makedirs(WORK, exist_ok=True)
    devnull = os.open(os.environ.get("FZ_ERR", "/dev/null"), os.O_WRONLY | os.O_CREAT | os.O_APPEND)
    os.dup2(devnull, 2)
    bad = 0
    for seed in range(s0, s1):
        try:
            ok = run_case(seed)
        except Exception:
            print("EXC seed", seed)
            traceback.print_exc(file=sys.stdout)
            ok = False
        bad += (not ok)
        sys.stdout.flush()
    print("done %d-%d bad=%d" % (s0, s1, bad))
