"""C API fuzz (ASan/UBSan driver) reusing fuzz2's config generator, model and verifier."""
import os, sys, shutil, random, subprocess, traceback
import numpy as np
import fuzz2
from fuzz2 import gen_cfg, Model, file_of, file_start, verify
from digital_rf import DigitalRFReader

DRIVER = os.environ.get("DRIVER", "/tmp/hw-C01-work/driver_asan")
WORK = fuzz2.WORK


def pattern(c, rowbytes, absidx, n):
    idx = (np.arange(n, dtype=np.uint64) + np.uint64(absidx))[:, None]
    b = np.arange(rowbytes, dtype=np.uint64)[None, :]
    return ((idx * np.uint64(131) + b * np.uint64(29) + (idx >> np.uint64(7))) & np.uint64(0xFF)).astype(np.uint8)


def run_case(seed):
    rng = random.Random(seed * 7919 + 13)
    c = gen_cfg(rng)
    top = os.path.join(WORK, "k%d" % seed)
    shutil.rmtree(top, ignore_errors=True)
    chdir = os.path.join(top, "ch")
    os.makedirs(chdir)
    model = Model(c)
    spf = c.cad * c.n / (1000.0 * c.d)
    t0 = rng.randrange(315532800, 4102444800 - 10 * 86400 * 400)
    f0 = (t0 * 1000) // c.cad
    ch = rng.random()
    if ch < 0.35:
        start = file_start(c, f0)
    elif ch < 0.55:
        start = file_start(c, f0) - 1
    else:
        start = file_start(c, f0) + rng.randrange(0, max(1, int(spf)))
    cont = rng.random() < 0.4
    desc = "cseed=%d rate=%d/%d cad=%d sub=%d %s%s%d cplx=%d nsub=%d start=%d spf=%.3f cont=%d" % (
        seed, c.n, c.d, c.cad, c.sub, c.bo, c.kind, c.size, c.cplx, c.nsub, start, spf, cont)
    ops = []
    expect = []  # expected reply lines
    nseg = rng.choice([1, 1, 2, 3])
    cursor_abs = start
    total = 0
    for seg in range(nseg):
        comp = rng.choice([0, 0, 1, 2, 3, 4, 5, 6, 7, 8, 9])
        cks = int(rng.random() < 0.3)
        mode = "full" if (cont and comp == 0 and not cks) else "sparse"
        if seg > 0:
            lastf = file_of(c, cursor_abs - 1)
            nf = lastf + rng.choice([1, 1, 2, 3, c.fps, c.fps + 1])
            seg_start = file_start(c, nf) + rng.choice([0, 0, 1, int(spf) // 2])
            if file_of(c, seg_start) <= lastf:
                seg_start = file_start(c, lastf + 1)
        else:
            seg_start = start
        ops.append("C %s %s %d %s %d %d %d %d %d %d %d %d %d %d" % (
            chdir + ("/" if rng.random() < 0.2 else ""), c.kind, c.size, ">" if c.bo == ">" else "<", c.sub, c.cad, seg_start, c.n, c.d,
            comp, cks, int(c.cplx), c.nsub, int(cont)))
        expect.append("create 1")
        rel = 0
        for call in range(rng.choice([1, 2, 3, 5, 8, 15, 30])):
            if total > 6000:
                break
            absn = seg_start + rel
            fcur = file_of(c, absn)
            to_eof = file_start(c, fcur + 1) - absn

            def pick_gap(absn=absn, fcur=fcur, to_eof=to_eof):
                g = rng.random()
                if g < 0.4:
                    return 0
                if g < 0.55:
                    return 1
                if g < 0.7:
                    return to_eof
                if g < 0.8:
                    return max(0, to_eof - 1)
                if g < 0.9:
                    return file_start(c, fcur + rng.choice([2, 3, c.fps, c.fps + 1])) - absn + rng.choice([0, 1])
                return rng.randrange(0, int(3 * spf) + 2)

            def pick_len(at_abs):
                f = file_of(c, at_abs)
                te = file_start(c, f + 1) - at_abs
                g = rng.random()
                if g < 0.2:
                    return 1
                if g < 0.4:
                    return te
                if g < 0.5:
                    return te + 1
                if g < 0.6:
                    return max(1, te - 1)
                if g < 0.75:
                    return file_start(c, f + rng.choice([2, 3, 4])) - at_abs + rng.choice([-1, 0, 1])
                return rng.randrange(1, int(2.5 * spf) + 3)

            if cont or rng.random() < 0.4:
                gap = pick_gap()
                L = pick_len(absn + gap)
                ops.append("W %d %d" % (rel + gap, L))
                model.add(seg_start + rel + gap, pattern(c, model.rowbytes, seg_start + rel + gap, L), mode)
                rel += gap + L
                total += L
                expect.append("ret 0 gi %d" % rel)
            else:
                nb = rng.choice([1, 2, 3, 5, 9, 20, 40])
                pos, off, parts = rel, 0, []
                for b in range(nb):
                    absn2 = seg_start + pos
                    fc2 = file_of(c, absn2)
                    gap = pick_gap(absn2, fc2, file_start(c, fc2 + 1) - absn2)
                    if b > 0 and gap == 0 and rng.random() < 0.8:
                        gap = 1
                    L = pick_len(seg_start + pos + gap)
                    if nb > 5:
                        L = min(L, int(spf) + 2)
                    parts.append((pos + gap, off, L))
                    pos += gap + L
                    off += L
                ops.append("B %d %s %d" % (nb, " ".join("%d %d" % (g, o) for g, o, _ in parts), off))
                for g, o, L in parts:
                    model.add(seg_start + g, pattern(c, model.rowbytes, seg_start + g, L), mode)
                rel = pos
                total += off
                expect.append("ret 0 gi %d" % rel)
        ops.append("X")
        expect.append("close 0")
        cursor_abs = seg_start + rel
    env = dict(os.environ, ASAN_OPTIONS="detect_leaks=0:abort_on_error=0", UBSAN_OPTIONS="print_stacktrace=1")
    p = subprocess.run([DRIVER], input="\n".join(ops) + "\n", capture_output=True, text=True, env=env)
    errors = []
    out = p.stdout.strip().split("\n")
    if p.returncode != 0:
        errors.append("driver exit %d" % p.returncode)
    if "runtime error" in p.stderr or "Sanitizer" in p.stderr:
        errors.append("SANITIZER: " + "\n".join(l for l in p.stderr.split("\n") if "error" in l or "Sanitizer" in l)[:600])
    if out != expect:
        for i, (a, b) in enumerate(zip(out, expect)):
            if a != b:
                errors.append("op %d (%s): got %r expected %r" % (i, ops[i][:80], a, b))
                break
        else:
            errors.append("output length %d vs %d" % (len(out), len(expect)))
        errors.append("stderr: " + p.stderr[-400:])
    if not errors and model.runs:
        rd = DigitalRFReader(top)
        errors.extend(verify(rng, c, model, rd, quick=False))
    if errors:
        print("BAD", desc)
        for o in ops:
            print("    ", o[:200])
        for e in errors[:8]:
            print("   ERR", e)
        return False
    shutil.rmtree(top, ignore_errors=True)
    return True


if __name__ == "__main__":
    s0, s1 = int(sys.argv[1]), int(sys.argv[2])
    os.makedirs(WORK, exist_ok=True)
    bad = 0
    for seed in range(s0, s1):
        try:
            ok = run_case(seed)
        except Exception:
            print("EXC seed", seed)
            traceback.print_exc(file=sys.stdout)
            ok = False
        bad += (not ok)
        sys.stdout.flush()
    print("done %d-%d bad=%d" % (s0, s1, bad))
