import random, subprocess
rng=random.Random(5)
cases=[]; inp=[]
for _ in range(20000):
    n=rng.choice([rng.randrange(1,2**32), rng.randrange(2**31,2**32), 4294967291])
    d=rng.choice([rng.randrange(2**32,int(1.8e10)), rng.randrange(2**32, 2**33)])
    t=rng.randrange(315532800,4102444800)
    # sample near time t
    s=t*n//d + rng.randrange(0,3)
    inp.append("F %d %d %d"%(s,n,d)); cases.append(('F',s,n,d))
    ms=rng.randrange(0,1000)
    inp.append("C %d %d %d %d"%(t,ms*10**9,n,d)); cases.append(('C',t,ms,n,d))
out=subprocess.run(['./conv'],input="\n".join(inp)+"\n",capture_output=True,text=True).stdout.strip().split("\n")
badF=badC=0; ex=[]
for c,o in zip(cases,out):
    if c[0]=='F':
        _,s,n,d=c; sec=s*d//n; ps=(s*d*10**12//n)-sec*10**12
        if o!="%d %d"%(sec,ps):
            badF+=1
            if len(ex)<3: ex.append((c,o,(sec,ps)))
    else:
        _,t,ms,n,d=c; num=(t*1000+ms)*n; den=1000*d; si=-((-num)//den)
        if o!=str(si):
            badC+=1
            if len(ex)<6: ex.append((c,o,si))
print(badF,badC,len(cases)); print(ex)
