import numpy as np, os, shutil
from digital_rf import DigitalRFWriter, DigitalRFReader
top='/tmp/hw-C01-work/t1'
for cont in (0,1):
  for comp in (0,3):
    shutil.rmtree(top, ignore_errors=True); os.makedirs(top+'/ch')
    n,d=10,1
    start=(1000000000-3)*n
    w=DigitalRFWriter(top+'/ch','i2',3600,1000,start,n,d,is_complex=False,is_continuous=bool(cont),compression_level=comp,marching_periods=False)
    data=np.arange(65,dtype='i2')
    w.rf_write(data); w.close()
    r=DigitalRFReader(top)
    print(cont,comp,r.get_bounds('ch'),(start,start+64))
    for a,b in [(start,start+64),(np.uint64(start+5),np.uint64(start+40)),(np.int64(start+29),np.int64(start+30))]:
        res=r.read(a,b,'ch')
        ok = len(res)==1 and list(res.keys())[0]==a and np.array_equal(list(res.values())[0][:,0], data[int(a-start):int(b-start)+1])
        print('  ',a,b,ok, [(k,type(k).__name__,len(v)) for k,v in res.items()])
    print(sorted(os.listdir(top+'/ch')), [sorted(os.listdir(os.path.join(top,'ch',x))) for x in sorted(os.listdir(top+'/ch')) if x[0]=='2'])
