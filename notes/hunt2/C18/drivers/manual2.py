import os, sys, shutil, tempfile, traceback, io, contextlib
from digital_rf import drf_command, list_drf
print(list_drf.__file__)

def touch(p, content=None):
    os.makedirs(os.path.dirname(p), exist_ok=True)
    with open(p, 'w') as f:
        f.write(content if content is not None else p)

def tree(top):
    out = {}
    for r, ds, fs in os.walk(top, followlinks=True):
        for f in fs:
            p = os.path.join(r, f)
            rel = os.path.relpath(p, top)
            out[rel] = ('L' if os.path.islink(p) else 'F', open(p).read() if os.path.exists(p) else None)
    return out

def run(argv):
    try:
        with contextlib.redirect_stderr(io.StringIO()) as e:
            drf_command.main(argv)
        return None
    except SystemExit as ex:
        return 'SystemExit %s %s' % (ex.code, e.getvalue()[-200:])
    except Exception as ex:
        return repr(ex)

def mk_basic(src):
    sd = '2014-03-09T12-30-30'
    touch(f'{src}/ch0/drf_properties.h5')
    for t in (230, 233, 236):
        touch(f'{src}/ch0/{sd}/rf@1394368{t}.000.h5')
    touch(f'{src}/ch1/drf_properties.h5')
    touch(f'{src}/ch1/{sd}/rf@1394368230.000.h5')
    return sd

def mk_md(mdroot):
    sd = '2014-03-09T12-30-30'
    touch(f'{mdroot}/dmd_properties.h5')
    for t in (230, 232, 234, 236):
        touch(f'{mdroot}/{sd}/metadata@1394368{t}.h5')

base = tempfile.mkdtemp(dir='/tmp/hw-C18-work')
try:
    # A: symlinked nested metadata dir
    for cmd in (['cp'], ['ln'], ['ln', '--symbolic'], ['mv']):
        w = tempfile.mkdtemp(dir=base)
        src, dst, ext = w + '/src', w + '/dst', w + '/ext'
        mk_basic(src); mk_md(ext + '/md')
        os.symlink(ext + '/md', src + '/ch0/metadata')
        listed = set()
        for ch in ('ch0', 'ch0/metadata'):
            listed |= {os.path.relpath(f, src) for f in list_drf.lsdrf(src + '/' + ch, recursive=True)}
        r = run(cmd + [src, dst, '-c', 'ch0', '-c', 'ch0/metadata'])
        got = set(tree(dst)) if os.path.exists(dst) else set()
        print('A', cmd, 'err', r, 'listed', len(listed), 'got', len(got), 'missing', sorted(listed - got)[:3])
    # B: --only with a channel and its timestamped subdir
    for cmd in (['cp'], ['ln'], ['ln', '--symbolic'], ['mv']):
        w = tempfile.mkdtemp(dir=base)
        src, dst = w + '/src', w + '/dst'
        sd = mk_basic(src)
        listed = set()
        for ch in ('ch0', 'ch0/' + sd, 'ch1'):
            listed |= {os.path.relpath(f, src) for f in list_drf.lsdrf(src + '/' + ch, recursive=False)}
        r = run(cmd + [src, dst, '--only', '-c', 'ch0', '-c', 'ch0/' + sd, '-c', 'ch1'])
        got = set(tree(dst)) if os.path.exists(dst) else set()
        print('B', cmd, 'err', r, 'listed', len(listed), 'got', len(got), 'missing', sorted(listed - got)[:3])
    # B2: mv --only md + md/subdir with start and --nodmdprops
    w = tempfile.mkdtemp(dir=base)
    src, dst = w + '/src', w + '/dst'
    mk_md(src + '/md')
    sd = '2014-03-09T12-30-30'
    import datetime
    st = datetime.datetime(2014, 3, 9, 12, 30, 35, tzinfo=datetime.timezone.utc)
    listed = set()
    for ch in ('md', 'md/' + sd):
        listed |= {os.path.relpath(f, src) for f in list_drf.lsdrf(src + '/' + ch, recursive=False, starttime=st, include_dmd_properties=False)}
    r = run(['mv', src, dst, '--only', '-c', 'md', '-c', 'md/' + sd, '-s', '2014-03-09T12:30:35Z', '--nodmdprops'])
    got = set(tree(dst))
    print('B2 mv err', r, 'listed', sorted(listed), 'extra', sorted(got - listed))
finally:
    shutil.rmtree(base)
