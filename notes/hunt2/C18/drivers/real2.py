import os, sys, shutil, tempfile, io, contextlib, random, itertools, re
import numpy as np
import digital_rf as drf
from digital_rf import drf_command, list_drf

def run(argv):
    try:
        with contextlib.redirect_stderr(io.StringIO()):
            drf_command.main(argv)
    except BaseException as ex:
        return repr(ex)

def write(src, rng):
    cfgs = []
    t0 = 1394368230
    for ch, (num, den, dt, cplx, nsub) in {'ch0': (200, 3, 'i2', True, 1), 'chb': (1000, 7, 'f4', False, 3), 'grp/c': (100, 1, 'u1', False, 1)}.items():
        d = os.path.join(src, ch); os.makedirs(d)
        start = (t0 * num) // den + 1
        w = drf.DigitalRFWriter(d, np.dtype(dt), rng.choice([2, 5, 3600]), rng.choice([500, 1000]), start, num, den, 'uuid', rng.choice([0, 1]), bool(rng.randint(0, 1)), is_complex=cplx, num_subchannels=nsub, is_continuous=bool(rng.randint(0, 1)), marching_periods=False)
        pos = 0
        for k in range(rng.randint(3, 8)):
            n = rng.randint(20, 400)
            shape = (n, nsub) if nsub > 1 else (n,)
            if cplx:
                arr = np.zeros(shape, dtype=[('r', dt), ('i', dt)])
                arr['r'] = np.arange(n).reshape(-1, *([1] * (len(shape) - 1))) % 100
                arr['i'] = k
            else:
                arr = (np.arange(n * nsub).reshape(shape) % 120).astype(dt)
            pos += rng.choice([0, 0, 37, 500])
            w.rf_write(arr, pos); pos += n
        w.close()
        if ch != 'grp/c':
            md = os.path.join(d, 'metadata')
            os.makedirs(md)
            mw = drf.DigitalMetadataWriter(md, rng.choice([2, 10, 3600]), rng.choice([1, 2]), num, den, 'metadata')
            for s in range(0, pos, max(1, pos // 7)):
                mw.write(start + s, {'k': s, 'name': 'x%d' % s, 'arr': np.arange(3) + s})
        cfgs.append((ch, start, pos))
    return t0, cfgs

def compare(src, dst, transferred, probs, stats):
    # channels are those with drf props at dst
    for ch in ('ch0', 'chb', 'grp/c'):
        sd, dd = os.path.join(src, ch), os.path.join(dst, ch)
        files = [f for f in transferred if f.startswith(ch + '/') and re.search(r'rf@\d+\.\d{3}\.h5$', f) and '/metadata/' not in f]
        if files and os.path.exists(dd + '/drf_properties.h5'):
            rs = drf.DigitalRFReader(os.path.dirname(sd) if True else sd)
            rd = drf.DigitalRFReader(os.path.dirname(dd))
            name = os.path.basename(ch)
            ps = rs.get_properties(name); pd = rd.get_properties(name)
            if repr(sorted(ps.items())) != repr(sorted(pd.items())): probs.append('props differ ' + ch)
            import h5py
            for f in files:
                with h5py.File(os.path.join(dst, f), 'r') as h:
                    idx = h['rf_data_index'][...]; n = h['rf_data'].shape[0]
                s0 = int(idx[0, 0]); s1 = s0  # global sample range of file
                # end sample: last block start + remaining
                last = int(idx[-1, 0]) + (n - int(idx[-1, 1])) - 1
                bs = rs.get_continuous_blocks(s0, last, name); bd = rd.get_continuous_blocks(s0, last, name)
                if list(bs.items()) != list(bd.items()):
                    probs.append('blocks differ %s %s' % (f, (bs, bd))); continue
                for st, ln in bs.items():
                    a = rs.read_vector_raw(st, ln, name); b = rd.read_vector_raw(st, ln, name)
                    stats['blocks'] += 1
                    if a.dtype != b.dtype or a.tobytes() != b.tobytes(): probs.append('data differ %s' % f)
        mfiles = [f for f in transferred if f.startswith(ch + '/metadata/') and re.search(r'metadata@\d+\.h5$', f)]
        if mfiles and os.path.exists(dd + '/metadata/dmd_properties.h5'):
            ms = drf.DigitalMetadataReader(sd + '/metadata'); md_ = drf.DigitalMetadataReader(dd + '/metadata')
            import h5py
            for f in mfiles:
                with h5py.File(os.path.join(dst, f), 'r') as h:
                    keys = sorted(int(k) for k in h.keys())
                a = ms.read(keys[0], keys[-1]); b = md_.read(keys[0], keys[-1])
                stats['mdsamples'] += len(a)
                if repr(a) != repr(b) or list(a.keys()) != keys and False: probs.append('metadata differ %s' % f)

if __name__ == '__main__':
    lo, hi = int(sys.argv[1]), int(sys.argv[2])
    stats = {'runs': 0, 'blocks': 0, 'mdsamples': 0, 'files': 0}
    nprob = 0
    for seed in range(lo, hi):
        rng = random.Random(seed)
        w = tempfile.mkdtemp(dir='/tmp/hw-C18-work')
        try:
            t0, cfgs = write(w + '/orig', rng)
            for cmd in (['cp'], ['ln'], ['ln', '--symbolic'], ['mv']):
                for trial in range(3):
                    src = w + '/src'; dst = w + '/dst'
                    shutil.copytree(w + '/orig', src)
                    argv = []
                    chs = rng.choice([[], ['ch0', 'ch0/metadata'], ['chb', 'grp'], ['grp/c', 'ch0/metadata', 'ch0'], ['chb/metadata', 'chb', 'chb']])
                    if chs: argv += ['-c', ','.join(chs)]
                    if rng.random() < 0.3: argv += ['--only']
                    if rng.random() < 0.3: argv += ['-R']
                    if rng.random() < 0.7:
                        s = t0 + rng.choice([0, 1, 2, 2.4, 3, 5, 10])
                        argv += ['-s', repr(s)]
                        if rng.random() < 0.5: argv += ['-e', '+' + repr(rng.choice([0, 1, 2.0, 4, 7.5]))]
                    before = {os.path.relpath(os.path.join(r, f), src) for r, _, fs in os.walk(src) for f in fs}
                    err = run(cmd + [src, dst] + argv)
                    probs = []
                    if err: probs.append(err)
                    transferred = {os.path.relpath(os.path.join(r, f), dst) for r, _, fs in os.walk(dst) for f in fs} if os.path.isdir(dst) else set()
                    stats['runs'] += 1; stats['files'] += len(transferred)
                    # readers: source reader must see the original data -> use orig as source reference
                    try:
                        compare(w + '/orig', dst, transferred, probs, stats)
                    except Exception as ex:
                        probs.append('compare raised %r' % ex)
                    if probs:
                        nprob += 1; print(seed, cmd, argv, probs[:3])
                    shutil.rmtree(src); shutil.rmtree(dst, ignore_errors=True)
        finally:
            shutil.rmtree(w)
    print('done', lo, hi, stats, 'problem runs', nprob)
