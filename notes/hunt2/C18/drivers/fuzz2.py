"""Round-2 fuzz for C18.  usage: fuzz2.py LO HI MODE   (MODE: plain | subdir | symlink | history)"""
import os, sys, shutil, tempfile, random, io, contextlib, datetime, collections
from digital_rf import drf_command, list_drf

UTC = datetime.timezone.utc
def touch(p):
    os.makedirs(os.path.dirname(p), exist_ok=True)
    with open(p, 'w') as f:
        f.write('content of ' + p + ' %d' % random.getrandbits(30))

def sdname(t):
    return datetime.datetime.fromtimestamp(t, UTC).strftime('%Y-%m-%dT%H-%M-%S')

def gen_tree(rng, src, mode):
    """return list of channel relpaths, list of timestamped subdir relpaths, t0, span"""
    t0 = rng.choice([0, 1394368230, 1500000000, 1709164800 - 5])
    cad = rng.choice([1, 2, 5, 10, 3600])
    names = rng.sample(['ch0', 'ch1', 'grp/chA', 'grp/chB', 'deep/er/chZ', 'x'], rng.randint(1, 4))
    chans, subdirs = [], []
    span = 0
    for nm in names:
        kinds = [rng.choice(['drf', 'dmd', 'legacy', 'both'])]
        todo = [(nm, kinds[0])]
        if rng.random() < 0.5:
            todo.append((nm + '/metadata', rng.choice(['dmd', 'legacy'])))
            if rng.random() < 0.2:
                todo.append((nm + '/metadata/inner', 'dmd'))
        for ch, kind in todo:
            chans.append(ch)
            d = os.path.join(src, ch)
            if kind in ('drf', 'both'):
                touch(d + '/drf_properties.h5')
            if kind in ('dmd', 'both'):
                touch(d + '/dmd_properties.h5')
            if kind == 'legacy':
                touch(d + '/metadata.h5')
            nfiles = rng.randint(0, 8)
            t = t0 + rng.randint(0, 3)
            for _ in range(nfiles):
                sd = sdname((t // cad) * cad)
                if ch + '/' + sd not in subdirs:
                    subdirs.append(ch + '/' + sd)
                fk = kind if kind not in ('legacy', 'both') else rng.choice(['drf', 'dmd'])
                if fk == 'drf':
                    touch('%s/%s/%s@%d.%03d.h5' % (d, sd, rng.choice(['rf', 'rf', 'xx']), t, rng.choice([0, 0, 500])))
                else:
                    touch('%s/%s/%s@%d.h5' % (d, sd, rng.choice(['metadata', 'md'])  , t))
                if rng.random() < 0.1:
                    touch('%s/%s/tmp.rf@%d.000.h5' % (d, sd, t))
                t += rng.choice([1, 1, 2, 3, cad, 2 * cad])
            span = max(span, t - t0)
            if rng.random() < 0.15:
                os.makedirs(d + '/' + sdname(((t + 5 * cad) // cad) * cad), exist_ok=True)
            if rng.random() < 0.1:
                touch(d + '/stray.txt')
    if mode == 'symlink':
        # replace some directories by symlinks to a copy outside src
        ext = os.path.join(os.path.dirname(src), 'ext')
        cands = [c for c in chans] + subdirs
        rng.shuffle(cands)
        k = 0
        for c in cands[:rng.randint(1, 3)]:
            p = os.path.join(src, c)
            if not os.path.isdir(p) or os.path.islink(p):
                continue
            # do not move a dir that contains a symlink already / is inside a symlink
            if any(os.path.islink(os.path.join(src, *c.split('/')[:i])) for i in range(1, len(c.split('/')) + 1)):
                continue
            tgt = os.path.join(ext, 'd%d' % k); k += 1
            os.makedirs(ext, exist_ok=True)
            shutil.move(p, tgt)
            os.symlink(tgt, p)
    return chans, subdirs, t0, span

def snapshot(top):
    out = {}
    if not os.path.isdir(top):
        return out
    for r, ds, fs in os.walk(top, followlinks=True):
        for f in fs:
            p = os.path.join(r, f)
            st = os.lstat(p)
            if os.path.islink(p):
                out[os.path.relpath(p, top)] = ('L', os.readlink(p), open(p).read() if os.path.exists(p) else None)
            else:
                out[os.path.relpath(p, top)] = ('F', st.st_ino, open(p).read())
    return out

def dirs_of(top):
    out = set()
    for r, ds, fs in os.walk(top, followlinks=True):
        for d in ds:
            out.add(os.path.relpath(os.path.join(r, d), top))
    return out

def gen_opts(rng, chans, subdirs, t0, span, mode):
    argv, kw = [], {}
    groups = sorted({c.split('/')[0] for c in chans} | {'/'.join(c.split('/')[:2]) for c in chans if c.count('/') >= 2})
    pool = list(chans) + groups
    if mode in ('subdir', 'symlink', 'history'):
        pool += subdirs
    entries = []
    if rng.random() < 0.85:
        for _ in range(rng.randint(1, 4)):
            e = rng.choice(pool)
            r = rng.random()
            if r < 0.1: e = e + '/'
            elif r < 0.2: e = './' + e
            elif r < 0.25: e = e + '/.'
            elif r < 0.3 and mode != 'symlink': e = e + '/../' + e.split('/')[-1]
            entries.append(e)
        if rng.random() < 0.05: entries.append('')
        if NOOVERLAP:
            norm = [os.path.normpath('/r/' + e) for e in entries]
            entries = [e for i, e in enumerate(entries)
                       if not any((norm[i] + '/').startswith(norm[j] + '/') and (norm[i] != norm[j] or j < i) for j in range(len(entries)) if j != i)]
        if rng.random() < 0.05: entries.append('nonexistent')
        if rng.random() < 0.5:
            argv += ['-c', ','.join(entries)]
        else:
            for e in entries:
                argv += ['-c', e]
    recursive = rng.random() < 0.5
    if not recursive: argv.append('--only')
    kw['recursive'] = recursive
    if rng.random() < 0.3:
        argv.append('-R'); kw['reverse'] = True
    if rng.random() < 0.6:
        s = t0 + rng.randint(-2, span + 2)
        kw['starttime'] = datetime.datetime.fromtimestamp(s, UTC)
        argv += ['-s', rng.choice([str(s), kw['starttime'].strftime('%Y-%m-%dT%H:%M:%SZ'), '%d.0' % s])]
        if rng.random() < 0.5:
            dlt = rng.randint(0, span + 2)
            kw['endtime'] = datetime.datetime.fromtimestamp(s + dlt, UTC)
            argv += ['-e', rng.choice(['+%d' % dlt, str(s + dlt)])]
    elif rng.random() < 0.3:
        e = t0 + rng.randint(-2, span + 2)
        kw['endtime'] = datetime.datetime.fromtimestamp(e, UTC)
        argv += ['-e', str(e)]
    for pos, neg, key in (('--drf', '--nodrf', 'include_drf'), ('--dmd', '--nodmd', 'include_dmd'),
                          ('--drfprops', '--nodrfprops', 'include_drf_properties'),
                          ('--dmdprops', '--nodmdprops', 'include_dmd_properties')):
        r = rng.random()
        if r < 0.15: argv.append(pos); kw[key] = True
        elif r < 0.4: argv.append(neg); kw[key] = False
    return entries, argv, kw

def expected(src, entries, kw):
    """mapping dest-relative path -> src absolute path from the equivalent listing (union over entries)"""
    exp = collections.OrderedDict()
    for e in (entries or ['']):
        e = e.strip()
        s = os.path.normpath(os.path.join(src, e))
        rel_e = os.path.relpath(s, src)
        for f in list_drf.lsdrf(s, **kw):
            d = os.path.normpath(os.path.join(rel_e, os.path.relpath(f, s)))
            exp.setdefault(d, f)
    return exp

def run(argv):
    try:
        with contextlib.redirect_stderr(io.StringIO()) as e, contextlib.redirect_stdout(io.StringIO()):
            drf_command.main(argv)
        return None
    except SystemExit as ex:
        return 'SystemExit %s %s' % (ex.code, e.getvalue()[-300:])
    except Exception as ex:
        return repr(ex)

def check(cmd, src, dst, before_src, before_dst, exp, err):
    probs = []
    if err: probs.append('error ' + err)
    after_src, after_dst = snapshot(src), snapshot(dst)
    new = {k: v for k, v in after_dst.items() if before_dst.get(k) != v}
    # transferred set
    expset = set(exp)
    # files in exp that were already present identically can't be told apart; treat present+correct as ok
    missing = [k for k in expset if k not in after_dst]
    extra = [k for k in after_dst if k not in expset and k not in before_dst]
    if missing: probs.append('missing %s' % sorted(missing)[:4])
    if extra: probs.append('extra %s' % sorted(extra)[:4])
    for k in expset & set(after_dst):
        srcrel = os.path.relpath(exp[k], src)
        b = before_src.get(srcrel)
        if b is None:
            # source reached through a symlinked dir: read via path
            continue
        a = after_dst[k]
        if a[2] != b[2]: probs.append('content differs %s' % k)
        if cmd == 'ln' and not (a[0] == 'F' and b[0] == 'F' and a[1] == b[1]) and b[0] == 'F':
            probs.append('not a hard link %s' % k)
        if cmd == 'lns' and not (a[0] == 'L' and os.path.realpath(os.path.join(dst, k)) == os.path.realpath(exp[k])):
            probs.append('not a symlink to source %s' % k)
    if cmd in ('cp', 'ln', 'lns'):
        if after_src != before_src: probs.append('source changed')
    else:
        removed = set(before_src) - set(after_src)
        want = {os.path.relpath(f, src) for f in exp.values()}
        want = {w for w in want if w in before_src}
        if not err and removed != want:
            probs.append('mv removed %s extra / %s kept' % (sorted(removed - want)[:3], sorted(want - removed)[:3]))
        if set(after_src) - set(before_src): probs.append('mv added to source')
    return probs

def one(seed, mode):
    rng = random.Random(seed)
    random.seed(seed)
    w = tempfile.mkdtemp(dir=WORK)
    res = []
    try:
        for cmd in ('cp', 'ln', 'lns', 'mv'):
            rng = random.Random(seed)
            base = os.path.join(w, cmd); src = base + '/src'; dst = base + '/dst'
            chans, subdirs, t0, span = gen_tree(rng, src, mode)
            nrounds = rng.randint(2, 3) if mode == 'history' else 1
            for rd in range(nrounds):
                entries, argv, kw = gen_opts(rng, chans, subdirs, t0, span, mode)
                exp = expected(src, entries, kw)
                before_src, before_dst = snapshot(src), snapshot(dst)
                if mode == 'history' and cmd in ('ln', 'lns') and set(exp) & set(before_dst):
                    continue  # pre-existing link targets: ln is documented to fail like ln(1)
                dirs_before = dirs_of(src)
                full = {'cp': ['cp'], 'ln': ['ln'], 'lns': ['ln', rng.choice(['--symbolic', '--sym'])], 'mv': ['mv']}[cmd]
                if rng.random() < 0.5: full = full + [src, dst] + argv
                else: full = full + argv + [src, dst]
                err = run(full)
                probs = check(cmd, src, dst, before_src, before_dst, exp, err)
                if dirs_of(src) != dirs_before: probs.append('source dirs changed')
                if probs:
                    res.append((seed, cmd, rd, ' '.join(a.replace(w, '') for a in full), probs))
    finally:
        shutil.rmtree(w)
    return res

if __name__ == '__main__':
    lo, hi, mode = int(sys.argv[1]), int(sys.argv[2]), sys.argv[3]
    NOOVERLAP = bool(os.environ.get('NOOVERLAP'))
    WORK = os.environ.get('FUZZWORK', '/tmp/hw-C18-work')
    nprob = 0; nrun = 0
    for seed in range(lo, hi):
        r = one(seed, mode)
        for x in r:
            nprob += 1
            print(x)
    print('done', lo, hi, mode, 'problem runs', nprob)
