import os, sys, shutil, tempfile, io, contextlib
from digital_rf import drf_command, list_drf
def touch(p, c=None):
    os.makedirs(os.path.dirname(p), exist_ok=True)
    open(p, 'w').write(c or p)
def run(argv):
    try:
        with contextlib.redirect_stderr(io.StringIO()) as e:
            drf_command.main(argv)
    except BaseException as ex:
        return repr(ex)
def files(top):
    return sorted(os.path.relpath(os.path.join(r, f), top) for r, _, fs in os.walk(top) for f in fs)
SD = '2014-03-09T12-30-30'
def mk(src):
    touch(f'{src}/ch0/drf_properties.h5')
    for t in (230, 233, 236):
        touch(f'{src}/ch0/{SD}/rf@1394368{t}.000.h5')
    touch(f'{src}/ch0/metadata/dmd_properties.h5')
    for t in (230, 232):
        touch(f'{src}/ch0/metadata/{SD}/metadata@1394368{t}.h5')
a = tempfile.mkdtemp(dir='/tmp/hw-C18-work'); b = tempfile.mkdtemp(dir='/dev/shm')
try:
    # cross filesystem
    for cmd in (['cp'], ['mv'], ['ln', '--symbolic'], ['ln']):
        src = a + '/x' + ''.join(cmd) + '/src'; dst = b + '/x' + ''.join(cmd) + '/dst'
        mk(src); before = files(src)
        os.chmod(f'{src}/ch0/{SD}/rf@1394368230.000.h5', 0o444)
        r = run(cmd + [src, dst])
        print('xfs', cmd, r, 'dst', len(files(dst)) if os.path.isdir(dst) else None, 'src', len(files(src)), 'of', len(before))
    # relative path src/dst from cwd, with ln --symbolic
    os.chdir(a); mk('rel/src')
    r = run(['ln', '--symbolic', 'rel/src', 'rel/dst', '-c', 'ch0'])
    print('rel sym', r, [os.path.exists(os.path.join('rel/dst', f)) for f in files('rel/dst')])
    # src path via symlinked dir + '..'
    os.makedirs('deep/inner'); os.symlink(a + '/deep/inner', a + '/lnk'); mk('deep/src2')
    r = run(['cp', 'lnk/../src2', 'out2'])
    print('lnk/.. cp', r, files('out2') if os.path.isdir('out2') else None)
    # second ln into same dest after new data arrived
    mk('inc/src'); r1 = run(['ln', 'inc/src', 'inc/dst'])
    touch(f'inc/src/ch0/{SD}/rf@1394368239.000.h5')
    r2 = run(['ln', 'inc/src', 'inc/dst']); print('incremental ln', r1, r2, len(files('inc/dst')), len(files('inc/src')))
    # cp after ln --symbolic to same dest
    mk('cs/src'); run(['ln', '--symbolic', 'cs/src', 'cs/dst']); r = run(['cp', 'cs/src', 'cs/dst']); print('cp over symlinks', r)
    # mv onto symlinks made by ln --symbolic (dest is symlink to the source file)
    mk('ms/src'); run(['ln', '--symbolic', 'ms/src', 'ms/dst']); r = run(['mv', 'ms/src', 'ms/dst']); print('mv over symlinks', r, [ (f, os.path.islink('ms/dst/'+f)) for f in files('ms/dst')][:2], files('ms/src'))
    # dest inside source
    mk('in/src'); r = run(['cp', 'in/src', 'in/src/zz/copy']); print('cp dest inside', r, len(files('in/src')))
    r = run(['cp', 'in/src', 'in/src/zz/copy']); print('cp dest inside again', r, len(files('in/src')))
    # channel names with spaces / unicode
    mk('sp/src'); os.rename('sp/src/ch0', 'sp/src/ch 0 é'); r = run(['cp', 'sp/src', 'sp/dst', '-c', 'ch 0 é']); print('space', r, len(files('sp/dst')))
finally:
    os.chdir('/'); shutil.rmtree(a); shutil.rmtree(b)
