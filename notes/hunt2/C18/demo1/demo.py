import contextlib, io, os, sys
from digital_rf import drf_command, list_drf

W = sys.argv[1]
SD = "2014-03-09T12-30-30"


def touch(p):
    os.makedirs(os.path.dirname(p), exist_ok=True)
    with open(p, "w") as f:
        f.write("content of " + os.path.basename(p))


def build(top):
    src, store = top + "/src", top + "/store"
    touch(src + "/ch0/drf_properties.h5")
    for t in (230, 233, 236):
        touch("%s/ch0/%s/rf@1394368%d.000.h5" % (src, SD, t))
    # the metadata of ch0 is kept on another volume and linked into the channel directory
    touch(store + "/ch0_metadata/dmd_properties.h5")
    for t in (230, 234):
        touch("%s/ch0_metadata/%s/metadata@1394368%d.h5" % (store, SD, t))
    os.symlink(store + "/ch0_metadata", src + "/ch0/metadata")
    return src, top + "/dst"


def files(top):
    return sorted(
        os.path.relpath(os.path.join(r, f), top)
        for r, _, fs in os.walk(top, followlinks=True)
        for f in fs
    )


bad = []
for name, cmd in (("cp", ["cp"]), ("ln", ["ln"]), ("ln --symbolic", ["ln", "--symbolic"]), ("mv", ["mv"])):
    src, dst = build(os.path.join(W, name.replace(" ", "")))
    chs = ["ch0", "ch0/metadata"]
    # the equivalent listing: drf ls -r src/ch0 src/ch0/metadata
    listed = set()
    for ch in chs:
        listed |= {os.path.relpath(f, src) for f in list_drf.lsdrf(os.path.join(src, ch), recursive=True)}
    err = None
    try:
        with contextlib.redirect_stderr(io.StringIO()):
            drf_command.main(cmd + [src, dst, "-c", ",".join(chs)])
    except BaseException as e:  # noqa
        err = repr(e)
    got = set(files(dst)) if os.path.isdir(dst) else set()
    if err or got != listed:
        bad.append("%s -c ch0,ch0/metadata (ch0/metadata a symlinked channel directory): %d of %d listed files transferred%s, missing %s" % (
            name, len(got & listed), len(listed), " (%s)" % err if err else "", sorted(listed - got)))
# variant without symbolic links: the listing of a timestamped subdirectory of a metadata channel selects the
# latest file of that subdirectory for forward fill, the listing of the whole channel does not
import datetime
SD2 = "2014-03-09T12-30-40"
bad2 = []
for name, cmd in (("cp", ["cp"]), ("mv", ["mv"])):
    top = os.path.join(W, "v" + name)
    src, dst = top + "/src", top + "/dst"
    touch(src + "/md/dmd_properties.h5")
    for sd, t in ((SD, 230), (SD, 232), (SD2, 240), (SD2, 244)):
        touch("%s/md/%s/metadata@1394368%d.h5" % (src, sd, t))
    st = datetime.datetime(2014, 3, 9, 12, 30, 45, tzinfo=datetime.timezone.utc)
    chs = ["md", "md/" + SD]
    listed = set()
    for ch in chs:
        listed |= {os.path.relpath(f, src) for f in list_drf.lsdrf(os.path.join(src, ch), recursive=True, starttime=st)}
    with contextlib.redirect_stderr(io.StringIO()):
        drf_command.main(cmd + [src, dst, "-c", ",".join(chs), "-s", "2014-03-09T12:30:45Z"])
    got = set(files(dst)) if os.path.isdir(dst) else set()
    if got != listed:
        bad2.append("%s missing %s" % (name, sorted(listed - got)))
if bad2:
    bad.append("variant '-c md,md/%s -s 2014-03-09T12:30:45Z': %s" % (SD, "; ".join(bad2)))
if bad:
    print("DEFECT: a -c entry below another -c entry is dropped although the listing of that other entry does not "
          "cover it -> " + " | ".join(bad))
    sys.exit(1)
print("ok: cp, ln, ln --symbolic and mv transferred all listed files")
