#!/bin/bash
# C18 round 2, finding 1: a channel given with -c is silently dropped when its path lies below another
# given channel, although the recursion from that channel does not reach it (symlinked nested channel).
# usage: REPO=<checkout> bash run.sh     exit 1 = defect observed, 0 = not observed
set -u
REPO=${REPO:?set REPO to a digital_rf checkout}
HERE=$(cd "$(dirname "$0")" && pwd)
W=$(mktemp -d)
trap 'rm -rf "$W"' EXIT
mkdir -p "$W/pkg/digital_rf"
cp "$REPO/python/digital_rf/list_drf.py" "$REPO/python/digital_rf/util.py" "$REPO/python/digital_rf/drf_command.py" "$W/pkg/digital_rf/"
: > "$W/pkg/digital_rf/__init__.py"
PYTHONPATH="$W/pkg" ${PYTHON:-/venv/bin/python} "$HERE/demo.py" "$W"
