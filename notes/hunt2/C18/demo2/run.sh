#!/bin/bash
# C18 round 2, finding 2: --only with a channel and one of its timestamped subdirectories in the channel list:
# ln aborts with FileExistsError, mv moves a metadata file the listing does not select.
# usage: REPO=<checkout> bash run.sh     exit 1 = defect observed, 0 = not observed
set -u
REPO=${REPO:?set REPO to a digital_rf checkout}
HERE=$(cd "$(dirname "$0")" && pwd)
W=$(mktemp -d)
trap 'rm -rf "$W"' EXIT
mkdir -p "$W/pkg/digital_rf"
cp "$REPO/python/digital_rf/list_drf.py" "$REPO/python/digital_rf/util.py" "$REPO/python/digital_rf/drf_command.py" "$W/pkg/digital_rf/"
: > "$W/pkg/digital_rf/__init__.py"
PYTHONPATH="$W/pkg" ${PYTHON:-/venv/bin/python} "$HERE/demo.py" "$W"
