import contextlib, datetime, io, os, sys
from digital_rf import drf_command, list_drf

W = sys.argv[1]
SD = "2014-03-09T12-30-30"
SD2 = "2014-03-09T12-30-40"


def touch(p):
    os.makedirs(os.path.dirname(p), exist_ok=True)
    with open(p, "w") as f:
        f.write("content of " + os.path.basename(p))


def build(top):
    src = top + "/src"
    touch(src + "/ch0/drf_properties.h5")
    for t in (230, 233, 236):
        touch("%s/ch0/%s/rf@1394368%d.000.h5" % (src, SD, t))
    touch("%s/ch0/%s/rf@1394368240.000.h5" % (src, SD2))
    touch(src + "/ch0/metadata/dmd_properties.h5")
    for t in (230, 232, 234, 236):
        touch("%s/ch0/metadata/%s/metadata@1394368%d.h5" % (src, SD, t))
    touch(src + "/ch1/drf_properties.h5")
    touch("%s/ch1/%s/rf@1394368230.000.h5" % (src, SD))
    return src, top + "/dst"


def files(top):
    return sorted(
        os.path.relpath(os.path.join(r, f), top) for r, _, fs in os.walk(top) for f in fs
    )


def run(argv):
    try:
        with contextlib.redirect_stderr(io.StringIO()):
            drf_command.main(argv)
    except BaseException as e:  # noqa
        return repr(e)
    return None


bad = []

# (a) ln: ch0 (not recursive) lists the files of all its subdirectories, ch0/<subdir> lists them again
chs = ["ch0", "ch0/" + SD, "ch0/metadata", "ch1"]
for name, cmd in (("ln", ["ln"]), ("ln --symbolic", ["ln", "--symbolic"])):
    src, dst = build(os.path.join(W, name.replace(" ", "")))
    listed = set()
    for ch in chs:
        listed |= {os.path.relpath(f, src) for f in list_drf.lsdrf(os.path.join(src, ch), recursive=False)}
    err = run(cmd + [src, dst, "--only", "-c", ",".join(chs)])
    got = set(files(dst)) if os.path.isdir(dst) else set()
    if err or got != listed:
        bad.append("%s --only -c %s: %s, %d of %d listed files linked" % (
            name, ",".join(chs), err, len(got & listed), len(listed)))

# (b) mv with a start time, properties stay behind
src, dst = build(os.path.join(W, "mv"))
chs = ["ch0/metadata", "ch0/metadata/" + SD]
st = datetime.datetime(2014, 3, 9, 12, 30, 35, tzinfo=datetime.timezone.utc)
listed = set()
for ch in chs:
    listed |= {os.path.relpath(f, src) for f in list_drf.lsdrf(
        os.path.join(src, ch), recursive=False, starttime=st, include_dmd_properties=False)}
before = set(files(src))
err = run(["mv", src, dst, "--only", "-c", ",".join(chs), "-s", "2014-03-09T12:30:35Z", "--nodmdprops"])
got = set(files(dst)) if os.path.isdir(dst) else set()
removed = before - set(files(src))
if err or got != listed or removed != listed:
    bad.append("mv --only -c %s -s 2014-03-09T12:30:35Z --nodmdprops: %s listing selects %s, moved in addition %s" % (
        ",".join(chs), err or "", sorted(os.path.basename(f) for f in listed), sorted(got - listed)))

if bad:
    print("DEFECT: channel list naming a channel and one of its timestamped subdirectories with --only -> " + " | ".join(bad))
    sys.exit(1)
print("ok: ln linked every listed file once, mv moved exactly the listed files")
