/* script-driven writer linked against the worktree's rf_write_hdf5.c
 * commands (stdin):
 *   open <dir> <type> <subdir_s> <file_ms> <start> <num> <den> <comp> <cksum> <cplx> <nsub> <cont>
 *        type: one of i1 i2 i4 i8 u1 u2 u4 u8 f4 f8, prefixed by < or >   (e.g. <i2, >f4)
 *   w <rel_index> <n>                    digital_rf_write_hdf5
 *   b <k> <g0> <d0> ... <n>              digital_rf_write_blocks_hdf5
 *   close
 * after every command prints "rc <code>"
 * data value for absolute sample s, subchannel c, component p:  v = (s*7 + c*3 + p*5) mod 101  (fits all types)
 */
#include <stdio.h>
#include <stdlib.h>
#include <string.h>
#include <stdint.h>
#include <inttypes.h>
#include "digital_rf.h"

static hid_t gettype(const char *t, int *size, char *kind, int *be)
{
	*be = (t[0] == '>');
	*kind = t[1];
	*size = t[2] - '0';
	if (*kind == 'i') {
		switch (*size) {
		case 1: return *be ? H5T_STD_I8BE : H5T_STD_I8LE;
		case 2: return *be ? H5T_STD_I16BE : H5T_STD_I16LE;
		case 4: return *be ? H5T_STD_I32BE : H5T_STD_I32LE;
		case 8: return *be ? H5T_STD_I64BE : H5T_STD_I64LE;
		}
	} else if (*kind == 'u') {
		switch (*size) {
		case 1: return *be ? H5T_STD_U8BE : H5T_STD_U8LE;
		case 2: return *be ? H5T_STD_U16BE : H5T_STD_U16LE;
		case 4: return *be ? H5T_STD_U32BE : H5T_STD_U32LE;
		case 8: return *be ? H5T_STD_U64BE : H5T_STD_U64LE;
		}
	} else {
		switch (*size) {
		case 4: return *be ? H5T_IEEE_F32BE : H5T_IEEE_F32LE;
		case 8: return *be ? H5T_IEEE_F64BE : H5T_IEEE_F64LE;
		}
	}
	return -1;
}

static void rev(unsigned char *p, int n)
{
	int i; unsigned char t;
	for (i = 0; i < n / 2; i++) { t = p[i]; p[i] = p[n - 1 - i]; p[n - 1 - i] = t; }
}

static void put(unsigned char *dst, char kind, int size, int be, uint64_t v)
{
	if (kind == 'f') {
		if (size == 4) { float f = (float)v; memcpy(dst, &f, 4); }
		else { double f = (double)v; memcpy(dst, &f, 8); }
	} else {
		/* little-endian host: low bytes */
		memcpy(dst, &v, size);
	}
	if (be) rev(dst, size);
}

int main(void)
{
	char cmd[64];
	Digital_rf_write_object *w = NULL;
	int size = 0, be = 0, cplx = 0, nsub = 1;
	char kind = 'i';
	uint64_t start = 0;
	while (scanf("%63s", cmd) == 1) {
		if (!strcmp(cmd, "open")) {
			char dir[4096], t[8];
			uint64_t sub, fms, num, den; int comp, ck, cont;
			if (scanf("%4095s %7s %" SCNu64 " %" SCNu64 " %" SCNu64 " %" SCNu64 " %" SCNu64 " %d %d %d %d %d",
				dir, t, &sub, &fms, &start, &num, &den, &comp, &ck, &cplx, &nsub, &cont) != 12) return 2;
			hid_t ty = gettype(t, &size, &kind, &be);
			w = digital_rf_create_write_hdf5(dir, ty, sub, fms, start, num, den, "uuid-x", comp, ck, cplx, nsub, cont, 0);
			printf("rc %d\n", w ? 0 : -1);
		} else if (!strcmp(cmd, "w") || !strcmp(cmd, "b")) {
			uint64_t g[64], d[64], n, k = 1, i; int c, p, rc;
			if (cmd[0] == 'w') { if (scanf("%" SCNu64 " %" SCNu64, &g[0], &n) != 2) return 2; d[0] = 0; }
			else {
				if (scanf("%" SCNu64, &k) != 1) return 2;
				for (i = 0; i < k; i++) if (scanf("%" SCNu64 " %" SCNu64, &g[i], &d[i]) != 2) return 2;
				if (scanf("%" SCNu64, &n) != 1) return 2;
			}
			int ncomp = cplx ? 2 : 1;
			unsigned char *buf = malloc((size_t)n * nsub * ncomp * size + 16);
			uint64_t bi = 0;
			for (i = 0; i < n; i++) {
				while (bi + 1 < k && d[bi + 1] <= i) bi++;
				uint64_t s = start + g[bi] + (i - d[bi]);
				for (c = 0; c < nsub; c++) for (p = 0; p < ncomp; p++)
					put(buf + ((i * nsub + c) * ncomp + p) * size, kind, size, be, (s * 7 + c * 3 + p * 5) % 101);
			}
			if (!w) { printf("rc -99\n"); free(buf); continue; }
			if (cmd[0] == 'w') rc = digital_rf_write_hdf5(w, g[0], buf, n);
			else rc = digital_rf_write_blocks_hdf5(w, g, d, k, buf, n);
			printf("rc %d\n", rc);
			free(buf);
		} else if (!strcmp(cmd, "close")) {
			int rc = w ? digital_rf_close_write_hdf5(w) : 0;
			w = NULL;
			printf("rc %d\n", rc);
		} else return 3;
		fflush(stdout);
	}
	if (w) digital_rf_close_write_hdf5(w);
	return 0;
}
