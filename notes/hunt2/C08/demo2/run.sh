#!/bin/bash
# demo2: every read of a channel with a large subdir_cadence_secs / file_cadence_millisecs ratio
#        materialises all file times of the sub-directory -> MemoryError on a fully covered range
# usage: REPO=<checkout> bash run.sh     exit 0 = behaves as the property says, 1 = violation observed
set -u
HERE="$(cd "$(dirname "$0")" && pwd)"
REPO="${REPO:?set REPO=<path to a checkout>}"
W="$(mktemp -d)"
trap 'rm -rf "$W"' EXIT
gcc -O1 -w -I"$REPO/c/include" -I/usr/include/hdf5/serial "$HERE/driver.c" "$REPO/c/lib/rf_write_hdf5.c" \
    -L/usr/lib/x86_64-linux-gnu/hdf5/serial -lhdf5 -lm -o "$W/driver" || { echo "build failed"; exit 2; }
/tmp/agent-tools/mkscratch.sh "$REPO" "$W/pkg" >/dev/null || { echo "mkscratch failed"; exit 2; }
mkdir -p "$W/top/ch"
# "keep everything in one sub-directory": subdir cadence 100 years, 1 s files, 100 Hz, 250 samples
"$W/driver" >/dev/null 2>&1 <<EOS
open $W/top/ch <i2 3153600000 1000 160000000000 100 1 0 0 0 1 0
w 0 250
close
EOS
PYTHONPATH="$W/pkg" /venv/bin/python - "$W" <<'EOP'
import sys, warnings, resource, time
warnings.simplefilter("ignore")
# keep the demo harmless: address space limited to 8 GiB (the unmodified reader asks for 23.5 GiB per temporary)
resource.setrlimit(resource.RLIMIT_AS, (8 << 30, 8 << 30))
import digital_rf
W = sys.argv[1]
assert digital_rf.__file__.startswith(W)
r = digital_rf.DigitalRFReader(W + "/top")
b = r.get_bounds("ch")
bad = []
if b != (160000000000, 160000000249):
    bad.append("bounds %r" % (b,))
t = time.time()
for name, call in (("get_continuous_blocks(bounds)", lambda: dict(r.get_continuous_blocks(b[0], b[1], "ch"))),
                   ("read_vector_raw(bounds[0], 10)", lambda: list(r.read_vector_raw(b[0], 10, "ch"))),
                   ("get_properties(sample=bounds[0])", lambda: r.get_properties("ch", sample=b[0])["sequence_num"])):
    try:
        v = call()
    except BaseException as e:
        bad.append("%s raised %s: %s" % (name, type(e).__name__, str(e)[:70]))
        continue
    exp = {"get_continuous_blocks(bounds)": {160000000000: 250},
           "read_vector_raw(bounds[0], 10)": [(s * 7) % 101 for s in range(b[0], b[0] + 10)],
           "get_properties(sample=bounds[0])": 0}[name]
    if v != exp:
        bad.append("%s = %r" % (name, v))
if bad:
    print("VIOLATION: get_bounds reports %r, but " % (b,) + " | ".join(bad))
    sys.exit(1)
print("ok: channel with subdir_cadence_secs=3153600000 read coherently in %.2f s" % (time.time() - t))
EOP
exit $?
