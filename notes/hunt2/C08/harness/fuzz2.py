"""Round-2 harness for C08: long-lived readers over growing / shrinking channels, split top-level dirs,
interleaved query kinds, sub_channel variants.  Oracle = independent h5py scan of rf@ files + script model."""
import os, sys, random, shutil, subprocess, glob, re, collections, traceback, warnings
import numpy as np, h5py

sys.path.insert(0, "/tmp/hw-C08-work/pkg")
import digital_rf
from digital_rf import DigitalRFReader

assert digital_rf.__file__.startswith("/tmp/hw-C08-work/pkg"), digital_rf.__file__
DRIVER = "/tmp/hw-C08-work/driver"
RATES = [(200, 3), (10, 3), (2, 3), (3, 7), (1000, 7), (100000000, 7), (1000000, 3), (123457, 1000), (65536, 10),
         (999, 1000), (1, 1), (37, 1), (100, 1), (1000, 1), (1001, 1), (22050, 1), (48000, 1), (25, 2), (1, 3)]
TYPES = ["i1", "i2", "i4", "i8", "u1", "u2", "u4", "u8", "f4", "f8"]
FLOATOF = {"i1": "f4", "i2": "f4", "i4": "f8", "i8": "f8", "u1": "f4", "u2": "f4", "u4": "f8", "u8": "f8", "f4": "f4", "f8": "f8"}


class Drv:
    def __init__(self):
        self.p = subprocess.Popen([DRIVER], stdin=subprocess.PIPE, stdout=subprocess.PIPE, stderr=subprocess.DEVNULL, text=True)

    def cmd(self, s):
        self.p.stdin.write(s + "\n")
        self.p.stdin.flush()
        line = self.p.stdout.readline()
        assert line.startswith("rc "), (s, line)
        return int(line.split()[1])

    def end(self):
        self.p.stdin.close()
        self.p.wait()


def val(s, c, p):
    return (s * 7 + c * 3 + p * 5) % 101


def scan(chdirs):
    """independent picture: dict sample -> (file, row index) from all rf@ files in the channel dirs"""
    pic = {}
    for chdir in chdirs:
        for f in glob.glob(os.path.join(chdir, "*", "rf@*.h5")):
            with h5py.File(f, "r") as h:
                idx = h["rf_data_index"][...]
                n = h["rf_data"].shape[0]
                for r in range(idx.shape[0]):
                    s0 = int(idx[r, 0]); i0 = int(idx[r, 1])
                    i1 = int(idx[r + 1, 1]) if r + 1 < idx.shape[0] else n
                    for k in range(i1 - i0):
                        assert s0 + k not in pic, ("dup sample", f, s0 + k)
                        pic[s0 + k] = (f, i0 + k)
    return pic


def blocks_of(samples, lo, hi):
    ss = sorted(s for s in samples if lo <= s <= hi)
    out = collections.OrderedDict()
    cur = None
    for s in ss:
        if cur is not None and s == cur + out[cur]:
            out[cur] += 1
        else:
            cur = s
            out[cur] = 1
    return out


class Fail(Exception):
    pass


def check_reader(rd, pic, written, cfg, rng, nq, tag):
    """all coherence checks of the property's text against the picture `pic` (set of present samples)"""
    ch = "ch"
    nsub, cplx, ty = cfg["nsub"], cfg["cplx"], cfg["ty"]
    present = pic
    b = rd.get_bounds(ch)
    if not present:
        if b != (None, None):
            raise Fail("%s bounds %r on empty channel" % (tag, b))
        return
    lo, hi = min(present), max(present)
    if b != (lo, hi):
        raise Fail("%s bounds %r expected %r" % (tag, b, (lo, hi)))
    allb = blocks_of(present, lo, hi)
    edges = []
    for k, n in allb.items():
        edges += [k - 1, k, k + 1, k + n - 2, k + n - 1, k + n]
    # file edges
    fedges = []
    num, den, fms = cfg["num"], cfg["den"], cfg["fms"]
    for s in list(allb.keys())[:50]:
        ms = (s * den * 1000) // num
        k = ms // fms
        for kk in (k, k + 1):
            fs = -((-kk * fms * num) // (den * 1000))
            fedges += [fs - 1, fs, fs + 1]
    edges = [e for e in edges + fedges if e >= 0]

    def pick():
        r = rng.random()
        if r < 0.7:
            return rng.choice(edges)
        if r < 0.9:
            return rng.randint(max(0, lo - 5), hi + 5)
        return rng.choice([max(0, lo - rng.randint(1, 10 ** 4)), hi + rng.randint(1, 10 ** 4)])

    def expect_data(s0, n, sub=None):
        a = np.array([[[val(s, c, p) for p in range(2 if cplx else 1)] for c in range(nsub)] for s in range(s0, s0 + n)])
        return a

    def as_num(arr):
        """convert reader output (any layout) to array [n, nsub?, comp] of python-comparable numbers"""
        arr = np.asarray(arr)
        if arr.dtype.names:
            out = np.stack([arr["r"].astype("f8"), arr["i"].astype("f8")], axis=-1)
        elif arr.dtype.kind == "c":
            out = np.stack([arr.real.astype("f8"), arr.imag.astype("f8")], axis=-1)
        else:
            out = arr.astype("f8")[..., None]
        return out

    def check_block(k, arr, sub, what):
        n = len(arr)
        got = as_num(arr)
        exp = expect_data(k, n).astype("f8")
        if sub is None:
            if got.shape != exp.shape:
                raise Fail("%s %s shape %r vs %r" % (tag, what, got.shape, exp.shape))
        else:
            exp = exp[:, sub, :]
            if got.shape != exp.shape:
                raise Fail("%s %s sub shape %r vs %r" % (tag, what, got.shape, exp.shape))
        # compare only on samples really written (fill values elsewhere in continuous mode)
        mask = np.array([(s in written) for s in range(k, k + n)])
        if not np.array_equal(got[mask], exp[mask]):
            raise Fail("%s %s values differ at block %d len %d" % (tag, what, k, n))

    for q in range(nq):
        # interleave other query kinds to disturb cached state
        r = rng.random()
        if r < 0.15:
            rd.get_bounds(ch)
        elif r < 0.3:
            s = pick()
            try:
                pr = rd.get_properties(ch, sample=s)
                okp = True
            except IOError:
                okp = False
            # file exists iff some present sample shares the file
            ms = (s * den * 1000) // num
            k = ms // fms
            fs = -((-k * fms * num) // (den * 1000)); fe = -((-(k + 1) * fms * num) // (den * 1000)) - 1
            has = any((x in present) for x in range(fs, fe + 1)) if fe - fs < 5000 else None
            if has is not None and has != okp:
                raise Fail("%s get_properties(sample=%d) ok=%r but file present=%r" % (tag, s, okp, has))
        elif r < 0.35:
            try:
                rd.read(lo, lo, ch, sub_channel=nsub)
                raise Fail("%s sub_channel=nsub accepted" % tag)
            except ValueError:
                pass
        a, c = pick(), pick()
        if a > c:
            a, c = c, a
        if c - a > 20000:
            c = a + 20000
        exp = blocks_of(present, a, c)
        gb = rd.get_continuous_blocks(a, c, ch)
        if list(gb.items()) != list(exp.items()):
            raise Fail("%s get_continuous_blocks(%d,%d) = %r expected %r" % (tag, a, c, dict(gb), dict(exp)))
        if not all(type(v) is int for v in gb.values()) and q == 0:
            pass
        dd = rd.read(a, c, ch)
        if [(k, len(v)) for k, v in dd.items()] != list(exp.items()):
            raise Fail("%s read(%d,%d) lens %r expected %r" % (tag, a, c, [(k, len(v)) for k, v in dd.items()], dict(exp)))
        for k, v in dd.items():
            check_block(k, v, None, "read(%d,%d)" % (a, c))
        # split
        if c > a:
            m = rng.choice([e for e in edges if a <= e < c] or [rng.randint(a, c - 1)])
            d1 = rd.read(a, m, ch); d2 = rd.read(m + 1, c, ch)
            merged = collections.OrderedDict()
            for k, v in list(d1.items()) + list(d2.items()):
                if merged:
                    lk = next(reversed(merged))
                    if lk + len(merged[lk]) == k:
                        merged[lk] = np.concatenate((merged[lk], v))
                        continue
                merged[k] = v
            if [(k, len(v)) for k, v in merged.items()] != list(exp.items()):
                raise Fail("%s split read(%d,%d | %d) lens differ" % (tag, a, c, m))
            for k in merged:
                x, y = merged[k], dd[k]
                if x.dtype.newbyteorder("=") != y.dtype.newbyteorder("=") or x.astype(x.dtype.newbyteorder("=")).tobytes() != y.astype(y.dtype.newbyteorder("=")).tobytes():
                    raise Fail("%s split data differ (%d,%d | %d)" % (tag, a, c, m))
        # subchannel
        sc = rng.randrange(nsub)
        scv = rng.choice([sc, np.int64(sc), np.uint8(sc), sc - nsub])
        ds = rd.read(a, c, ch, sub_channel=scv)
        if list(ds.keys()) != list(dd.keys()):
            raise Fail("%s sub read keys differ" % tag)
        for k in ds:
            if ds[k].ndim != 1 or ds[k].astype(ds[k].dtype.newbyteorder("=")).tobytes() != dd[k][:, sc].astype(ds[k].dtype.newbyteorder("=")).tobytes():
                raise Fail("%s sub_channel=%r differs from column %d of full read (%d,%d)" % (tag, scv, sc, a, c))
        # vector reads
        s0 = pick()
        n = rng.choice([1, 1, 2, nsub, 3, 5, rng.randint(1, 300)])
        covered = all((x in present) for x in range(s0, s0 + n))
        for meth in ("read_vector_raw", "read_vector", "read_vector_1d"):
            for sub in ((None, sc) if meth != "read_vector_1d" else (0, sc)):
                try:
                    z = getattr(rd, meth)(s0, n, ch, sub) if meth != "read_vector_1d" or sub != 0 else rd.read_vector_1d(s0, n, ch)
                    ok = True
                except IOError:
                    ok = False
                if ok != covered:
                    raise Fail("%s %s(%d,%d,sub=%r) ok=%r covered=%r" % (tag, meth, s0, n, sub, ok, covered))
                if not ok:
                    continue
                eshape = (n,) if (sub is not None or nsub == 1) else (n, nsub)
                if z.shape != eshape:
                    raise Fail("%s %s(%d,%d,sub=%r) shape %r expected %r" % (tag, meth, s0, n, sub, z.shape, eshape))
                if meth != "read_vector_raw":
                    fl = FLOATOF[ty]
                    ed = np.dtype(("c8" if fl == "f4" else "c16") if cplx else fl)
                    if z.dtype != ed:
                        raise Fail("%s %s dtype %r expected %r (%s)" % (tag, meth, z.dtype, ed, ty))
                got = as_num(z)
                exp_ = expect_data(s0, n).astype("f8")
                exp_ = exp_[:, sub, :] if sub is not None else (exp_[:, 0, :] if nsub == 1 else exp_)
                mask = np.array([(s in written) for s in range(s0, s0 + n)])
                if got.shape != exp_.shape or not np.array_equal(got[mask], exp_[mask]):
                    raise Fail("%s %s(%d,%d,sub=%r) values differ" % (tag, meth, s0, n, sub))


def one_channel(seed, root):
    rng = random.Random(seed)
    num, den = rng.choice(RATES)
    rate = num / den
    # file cadence: aim for 0.3..40 samples per file
    spf = rng.choice([0.3, 0.7, 1, 1.5, 2, 3, 5, 8, 13, 40])
    fms = max(1, int(round(spf / rate * 1000)))
    fms = rng.choice([fms, fms, max(1, fms // 2 * 2), 1000 * max(1, fms // 1000)]) or 1
    k = rng.choice([1, 1, 2, 3, 5, 10])
    # subdir cadence: multiple of lcm(fms,1000)/1000
    from math import gcd
    l = fms * 1000 // gcd(fms, 1000)
    sub = (l // 1000) * k
    assert (sub * 1000) % fms == 0
    ty = rng.choice(TYPES)
    be = rng.choice("<>")
    cplx = rng.randrange(2)
    nsub = rng.choice([1, 1, 2, 3, 5])
    cont = rng.randrange(2)
    comp = rng.choice([0, 0, 1, 9])
    ck = rng.choice([0, 0, 1])
    chunked = bool(ck or comp or not cont)
    if chunked and int((fms / 1000.0) * (num / den)) < 1:
        comp = ck = 0; cont = 1; chunked = False  # writer cannot write chunked with <1 sample/file (known)
    base = rng.choice([0, 3, int(rate * 1.6e9), int(rate * 1.6e9) // 1 + 1, ((int(1.6e9) // sub) * sub * num) // den,
                       -((-(int(1.6e9) // sub) * sub * num) // den), int(rate * 3e9)])
    cfg = dict(num=num, den=den, fms=fms, sub=sub, ty=ty, be=be, cplx=cplx, nsub=nsub, cont=cont, comp=comp, ck=ck, base=base)
    top = os.path.join(root, "c%d" % seed)
    chdir = os.path.join(top, "ch")
    os.makedirs(chdir)
    spfile = max(1, int(rate * fms / 1000))
    drv = Drv()
    written = set()
    cursor = 0  # relative
    rd_long = None
    mode_split = rng.random() < 0.35
    top2 = os.path.join(root, "c%d_b" % seed)
    nstages = rng.randint(1, 4)
    deleted = False
    try:
        for stage in range(nstages):
            rc = drv.cmd("open %s %s%s %d %d %d %d %d %d %d %d %d %d" % (chdir, be, ty, sub, fms, base, num, den, comp, ck, cplx, nsub, cont))
            if rc != 0:
                raise Fail("open failed")
            if stage > 0:
                # restart: must begin in a new file -> advance cursor to a later file
                s_abs = base + cursor
                ms = (s_abs * den * 1000) // num
                kf = ms // fms + rng.choice([1, 1, 2, 5])
                fs = -((-kf * fms * num) // (den * 1000))
                cursor = max(cursor, fs - base) + rng.choice([0, 0, 1, 2])
                # make sure it is in a file later than any published one
            for op in range(rng.randint(1, 8)):
                gap = rng.choice([0, 0, 0, 1, 2, spfile, spfile + 1, max(0, spfile - 1), spfile * rng.randint(2, 12)])
                if stage > 0 and op == 0:
                    gap = 0
                n = rng.choice([1, 1, 2, 3, spfile, spfile + 1, 2 * spfile + 1, rng.randint(1, 6 * spfile + 5)])
                n = min(n, 4000)
                if not cont and rng.random() < 0.3 and n >= 4:
                    # write_blocks
                    kblk = rng.randint(2, min(5, n))
                    ds = sorted(rng.sample(range(1, n), kblk - 1))
                    g = [cursor + gap]; d = [0]
                    for di in ds:
                        g.append(g[-1] + (di - d[-1]) + rng.choice([1, 2, spfile, spfile * 3 + 1]))
                        d.append(di)
                    rc = drv.cmd("b %d %s %d" % (kblk, " ".join("%d %d" % (a, b_) for a, b_ in zip(g, d)), n))
                    if rc != 0:
                        raise Fail("write_blocks rc %d" % rc)
                    for bi in range(kblk):
                        ln = (d[bi + 1] if bi + 1 < kblk else n) - d[bi]
                        written.update(range(base + g[bi], base + g[bi] + ln))
                    cursor = g[-1] + (n - d[-1])
                else:
                    rc = drv.cmd("w %d %d" % (cursor + gap, n))
                    if rc != 0:
                        raise Fail("write rc %d (cursor %d gap %d n %d)" % (rc, cursor, gap, n))
                    written.update(range(base + cursor + gap, base + cursor + gap + n))
                    cursor = cursor + gap + n
                if rng.random() < 0.25 and rd_long is not None:
                    # query while the writer is open (last file still tmp.)
                    pic = scan([chdir] + ([os.path.join(top2, "ch")] if os.path.isdir(os.path.join(top2, "ch")) else []))
                    check_reader(rd_long, pic, written, cfg, rng, 4, "seed %d stage %d open-writer long-lived" % (seed, stage))
            drv.cmd("close")
            pic = scan([chdir] + ([os.path.join(top2, "ch")] if os.path.isdir(os.path.join(top2, "ch")) else []))
            if not cont or chunked:
                if set(pic) != written and not deleted:
                    raise Fail("writer/oracle mismatch: %d on disk, %d written" % (len(pic), len(written)))
            else:
                if not written <= set(pic) and not deleted:
                    raise Fail("writer/oracle mismatch (continuous)")
            if mode_split:
                # spread the files over two top-level directories (same channel name, same properties)
                os.makedirs(os.path.join(top2, "ch"), exist_ok=True)
                if not os.path.exists(os.path.join(top2, "ch", "drf_properties.h5")):
                    shutil.copy(os.path.join(chdir, "drf_properties.h5"), os.path.join(top2, "ch"))
                for f in sorted(glob.glob(os.path.join(chdir, "*", "rf@*.h5"))):
                    if rng.random() < 0.4:
                        dst = os.path.join(top2, "ch", os.path.basename(os.path.dirname(f)))
                        os.makedirs(dst, exist_ok=True)
                        os.rename(f, os.path.join(dst, os.path.basename(f)))
                dirs = [top, top2] if rng.random() < 0.5 else [top2, top]
                chdirs = [chdir, os.path.join(top2, "ch")]
            else:
                dirs = [top]
                chdirs = [chdir]
            pic = scan(chdirs)
            if rd_long is None or (mode_split and set(rd_long._top_level_dir_dict) != set(map(os.path.abspath, dirs))):
                rd_long = DigitalRFReader(dirs if len(dirs) > 1 else dirs[0])
            fresh = DigitalRFReader(dirs if len(dirs) > 1 else dirs[0])
            check_reader(fresh, pic, written, cfg, rng, 10, "seed %d stage %d fresh" % (seed, stage))
            check_reader(rd_long, pic, written, cfg, rng, 10, "seed %d stage %d long-lived" % (seed, stage))
            if rng.random() < 0.4:
                # ring-buffer like: delete some of the oldest files (and empty dirs), query the same reader again
                files = sorted(glob.glob(os.path.join(top, "ch", "*", "rf@*.h5")) + glob.glob(os.path.join(top2, "ch", "*", "rf@*.h5")),
                               key=lambda f: float(re.search(r"rf@(\d+\.\d+)\.h5", f).group(1)))
                nd = rng.randint(1, max(1, len(files) // 2))
                if rng.random() < 0.3:
                    victims = rng.sample(files, min(nd, len(files)))
                else:
                    victims = files[:nd]
                for f in victims:
                    os.remove(f)
                    try:
                        os.rmdir(os.path.dirname(f))
                    except OSError:
                        pass
                deleted = True
                pic = scan(chdirs)
                check_reader(rd_long, pic, written, cfg, rng, 8, "seed %d stage %d long-lived after delete" % (seed, stage))
                check_reader(fresh, pic, written, cfg, rng, 4, "seed %d stage %d fresh-reader after delete" % (seed, stage))
    finally:
        drv.end()
        shutil.rmtree(top, ignore_errors=True)
        shutil.rmtree(top2, ignore_errors=True)
    return cfg


if __name__ == "__main__":
    s0, s1 = int(sys.argv[1]), int(sys.argv[2])
    root = sys.argv[3]
    os.makedirs(root, exist_ok=True)
    warnings.simplefilter("ignore")
    nfail = 0
    for seed in range(s0, s1):
        try:
            one_channel(seed, root)
        except Fail as e:
            nfail += 1
            print("FAIL", e, flush=True)
        except Exception as e:
            nfail += 1
            print("EXC seed", seed, repr(e), flush=True)
            traceback.print_exc()
    print("done", s0, s1, "failures", nfail, flush=True)
