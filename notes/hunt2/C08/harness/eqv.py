import sys, random, importlib.util, warnings
warnings.simplefilter("ignore")
def load(path, name):
    sys.path.insert(0, path); 
    import digital_rf
    m = digital_rf.DigitalRFReader._get_file_list
    sys.path.pop(0)
    for k in [k for k in sys.modules if k.startswith('digital_rf')]: del sys.modules[k]
    return m
old = load('/tmp/hw-C08-work/pkg','a'); new = load('/tmp/hw-C08-work/pkgfix','b')
rng = random.Random(2); n=0
for it in range(40000):
    num,den = rng.choice([(200,3),(10,3),(2,3),(3,7),(1000,7),(100000000,7),(1,1),(37,1),(1000,1),(48000,1),(1,3),(999,1000)])
    fms = rng.choice([1,2,5,10,40,125,250,500,1000,2000,3000,7000,60000])
    from math import gcd
    l = fms*1000//gcd(fms,1000); sub = (l//1000)*rng.choice([1,1,2,3,10,60])
    s0 = rng.choice([0, rng.randint(0,50), rng.randint(-2000,2000), int(1.6e9*num/den)+rng.randint(-3000,3000)])
    s1 = s0 + rng.choice([0,0,1,2,rng.randint(0,50),rng.randint(0,300)])
    if (s1-s0)*den/num/sub > 300 or sub*1000/fms > 20000: continue
    a = old(s0,s1,num,den,sub,fms); b = new(s0,s1,num,den,sub,fms)
    if len(a) > 20000: continue
    n+=1
    if a != b: print("DIFF",s0,s1,num,den,sub,fms,a[:3],b[:3],len(a),len(b)); break
print("compared",n)
