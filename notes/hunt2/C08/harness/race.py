import sys, os, subprocess, threading, time, shutil, warnings
sys.path.insert(0, "/tmp/hw-C08-work/pkg")
import digital_rf
warnings.simplefilter("ignore")
top='/tmp/hw-C08-work/race/top'; shutil.rmtree('/tmp/hw-C08-work/race',ignore_errors=True); os.makedirs(top+'/ch')
p=subprocess.Popen(['/tmp/hw-C08-work/driver'],stdin=subprocess.PIPE,stdout=subprocess.DEVNULL,text=True)
base=1600000000*1000
p.stdin.write('open %s/ch <i2 1 10 %d 1000 1 0 0 0 1 0\n'%(top,base)); p.stdin.flush()
stop=False
def wr():
    cur=0
    while not stop:
        p.stdin.write('w %d 7\n'%cur); cur+=7
        if cur%70==0: p.stdin.flush(); time.sleep(0.003)
    p.stdin.write('close\n'); p.stdin.close()
t=threading.Thread(target=wr); t.start()
time.sleep(0.3)
r=digital_rf.DigitalRFReader(top)
n=0; bad=0; t0=time.time(); lastb=None
while time.time()-t0<40:
    b=r.get_bounds('ch')
    if b[0] is None: continue
    lo=max(b[0], b[1]-300)
    g=r.get_continuous_blocks(lo,b[1],'ch')
    if dict(g)!={lo:b[1]-lo+1}:
        bad+=1; print('blocks',lo,b,dict(g))
    # tail-style: read beyond known end
    g2=r.get_continuous_blocks(lo,b[1]+200,'ch')
    if len(g2)!=1 or next(iter(g2))!=lo: bad+=1; print('tail',lo,b,dict(g2))
    d=r.read(lo,b[1]+200,'ch')
    if len(d)!=1: bad+=1; print('tailread',{k:len(v) for k,v in d.items()})
    n+=1
stop=True; t.join(); p.wait()
print('iterations',n,'bad',bad, 'bounds', r.get_bounds('ch'))
shutil.rmtree('/tmp/hw-C08-work/race',ignore_errors=True)
