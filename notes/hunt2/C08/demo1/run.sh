#!/bin/bash
# demo1: directory names with glob metacharacters ([ ] * ?) break DigitalRFReader
# usage: REPO=<checkout> bash run.sh     exit 0 = behaves as the property says, 1 = violation observed
set -u
HERE="$(cd "$(dirname "$0")" && pwd)"
REPO="${REPO:?set REPO=<path to a checkout>}"
W="$(mktemp -d)"
trap 'rm -rf "$W"' EXIT
gcc -O1 -w -I"$REPO/c/include" -I/usr/include/hdf5/serial "$HERE/driver.c" "$REPO/c/lib/rf_write_hdf5.c" \
    -L/usr/lib/x86_64-linux-gnu/hdf5/serial -lhdf5 -lm -o "$W/driver" || { echo "build failed"; exit 2; }
/tmp/agent-tools/mkscratch.sh "$REPO" "$W/pkg" >/dev/null || { echo "mkscratch failed"; exit 2; }
mkdir -p "$W/plain/ch1" "$W/plain/ch[1]" "$W/rec[1]/ch"
# ch1: 200 Hz, 500 ms files, 60 s subdirs.  ch[1]: 100 Hz, 1 s files, 1 h subdirs.  rec[1]/ch: 100 Hz
"$W/driver" >/dev/null 2>&1 <<EOS
open $W/plain/ch1 <i2 60 500 320000000000 200 1 0 0 0 1 0
w 0 250
close
open $W/plain/ch[1] <i2 3600 1000 160000000000 100 1 0 0 0 1 0
w 0 250
close
open $W/rec[1]/ch <i2 3600 1000 160000000000 100 1 0 0 0 1 0
w 0 250
close
EOS
PYTHONPATH="$W/pkg" /venv/bin/python - "$W" <<'EOP'
import sys, warnings
warnings.simplefilter("ignore")
import digital_rf
W = sys.argv[1]
assert digital_rf.__file__.startswith(W)
bad = []
# (a) channel directory 'ch[1]' next to 'ch1'
r = digital_rf.DigitalRFReader(W + "/plain")
p = r.get_properties("ch[1]")
if (p["sample_rate_numerator"], p["file_cadence_millisecs"]) != (100, 1000):
    bad.append("channel 'ch[1]' got the properties of 'ch1' (rate %s Hz, file cadence %s ms)"
               % (p["sample_rate_numerator"], p["file_cadence_millisecs"]))
b = r.get_bounds("ch[1]")
blocks = dict(r.get_continuous_blocks(b[0], b[1], "ch[1]"))
if blocks != {160000000000: 250}:
    bad.append("bounds %r but get_continuous_blocks over them = %r" % (b, blocks))
try:
    z = r.read_vector_raw(b[0], 10, "ch[1]")
    if list(z) != [(s * 7) % 101 for s in range(b[0], b[0] + 10)]:
        bad.append("read_vector_raw returned wrong samples")
except Exception as e:
    bad.append("read_vector_raw of the fully covered range (bounds[0], 10) raised %s: %s" % (type(e).__name__, e))
# (b) top-level directory 'rec[1]'
try:
    r2 = digital_rf.DigitalRFReader(W + "/rec[1]")
    if dict(r2.get_continuous_blocks(160000000000, 160000000249, "ch")) != {160000000000: 250}:
        bad.append("top-level 'rec[1]': wrong blocks")
except Exception as e:
    bad.append("top-level directory 'rec[1]' cannot be opened: %s: %s" % (type(e).__name__, str(e)[:60]))
if bad:
    print("VIOLATION (%d): " % len(bad) + " | ".join(bad))
    sys.exit(1)
print("ok: directories with glob metacharacters are read coherently")
EOP
exit $?
