#!/bin/bash
# demo3: the reader's file cache is keyed by path only; when a data file is replaced under the same name
#        (channel deleted and recorded again at the same times) a live reader mixes old and new pictures
# usage: REPO=<checkout> bash run.sh     exit 0 = behaves as the property says, 1 = violation observed
set -u
HERE="$(cd "$(dirname "$0")" && pwd)"
REPO="${REPO:?set REPO=<path to a checkout>}"
W="$(mktemp -d)"
trap 'rm -rf "$W"' EXIT
gcc -O1 -w -I"$REPO/c/include" -I/usr/include/hdf5/serial "$HERE/driver.c" "$REPO/c/lib/rf_write_hdf5.c" \
    -L/usr/lib/x86_64-linux-gnu/hdf5/serial -lhdf5 -lm -o "$W/driver" || { echo "build failed"; exit 2; }
/tmp/agent-tools/mkscratch.sh "$REPO" "$W/pkg" >/dev/null || { echo "mkscratch failed"; exit 2; }
PYTHONPATH="$W/pkg" /venv/bin/python - "$W" <<'EOP'
import sys, os, shutil, subprocess, warnings
warnings.simplefilter("ignore")
import digital_rf
W = sys.argv[1]
assert digital_rf.__file__.startswith(W)
B = 160000000000
def record(script):
    os.makedirs(W + "/top/ch")
    subprocess.run([W + "/driver"], input="open %s/top/ch <i2 3600 1000 %d 100 1 0 0 0 1 0\n%sclose\n" % (W, B, script),
                   text=True, capture_output=True, check=True)
record("w 0 250\n")                                # first recording: samples B .. B+249 (files rf@1600000000..02)
r = digital_rf.DigitalRFReader(W + "/top")
assert dict(r.get_continuous_blocks(B, B + 249, "ch")) == {B: 250}
r.read_vector_raw(B + 200, 3, "ch")                # last file touched: rf@1600000002.000.h5
shutil.rmtree(W + "/top/ch")
record("w 230 20\nw 260 100\n")                    # same channel recorded again: B+230..249, B+260..359
b = r.get_bounds("ch")
lens = dict(r.get_continuous_blocks(b[0], b[1], "ch"))
data = {k: len(v) for k, v in r.read(b[0], b[1], "ch").items()}
fresh = dict(digital_rf.DigitalRFReader(W + "/top").get_continuous_blocks(b[0], b[1], "ch"))
if lens != data or lens != fresh:
    print("VIOLATION: same reader, same range (%d, %d): get_continuous_blocks = %r but read returns blocks %r "
          "(a new reader: %r)" % (b[0], b[1], lens, data, fresh))
    sys.exit(1)
print("ok: lengths without reading equal lengths of the blocks read: %r" % lens)
EOP
exit $?
