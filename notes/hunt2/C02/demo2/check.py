import h5py, sys, os
root = sys.argv[1]
out = []
for r, ds, fs in os.walk(root):
    for f in sorted(fs):
        if f == "drf_properties.h5": continue
        p = os.path.join(r, f)
        try:
            with h5py.File(p, "r") as h:
                keys = sorted(h.keys())
                ok = "rf_data" in h and "rf_data_index" in h
                out.append("%s[%s]%s" % (f, ",".join(keys), "" if ok else "INVALID"))
        except Exception as e:
            out.append("%s[unopenable]INVALID" % f)
print(" ".join(out))
