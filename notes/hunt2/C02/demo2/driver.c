/* scenario driver for the C writer.
 * usage: driver <channel_dir> <logfile> <scenario>
 * scenario: first line
 *   dtype complex nsub comp cksum cont num den subdir_s file_ms start_sample
 * dtype: [<>]?(i|u|f)(1|2|4|8)
 * then ops, one per line:
 *   O                       create writer
 *   W idx len               digital_rf_write_hdf5
 *   B len n g0 d0 g1 d1 ..  digital_rf_write_blocks_hdf5
 *   C                       close
 *   K                       raise SIGKILL (die without close)
 */
#include <stdio.h>
#include <stdlib.h>
#include <string.h>
#include <unistd.h>
#include <fcntl.h>
#include <signal.h>
#include "digital_rf.h"

static int logfd;
static void logmsg(const char *fmt, ...)
{
	char buf[4096];
	va_list ap;
	int n;
	va_start(ap, fmt);
	n = vsnprintf(buf, sizeof(buf), fmt, ap);
	va_end(ap);
	if (write(logfd, buf, n) < 0) {}
}

static char dt[8];
static int is_complex, nsub, comp, cksum, cont;
static uint64_t num, den, subdir_s, file_ms, start;
static int size, be;
static char kind;

static uint64_t val(uint64_t s, int c, int part)
{
	return ((s * (uint64_t)nsub + (uint64_t)c) * 2 + (uint64_t)part) % 120 + 1;
}

static void put(unsigned char *p, uint64_t v)
{
	unsigned char tmp[8];
	int i;
	if (kind == 'f') {
		if (size == 4) { float f = (float)v; memcpy(tmp, &f, 4); }
		else { double d = (double)v; memcpy(tmp, &d, 8); }
	} else {
		memcpy(tmp, &v, 8); /* little endian host */
	}
	if (be)
		for (i = 0; i < size; i++) p[i] = tmp[size - 1 - i];
	else
		memcpy(p, tmp, size);
}

/* fill buffer for the samples whose global indices are described by (g,d,n,len) */
static unsigned char *mkbuf(uint64_t len, uint64_t n, uint64_t *g, uint64_t *d)
{
	int parts = is_complex ? 2 : 1;
	unsigned char *buf = malloc(len * nsub * parts * size + 1);
	uint64_t k, b = 0, s;
	int c, p;
	for (k = 0; k < len; k++) {
		while (b + 1 < n && d[b + 1] <= k) b++;
		s = start + g[b] + (k - d[b]);
		for (c = 0; c < nsub; c++)
			for (p = 0; p < parts; p++)
				put(buf + ((k * nsub + c) * parts + p) * size, val(s, c, p));
	}
	return buf;
}

int main(int argc, char **argv)
{
	FILE *f;
	char line[65536];
	hid_t dtype = -1;
	Digital_rf_write_object *w = NULL;
	char dir[8192];
	int rc;

	if (argc < 4) return 2;
	logfd = open(argv[2], O_WRONLY | O_CREAT | O_APPEND, 0644);
	f = fopen(argv[3], "r");
	if (!f) return 2;
	if (!fgets(line, sizeof(line), f)) return 2;
	if (sscanf(line, "%7s %d %d %d %d %d %" SCNu64 " %" SCNu64 " %" SCNu64 " %" SCNu64 " %" SCNu64,
			dt, &is_complex, &nsub, &comp, &cksum, &cont, &num, &den, &subdir_s, &file_ms, &start) != 11)
		return 2;
	{
		char *p = dt;
		be = 0;
		if (*p == '<' || *p == '>') { be = (*p == '>'); p++; }
		kind = p[0];
		size = p[1] - '0';
		if (kind == 'i') dtype = size == 1 ? H5T_STD_I8LE : size == 2 ? (be ? H5T_STD_I16BE : H5T_STD_I16LE) : size == 4 ? (be ? H5T_STD_I32BE : H5T_STD_I32LE) : (be ? H5T_STD_I64BE : H5T_STD_I64LE);
		else if (kind == 'u') dtype = size == 1 ? H5T_STD_U8LE : size == 2 ? (be ? H5T_STD_U16BE : H5T_STD_U16LE) : size == 4 ? (be ? H5T_STD_U32BE : H5T_STD_U32LE) : (be ? H5T_STD_U64BE : H5T_STD_U64LE);
		else dtype = size == 4 ? (be ? H5T_IEEE_F32BE : H5T_IEEE_F32LE) : (be ? H5T_IEEE_F64BE : H5T_IEEE_F64LE);
	}
	H5Eset_auto2(H5E_DEFAULT, NULL, NULL);
	while (fgets(line, sizeof(line), f)) {
		if (line[0] == 'O') {
			strcpy(dir, argv[1]);
			logmsg("BEGIN O\n");
			w = digital_rf_create_write_hdf5(dir, dtype, subdir_s, file_ms, start, num, den, "uuid-test",
					comp, cksum, is_complex, nsub, cont, 0);
			logmsg("END %d\n", w ? 0 : -1);
		} else if (line[0] == 'W') {
			uint64_t idx, len, zero = 0;
			unsigned char *buf;
			sscanf(line + 1, "%" SCNu64 " %" SCNu64, &idx, &len);
			buf = mkbuf(len, 1, &idx, &zero);
			logmsg("BEGIN W %" PRIu64 " %" PRIu64 "\n", idx, len);
			rc = w ? digital_rf_write_hdf5(w, idx, buf, len) : -99;
			logmsg("END %d %" PRIu64 "\n", rc, w ? w->global_index : 0);
			free(buf);
		} else if (line[0] == 'B') {
			uint64_t len, n, i, *g, *d;
			unsigned char *buf;
			char *p = line + 1, *e;
			len = strtoull(p, &e, 10); p = e;
			n = strtoull(p, &e, 10); p = e;
			g = malloc(sizeof(uint64_t) * (n + 1));
			d = malloc(sizeof(uint64_t) * (n + 1));
			for (i = 0; i < n; i++) {
				g[i] = strtoull(p, &e, 10); p = e;
				d[i] = strtoull(p, &e, 10); p = e;
			}
			buf = mkbuf(len, n, g, d);
			line[strcspn(line, "\n")] = 0;
			logmsg("BEGIN %s\n", line);
			rc = w ? digital_rf_write_blocks_hdf5(w, g, d, n, buf, len) : -99;
			logmsg("END %d %" PRIu64 "\n", rc, w ? w->global_index : 0);
			free(buf); free(g); free(d);
		} else if (line[0] == 'C') {
			logmsg("BEGIN C\n");
			rc = digital_rf_close_write_hdf5(w);
			w = NULL;
			logmsg("END %d\n", rc);
		} else if (line[0] == 'K') {
			raise(SIGKILL);
		}
	}
	return 0;
}
