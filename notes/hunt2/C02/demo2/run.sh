#!/bin/bash
# REPO=<checkout> bash run.sh
# A channel directory whose path is ~990 characters long (legal: PATH_MAX is 4096) overflows the 1024-byte
# path buffers of the C writer: the file in progress is created OUTSIDE the tree (relative name in the cwd),
# is then renamed to the final rf@... name with its dataset under a garbage name (no rf_data), and the
# process crashes.
set -u
REPO=${REPO:?set REPO to a checkout}
HERE=$(cd "$(dirname "$0")" && pwd)
T=$(mktemp -d)
trap 'rm -rf "$T"' EXIT
gcc -w -I"$REPO/c/include" -I/usr/include/hdf5/serial "$HERE/driver.c" "$REPO/c/lib/rf_write_hdf5.c" \
    -L/usr/lib/x86_64-linux-gnu/hdf5/serial -lhdf5 -lm -o "$T/driver" || { echo "build failed"; exit 2; }
# channel directory with a path of exactly 996 characters
P="$T/top"
while [ $(( ${#P} + 201 + 3 )) -lt 996 ]; do P="$P/$(printf 'd%.0s' $(seq 1 200))"; done
pad=$(( 996 - ${#P} - 1 - 3 ))
P="$P/$(printf 'e%.0s' $(seq 1 $pad))/ch"
mkdir -p "$P" "$T/cwd"
cd "$T/cwd"
"$T/driver" "$P" "$T/log" "$HERE/scn.txt" > /dev/null 2> "$T/err"
rc=$?
cd "$HERE"
tree=$(/venv/bin/python "$HERE/check.py" "$P")
stray=$(ls "$T/cwd" | tr '\n' ' ')
okcalls=$(grep -c '^END 0' "$T/log")
msg="channel dir path length ${#P}: driver exit status $rc, calls that returned 0: $okcalls of 5, data files in tree: [${tree}], files created in the cwd: [${stray}]"
if [ $rc -ge 128 ] || echo "$tree" | grep -q INVALID || [ -n "$stray" ]; then
    echo "DEFECT: $msg"
    exit 1
fi
if [ "$okcalls" -eq 5 ] && ! echo "$tree" | grep -q INVALID; then
    echo "OK (writer works with the long path): $msg"; exit 0
fi
if grep -q '^END -1' "$T/log" && [ -z "$tree" ]; then
    echo "OK (writer refused the over-long directory: $(head -1 "$T/err")): $msg"; exit 0
fi
echo "UNEXPECTED: $msg"
exit 1
