"""Write 50 samples with the Python writer, close, report whether close() raised."""
import os
import sys

import numpy as np

import digital_rf

top = sys.argv[1]
d = os.path.join(top, "ch")
os.makedirs(d, exist_ok=True)
w = digital_rf.DigitalRFWriter(
    d, np.int16, 3600, 1000, 100000, 100, 1, "u",
    is_complex=False, is_continuous=False, marching_periods=False,
)
n = w.rf_write(np.arange(1, 51, dtype=np.int16))
print("rf_write returned", n)
try:
    w.close()
    print("close returned normally")
    code = 0
except Exception as e:
    print("close raised", repr(e))
    code = 3
sys.stdout.flush()
os._exit(code)  # skip the HDF5 library's exit handler (it can crash after a failed H5Fclose)
