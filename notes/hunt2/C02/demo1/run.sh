#!/bin/bash
# REPO=<checkout> bash run.sh
# Python DigitalRFWriter.close() returns normally although the last file could not be finalized
# (disk full while HDF5 flushes at close): the 50 samples accepted by rf_write are gone.
set -u
REPO=${REPO:?set REPO to a checkout}
HERE=$(cd "$(dirname "$0")" && pwd)
T=$(mktemp -d)
trap 'rm -rf "$T"' EXIT
PY=/venv/bin/python
PYINC=$($PY -c "import sysconfig; print(sysconfig.get_paths()['include'])")
NPINC=$($PY -c "import numpy; print(numpy.get_include())")
mkdir -p "$T/pkg"
cp -r "$REPO/python/digital_rf" "$T/pkg/digital_rf"
cat > "$T/pkg/digital_rf/_version.py" <<'EOV'
__version__ = version = '2.6.14'
__version_tuple__ = version_tuple = (2, 6, 14)
EOV
gcc -shared -fPIC -O1 -w -I"$PYINC" -I"$NPINC" -I"$REPO/c/include" -I/usr/include/hdf5/serial \
    "$REPO/python/lib/py_rf_write_hdf5.c" "$REPO/c/lib/rf_write_hdf5.c" \
    -L/usr/lib/x86_64-linux-gnu/hdf5/serial -lhdf5 -lm \
    -o "$T/pkg/digital_rf/_py_rf_write_hdf5.cpython-312-x86_64-linux-gnu.so" || { echo "build failed"; exit 2; }
gcc -shared -fPIC -O1 -w "$HERE/shim.c" -o "$T/shim.so" -ldl || { echo "shim build failed"; exit 2; }
export PYTHONPATH="$T/pkg"
# pass 1: no fault, find the number of the first file-system operation on the data file
DRF_ROOT="$T/top1" DRF_OPLOG="$T/oplog" LD_PRELOAD="$T/shim.so" $PY "$HERE/w.py" "$T/top1" > "$T/out1" 2>&1
N=$(grep -n 'tmp.rf@' "$T/oplog" | head -1 | cut -d: -f1)
[ -n "$N" ] || { echo "could not locate data file ops"; cat "$T/out1"; exit 2; }
# pass 2: every pwrite after the file has been created (N, N+1 are the opens, N+2 the superblock) fails with ENOSPC
DRF_ROOT="$T/top2" DRF_FAIL_AT=$((N+3)) DRF_FAIL_ERRNO=28 DRF_FAIL_STICKY=1 LD_PRELOAD="$T/shim.so" \
    $PY "$HERE/w.py" "$T/top2" > "$T/out2" 2> "$T/err2"
rc=$?
grep -q "Failed to finalize the last Hdf5 file written" "$T/err2" && cfail=1 || cfail=0
if [ $rc -eq 3 ]; then
    echo "OK: close() raised when the last file could not be finalized: $(grep 'close raised' "$T/out2")"
    exit 0
fi
res=$($PY "$HERE/check.py" "$T/top2" 2>&1 | tail -1)
if [ $? -ne 0 ] || ! echo "$res" | grep -q "readable_samples=50 "; then
    echo "DEFECT: rf_write accepted 50 samples and close() returned normally (C close failed=$cfail), but: $res"
    exit 1
fi
echo "OK: $res"
exit 0
