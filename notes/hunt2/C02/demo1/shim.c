/* LD_PRELOAD interposer: counts file-system operations that touch DRF_ROOT,
 * can snapshot the tree before each op, kill the process before op N, or make op N fail.
 *   DRF_ROOT      - path prefix to watch
 *   DRF_OPLOG     - file to append "N name detail" lines to
 *   DRF_SNAPDIR   - if set, copy DRF_ROOT to DRF_SNAPDIR/<N> before op N is executed
 *   DRF_KILL_AT   - raise SIGKILL before executing op N
 *   DRF_FAIL_AT   - op N fails with errno DRF_FAIL_ERRNO (default ENOSPC); DRF_FAIL_STICKY=1: all ops >= N of the same kind fail
 */
#define _GNU_SOURCE
#include <dlfcn.h>
#include <stdio.h>
#include <stdlib.h>
#include <string.h>
#include <stdarg.h>
#include <fcntl.h>
#include <unistd.h>
#include <errno.h>
#include <signal.h>
#include <sys/stat.h>
#include <sys/types.h>
#include <sys/wait.h>
#include <spawn.h>

extern char **environ;

static const char *root = NULL;
static size_t rootlen = 0;
static int oplog_fd = -1;
static const char *snapdir = NULL, *snapsrc = NULL;
static long kill_at = -1, fail_at = -1;
static int fail_errno = ENOSPC, fail_sticky = 0;
static char fail_kind[32] = "";
static long opno = 0, pwcount = 0, pw_every = 1;
static int inited = 0;
static unsigned char watched[4096];

static int (*r_open)(const char *, int, ...);
static int (*r_close)(int);
static ssize_t (*r_write)(int, const void *, size_t);
static ssize_t (*r_pwrite)(int, const void *, size_t, off_t);
static int (*r_ftruncate)(int, off_t);
static int (*r_rename)(const char *, const char *);
static int (*r_mkdir)(const char *, mode_t);
static int (*r_unlink)(const char *);
static int (*r_remove)(const char *);

static void init(void)
{
	const char *s;
	if (inited) return;
	inited = 1;
	r_open = dlsym(RTLD_NEXT, "open");
	r_close = dlsym(RTLD_NEXT, "close");
	r_write = dlsym(RTLD_NEXT, "write");
	r_pwrite = dlsym(RTLD_NEXT, "pwrite");
	r_ftruncate = dlsym(RTLD_NEXT, "ftruncate");
	r_rename = dlsym(RTLD_NEXT, "rename");
	r_mkdir = dlsym(RTLD_NEXT, "mkdir");
	r_unlink = dlsym(RTLD_NEXT, "unlink");
	r_remove = dlsym(RTLD_NEXT, "remove");
	root = getenv("DRF_ROOT");
	if (root) rootlen = strlen(root);
	s = getenv("DRF_OPLOG");
	if (s) oplog_fd = r_open(s, O_WRONLY | O_CREAT | O_APPEND, 0644);
	snapdir = getenv("DRF_SNAPDIR");
	snapsrc = getenv("DRF_SNAPSRC"); if (!snapsrc) snapsrc = root;
	s = getenv("DRF_SNAP_PW_EVERY"); if (s) pw_every = atol(s);
	s = getenv("DRF_KILL_AT"); if (s) kill_at = atol(s);
	s = getenv("DRF_FAIL_AT"); if (s) fail_at = atol(s);
	s = getenv("DRF_FAIL_ERRNO"); if (s) fail_errno = atoi(s);
	s = getenv("DRF_FAIL_STICKY"); if (s) fail_sticky = atoi(s);
}

static int under_root(const char *p)
{
	return root && p && strncmp(p, root, rootlen) == 0;
}

/* returns 1 if the op must fail */
static int op(const char *name, const char *detail, long a, long b)
{
	char buf[1400];
	int n, dofail = 0;
	opno++;
	if (fail_at >= 0) {
		if (opno == fail_at) { dofail = 1; strncpy(fail_kind, name, sizeof(fail_kind) - 1); }
		else if (fail_sticky && opno > fail_at && strcmp(fail_kind, name) == 0) dofail = 1;
	}
	if (oplog_fd >= 0) {
		n = snprintf(buf, sizeof(buf), "%ld %s %s %ld %ld%s\n", opno, name, detail ? detail : "-", a, b, dofail ? " FAIL" : "");
		r_write(oplog_fd, buf, n);
	}
	if (snapdir && (strcmp(name, "pwrite") != 0 || (pwcount++ % pw_every) == 0)) {
		pid_t pid;
		int st;
		char dst[1200];
		char *argv[] = {"/bin/cp", "-a", (char *)snapsrc, dst, NULL};
		char *envp[] = {NULL};
		snprintf(dst, sizeof(dst), "%s/%ld", snapdir, opno);
		if (posix_spawn(&pid, "/bin/cp", NULL, NULL, argv, envp) == 0)
			waitpid(pid, &st, 0);
	}
	if (kill_at >= 0 && opno == kill_at)
		raise(SIGKILL);
	return dofail;
}

int open(const char *path, int flags, ...)
{
	mode_t mode = 0;
	int fd;
	init();
	if (flags & (O_CREAT | O_TMPFILE)) {
		va_list ap; va_start(ap, flags); mode = va_arg(ap, mode_t); va_end(ap);
	}
	if (under_root(path) && (flags & (O_CREAT | O_WRONLY | O_RDWR | O_TRUNC))) {
		if (op("open", path, flags, 0)) { errno = fail_errno; return -1; }
		fd = r_open(path, flags, mode);
		if (fd >= 0 && fd < 4096) watched[fd] = 1;
		return fd;
	}
	return r_open(path, flags, mode);
}
int open64(const char *path, int flags, ...)
{
	mode_t mode = 0;
	if (flags & (O_CREAT | O_TMPFILE)) {
		va_list ap; va_start(ap, flags); mode = va_arg(ap, mode_t); va_end(ap);
	}
	return open(path, flags, mode);
}
int close(int fd)
{
	init();
	if (fd >= 0 && fd < 4096 && watched[fd]) {
		watched[fd] = 0;
		(void)op("close", NULL, fd, 0); /* close never fails here */
	}
	return r_close(fd);
}
ssize_t write(int fd, const void *b, size_t n)
{
	init();
	if (fd >= 0 && fd < 4096 && watched[fd])
		if (op("write", NULL, fd, (long)n)) { errno = fail_errno; return -1; }
	return r_write(fd, b, n);
}
ssize_t pwrite(int fd, const void *b, size_t n, off_t o)
{
	init();
	if (fd >= 0 && fd < 4096 && watched[fd])
		if (op("pwrite", NULL, (long)o, (long)n)) { errno = fail_errno; return -1; }
	return r_pwrite(fd, b, n, o);
}
ssize_t pwrite64(int fd, const void *b, size_t n, off_t o) { return pwrite(fd, b, n, o); }
int ftruncate(int fd, off_t l)
{
	init();
	if (fd >= 0 && fd < 4096 && watched[fd])
		if (op("ftruncate", NULL, fd, (long)l)) { errno = fail_errno; return -1; }
	return r_ftruncate(fd, l);
}
int ftruncate64(int fd, off_t l) { return ftruncate(fd, l); }
int rename(const char *a, const char *b)
{
	init();
	if (under_root(a) || under_root(b)) {
		char d[1300]; snprintf(d, sizeof(d), "%s->%s", a, b);
		if (op("rename", d, 0, 0)) { errno = fail_errno; return -1; }
	}
	return r_rename(a, b);
}
int mkdir(const char *p, mode_t m)
{
	init();
	if (under_root(p))
		if (op("mkdir", p, 0, 0)) { errno = fail_errno; return -1; }
	return r_mkdir(p, m);
}
int unlink(const char *p)
{
	init();
	if (under_root(p))
		if (op("unlink", p, 0, 0)) { errno = fail_errno; return -1; }
	return r_unlink(p);
}
int remove(const char *p)
{
	init();
	if (under_root(p))
		if (op("remove", p, 0, 0)) { errno = fail_errno; return -1; }
	return r_remove(p);
}
