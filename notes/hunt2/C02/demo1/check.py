"""After a close() that returned normally: are the 50 samples readable, is a tmp. file left?"""
import os
import sys

import digital_rf

top = sys.argv[1]
left = [f for r, ds, fs in os.walk(top) for f in fs]
tmps = [f for f in left if f.startswith("tmp.")]
r = digital_rf.DigitalRFReader(top)
b = r.get_bounds("ch")
n = 0
if b[0] is not None:
    n = sum(len(v) for v in r.read(b[0], b[1], "ch").values())
print("files=%r bounds=%r readable_samples=%d tmp_files=%r" % (sorted(left), b, n, tmps))
sys.exit(0 if (n == 50 and not tmps) else 1)
