/* writer.c <channel dir> <start index> <n samples>: one session of int16 samples, 100 Hz, 1 s files, 10 s sub-directories */
#include <stdio.h>
#include <stdlib.h>
#include <inttypes.h>
#include "digital_rf.h"
int main(int argc, char **argv)
{
	uint64_t start = strtoull(argv[2], NULL, 10), n = strtoull(argv[3], NULL, 10), i;
	int16_t *buf = malloc(sizeof(int16_t) * n);
	Digital_rf_write_object *w;
	for (i = 0; i < n; i++) buf[i] = (int16_t)((start + i) % 1000);
	w = digital_rf_create_write_hdf5(argv[1], H5T_NATIVE_SHORT, 10, 1000, start, 100, 1, "demo", 0, 0, 0, 1, 0, 0);
	if (!w) { fprintf(stderr, "open failed\n"); return 2; }
	if (digital_rf_write_hdf5(w, 0, buf, n)) { fprintf(stderr, "write failed\n"); return 3; }
	if (digital_rf_close_write_hdf5(w)) { fprintf(stderr, "close failed\n"); return 4; }
	return 0;
}
