#!/bin/bash
# REPO=<checkout> bash run.sh ; exits non-zero if DigitalRFReader.get_last_write over two top-level
# directories does not name the file that holds the channel's last sample.
set -u
REPO=${REPO:?set REPO to a digital_rf checkout}
HERE=$(cd "$(dirname "$0")" && pwd)
T=$(mktemp -d)
trap 'rm -rf "$T"' EXIT
gcc -I"$REPO/c/include" -I/usr/include/hdf5/serial "$HERE/writer.c" "$REPO/c/lib/rf_write_hdf5.c" \
    -L/usr/lib/x86_64-linux-gnu/hdf5/serial -lhdf5 -lm -o "$T/writer" 2>/dev/null || { echo "build failed"; exit 99; }
# the worktree's Python package (pure Python reader; the extension is only needed for the import)
mkdir -p "$T/pkg"
cp -r "$REPO/python/digital_rf" "$T/pkg/digital_rf"
cp /venv/lib/python3.12/site-packages/digital_rf/_py_rf_write_hdf5*.so "$T/pkg/digital_rf/"
printf "__version__ = version = '2.6.14'\n__version_tuple__ = version_tuple = (2, 6, 14)\n" > "$T/pkg/digital_rf/_version.py"
mkdir -p "$T/A/ch" "$T/B/ch"
# session 1 in top-level directory A: samples 1000..1199 -> rf@10.000.h5, rf@11.000.h5
"$T/writer" "$T/A/ch" 1000 200 || exit 98
# session 2 in top-level directory B: sample 1200 only -> rf@12.000.h5 (the next file period)
"$T/writer" "$T/B/ch" 1200 1 || exit 98
DEMO_PKG="$T/pkg" PYTHONPATH="$T/pkg" /venv/bin/python "$HERE/check.py" "$T/A" "$T/B"
