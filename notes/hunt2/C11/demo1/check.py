import os, sys
import digital_rf
assert os.environ["DEMO_PKG"] in digital_rf.__file__
A, B = sys.argv[1], sys.argv[2]
bad = []
for order in ([A, B], [B, A]):
    r = digital_rf.DigitalRFReader(order)
    first, last = r.get_bounds("ch")
    blocks = list(r.get_continuous_blocks(first, last, "ch").items())
    t, path = r.get_last_write("ch")
    names = [os.path.basename(os.path.dirname(os.path.dirname(os.path.dirname(p)))) for p in order]
    want = os.path.join(B, "ch", "1970-01-01T00-00-10", "rf@12.000.h5")
    if (first, last) != (1000, 1200) or blocks != [(1000, 201)]:
        bad.append("unexpected bounds/blocks %r %r" % ((first, last), blocks))
    if path != want:
        bad.append("reader over %s: bounds (%d, %d), the last sample %d is in B/ch/.../rf@12.000.h5, "
                   "but get_last_write returns %s" % ([os.path.basename(p) for p in order], first, last, last,
                                                      os.path.relpath(path, os.path.dirname(A)) if path else path))
if bad:
    print("VIOLATION: " + " | ".join(bad))
    sys.exit(1)
print("ok: get_last_write names the file that holds the last sample for both directory orders")
