import json, os, sys, random
import numpy as np
import digital_rf
assert "hw-C11-work/pkg" in digital_rf.__file__, digital_rf.__file__

spec = json.load(open(sys.argv[1]))
P = spec["P"]; tops = spec["tops"]; S = spec["samples"]
rng = random.Random(spec["seed"] + 1)
fails = []
if not S:
    sys.exit(0)
Sset = set(S)
runs = []  # maximal runs
a = S[0]; prev = S[0]
for x in S[1:]:
    if x != prev + 1:
        runs.append((a, prev - a + 1)); a = x
    prev = x
runs.append((a, prev - a + 1))
num, den, fms = P["num"], P["den"], P["file_ms"]
def period(s):
    ms = (s * den * 1000) // num
    return (ms // fms) * fms
def first_of(ms):
    return -((-ms * num) // (1000 * den))
def val(s, c, k):
    return (s * 3 + c * 5 + k * 11) % 100
def check_arr(key, arr, sub=None):
    n = arr.shape[0]
    idx = np.arange(key, key + n, dtype=object)
    mask = np.array([int(x) in Sset for x in idx])
    cs = range(P["nsub"]) if sub is None else [sub]
    for ci, c in enumerate(cs):
        col = arr[:, ci] if sub is None else arr
        for k in range(2 if P["cplx"] else 1):
            if P["cplx"]:
                if col.dtype.names:
                    v = col["r" if k == 0 else "i"]
                else:
                    v = col.real if k == 0 else col.imag
            else:
                v = col
            exp = np.array([val(int(x), c, k) for x in idx])
            got = np.asarray(v).astype("f8")
            bad = np.nonzero((got != exp) & mask)[0]
            if len(bad):
                fails.append("value mismatch at sample %d sub %d comp %d: got %r exp %r" % (key + bad[0], c, k, got[bad[0]], exp[bad[0]]))
                return
    if not P["cont"] and not mask.all():
        fails.append("extra samples returned in block %d+%d" % (key, n))

def clip(b0, b1):
    out = []
    for (a, n) in runs:
        lo = max(a, b0); hi = min(a + n - 1, b1)
        if lo <= hi:
            out.append((lo, hi - lo + 1))
    return out

for order in (tops, tops[::-1]):
    r = digital_rf.DigitalRFReader(order)
    if r.get_channels() != ["ch"]:
        fails.append("channels %r" % r.get_channels()); break
    b = r.get_bounds("ch")
    lo, hi = S[0], S[-1]
    if P["cont"]:
        plo = first_of(period(lo)); phi = first_of(period(hi) + fms) - 1
        if not (plo <= b[0] <= lo and hi <= b[1] <= phi):
            fails.append("bounds %r not within [%d..%d] / [%d..%d]" % (b, plo, lo, hi, phi))
    else:
        if tuple(b) != (lo, hi):
            fails.append("bounds %r != %r" % (b, (lo, hi)))
    windows = [(b[0], b[1])]
    for _ in range(6):
        x = rng.randint(b[0] - 3, b[1] + 3); y = rng.randint(x, min(b[1] + 3, x + 4 * max(2, (hi - lo) // 3)))
        windows.append((max(0, x), y))
    # windows with edges exactly on file boundaries
    for _ in range(3):
        s = rng.choice(S); e = first_of(period(s) + fms)
        windows.append((e, e + rng.randint(0, 50))); windows.append((max(0, e - rng.randint(1, 50)), e - 1)) if e > 0 else None
    for (w0, w1) in windows:
        if w1 < w0: continue
        cb = r.get_continuous_blocks(w0, w1, "ch")
        if not P["cont"]:
            if list(cb.items()) != clip(w0, w1):
                fails.append("blocks(%d,%d) %r != %r" % (w0, w1, list(cb.items())[:5], clip(w0, w1)[:5]))
        else:
            got = set()
            for k, n in cb.items():
                got.update(range(k, k + n))
            need = set(x for x in S if w0 <= x <= w1)
            if not need <= got:
                fails.append("cont blocks(%d,%d) miss %d samples" % (w0, w1, len(need - got)))
        d = r.read(w0, w1, "ch")
        if [(k, v.shape[0]) for k, v in d.items()] != list(cb.items()):
            fails.append("read vs blocks differ (%d,%d)" % (w0, w1))
        for k, v in d.items():
            check_arr(k, v)
        sc = rng.randrange(P["nsub"])
        d = r.read(w0, w1, "ch", sub_channel=sc)
        for k, v in d.items():
            if v.ndim != 1: fails.append("subchannel read ndim %d" % v.ndim)
            check_arr(k, v, sub=sc)
    # read_vector_raw over a run
    a, n = rng.choice(runs)
    off = rng.randint(0, n - 1); ln = rng.randint(1, n - off)
    try:
        v = r.read_vector_raw(a + off, ln, "ch")
        if v.shape[0] != ln: fails.append("read_vector_raw len")
        if v.ndim == 1: v = v.reshape(-1, 1)
        check_arr(a + off, v)
    except Exception as e:
        fails.append("read_vector_raw(%d,%d) raised %r" % (a + off, ln, e))
    # last write
    t, path = r.get_last_write("ch")
    sec = period(b[1]) // 1000; ms = period(b[1]) % 1000
    if path is None or os.path.basename(path) != "rf@%d.%03d.h5" % (sec, ms):
        fails.append("get_last_write %r, last sample %d is in rf@%d.%03d.h5" % (path, b[1], sec, ms))
    # per-sample properties
    s = rng.choice(S)
    try:
        pr = r.get_properties("ch", sample=s)
        if "uuid_str" not in pr: fails.append("no uuid in sample properties")
    except Exception as e:
        fails.append("get_properties(sample=%d) raised %r" % (s, e))
    r.close()
    if fails: break
if fails:
    print("\n".join(fails[:8])); sys.exit(1)
