/* scripted driver for the worktree's C writer library.
 * commands on stdin (one per line), one result line per command on stdout:
 *   open <dir> <type> <subdir_s> <file_ms> <start> <num> <den> <complex> <nsub> <cont> <comp> <chk>
 *        type: [lb](i|u|f)(1|2|4|8)   e.g. li2 bu4 lf4
 *   write <idx> <n>
 *   wblocks <n> <k> <g0> <d0> ... <g(k-1)> <d(k-1)>
 *   close
 */
#include <stdio.h>
#include <stdlib.h>
#include <string.h>
#include <inttypes.h>
#include "digital_rf.h"

static Digital_rf_write_object *w = NULL;
static int tsize, tbe, nsub, cplx; static char tkind;
static uint64_t start;

static hid_t gettype(const char *t)
{
	int be = t[0]=='b'; char k=t[1]; int s=t[2]-'0';
	tbe=be; tkind=k; tsize=s;
	if (k=='i') { if(s==1) return H5T_STD_I8LE; if(s==2) return be?H5T_STD_I16BE:H5T_STD_I16LE; if(s==4) return be?H5T_STD_I32BE:H5T_STD_I32LE; return be?H5T_STD_I64BE:H5T_STD_I64LE; }
	if (k=='u') { if(s==1) return H5T_STD_U8LE; if(s==2) return be?H5T_STD_U16BE:H5T_STD_U16LE; if(s==4) return be?H5T_STD_U32BE:H5T_STD_U32LE; return be?H5T_STD_U64BE:H5T_STD_U64LE; }
	if (s==4) return be?H5T_IEEE_F32BE:H5T_IEEE_F32LE;
	return be?H5T_IEEE_F64BE:H5T_IEEE_F64LE;
}

static void put(unsigned char *p, int v)
{
	int i; unsigned char tmp[8];
	if (tkind=='f') { if (tsize==4){ float f=(float)v; memcpy(tmp,&f,4);} else { double d=v; memcpy(tmp,&d,8);} }
	else { int64_t x=v; memcpy(tmp,&x,8); }
	if (tbe) for(i=0;i<tsize;i++) p[i]=tmp[tsize-1-i]; else memcpy(p,tmp,tsize);
}

/* fill buffer for n data samples; sample j has absolute index abs[j] */
static unsigned char *mkbuf(uint64_t n, uint64_t *absidx)
{
	int ncomp = cplx?2:1; uint64_t j; int c,k;
	unsigned char *b = malloc((size_t)n*nsub*ncomp*tsize+8), *p=b;
	for (j=0;j<n;j++) for(c=0;c<nsub;c++) for(k=0;k<ncomp;k++) { put(p,(int)(((absidx[j]%100)*3+c*5+k*11)%100)); p+=tsize; }
	return b;
}

int main(void)
{
	char line[65536];
	H5Eset_auto2(H5E_DEFAULT, NULL, NULL);
	while (fgets(line,sizeof line,stdin))
	{
		char cmd[32]; int off=0;
		if (sscanf(line,"%31s%n",cmd,&off)!=1) continue;
		if (!strcmp(cmd,"open"))
		{
			char dir[4096], t[8]; uint64_t sc,fc,num,den; int cont,comp,chk;
			sscanf(line+off,"%s %s %" SCNu64 " %" SCNu64 " %" SCNu64 " %" SCNu64 " %" SCNu64 " %d %d %d %d %d",dir,t,&sc,&fc,&start,&num,&den,&cplx,&nsub,&cont,&comp,&chk);
			w = digital_rf_create_write_hdf5(dir, gettype(t), sc, fc, start, num, den, "uuid-x", comp, chk, cplx, nsub, cont, 0);
			printf("rc=%d\n", w?0:-1);
		}
		else if (!strcmp(cmd,"write"))
		{
			uint64_t idx,n,j,*a; unsigned char *b; int rc;
			sscanf(line+off,"%" SCNu64 " %" SCNu64,&idx,&n);
			a=malloc(sizeof(uint64_t)*(n+1)); for(j=0;j<n;j++) a[j]=start+idx+j;
			b=mkbuf(n,a);
			rc=digital_rf_write_hdf5(w,idx,b,n);
			printf("rc=%d gi=%" PRIu64 " hf=%d\n",rc,w->global_index,w->has_failure);
			free(a);free(b);
		}
		else if (!strcmp(cmd,"wblocks"))
		{
			uint64_t n,k,i,j,*g,*d,*a; unsigned char *b; int rc; char *p=line+off; int o;
			sscanf(p,"%" SCNu64 " %" SCNu64 "%n",&n,&k,&o); p+=o;
			g=malloc(8*k);d=malloc(8*k);
			for(i=0;i<k;i++){ sscanf(p,"%" SCNu64 " %" SCNu64 "%n",&g[i],&d[i],&o); p+=o; }
			a=malloc(8*(n+1));
			for(i=0;i<k;i++){ uint64_t e=(i+1<k)?d[i+1]:n; for(j=d[i];j<e;j++) a[j]=start+g[i]+(j-d[i]); }
			b=mkbuf(n,a);
			rc=digital_rf_write_blocks_hdf5(w,g,d,k,b,n);
			printf("rc=%d gi=%" PRIu64 " hf=%d\n",rc,w->global_index,w->has_failure);
			free(a);free(b);free(g);free(d);
		}
		else if (!strcmp(cmd,"close"))
		{
			int rc = digital_rf_close_write_hdf5(w); w=NULL;
			printf("rc=%d\n",rc);
		}
		fflush(stdout);
	}
	if (w) digital_rf_close_write_hdf5(w);
	return 0;
}
