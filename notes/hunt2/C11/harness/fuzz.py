#!/venv/bin/python
"""Round-2 fuzz for C11.  Oracle written from the property text.

usage: fuzz.py <seed0> <ncases> [driver]
"""
import hashlib
import json
import os
import random
import shutil
import subprocess
import sys
import tempfile
from fractions import Fraction

HERE = os.path.dirname(os.path.abspath(__file__))
DRIVER = os.environ.get("DRIVER", os.path.join(HERE, "driver"))
PKG = os.path.join(HERE, "pkg")
PY = "/venv/bin/python"

TYPES = ["li1", "lu1", "li2", "bi2", "lu2", "bu2", "li4", "bi4", "lu4", "li8", "bi8",
         "lu8", "bu8", "lf4", "bf4", "lf8", "bf8"]
NPT = {"i1": "i1", "u1": "u1", "i2": "i2", "u2": "u2", "i4": "i4", "u4": "u4", "i8": "i8",
       "u8": "u8", "f4": "f4", "f8": "f8"}


def sha(p):
    with open(p, "rb") as f:
        return hashlib.sha1(f.read()).hexdigest()


def snapshot(d):
    out = {}
    for root, dirs, files in os.walk(d):
        for fn in files:
            p = os.path.join(root, fn)
            out[os.path.relpath(p, d)] = sha(p)
        for dn in dirs:
            out[os.path.relpath(os.path.join(root, dn), d) + "/"] = "dir"
    return out


class Chan(object):
    """oracle state of one channel directory"""

    def __init__(self, P):
        self.P = P
        self.final = set()  # file periods (ms) finalized
        self.samples = set()  # absolute sample indices recorded

    def period(self, s):
        P = self.P
        ms = (s * P["den"] * 1000) // P["num"]
        return (ms // P["file_ms"]) * P["file_ms"]

    def fname(self, per):
        P = self.P
        sec = per // 1000
        sub = (sec // P["sub_s"]) * P["sub_s"]
        import datetime

        dt = datetime.datetime.fromtimestamp(sub, tz=datetime.timezone.utc)
        return "%s/rf@%d.%03d.h5" % (dt.strftime("%Y-%m-%dT%H-%M-%S"), sec, per % 1000)


def first_sample_of(P, ms):
    # ceil(ms/1000 * num/den)
    return -((-ms * P["num"]) // (1000 * P["den"]))


def run_session(chdir, P, start, ops, chan, stats, log):
    """run one session with the driver; returns list of problems"""
    problems = []
    cmds = ["open %s %s %d %d %d %d %d %d %d %d %d %d" % (
        chdir, P["type"], P["sub_s"], P["file_ms"], start, P["num"], P["den"], P["cplx"],
        P["nsub"], P["cont"], P["comp"], P["chk"])]
    for op in ops:
        if op[0] == "w":
            cmds.append("write %d %d" % (op[1], op[2]))
        else:
            cmds.append("wblocks %d %d %s" % (op[1], len(op[2]), " ".join("%d %d" % gd for gd in op[2])))
    cmds.append("close")
    before = snapshot(chdir)
    pr = subprocess.run([DRIVER], input="\n".join(cmds) + "\n", capture_output=True, text=True)
    out = pr.stdout.strip().split("\n")
    log.append((cmds, out))
    if pr.returncode != 0 or len(out) != len(cmds):
        problems.append("driver died rc=%s out=%r err=%r" % (pr.returncode, out[-3:], pr.stderr[-300:]))
        return problems
    if out[0] != "rc=0":
        problems.append("matching session refused at open")
        return problems
    # oracle
    cursor = 0
    open_per = None
    closed_here = set()
    dead = False
    for op, res in zip(ops, out[1:-1]):
        f = dict(kv.split("=") for kv in res.split())
        rc = int(f["rc"])
        gi = int(f["gi"])
        if op[0] == "w":
            blocks = [(op[1], op[2])]
        else:
            n = op[1]
            gd = op[2]
            blocks = []
            for i, (g, d) in enumerate(gd):
                e = gd[i + 1][1] if i + 1 < len(gd) else n
                blocks.append((g, e - d))
        if blocks[0][0] < cursor:
            stats["past"] += 1
            if rc == 0:
                problems.append("write in the past accepted %r" % (op,))
            if gi != cursor:
                problems.append("cursor moved by refused past write %r" % (op,))
            continue
        # segments per file in order
        ok = True
        nseg = 0
        for g, ln in blocks:
            s = start + g
            end = s + ln
            while s < end:
                per = chan.period(s)
                nxt = first_sample_of(P, per + P["file_ms"])
                e = min(end, nxt)
                if per != open_per:
                    if per in chan.final:
                        ok = False
                        break
                    if open_per is not None:
                        chan.final.add(open_per)
                    open_per = per
                    # a refused create closes the open file as well (see below)
                for x in range(s, e):
                    chan.samples.add(x)
                cursor = e - start
                nseg += 1
                s = e
            if not ok:
                break
        if ok:
            stats["acc"] += 1
            if nseg > 1:
                stats["acc_multi"] += 1
            if rc != 0:
                problems.append("acceptable write refused rc=%d %r (hf=%s)" % (rc, op, f["hf"]))
                dead = True
                break
        else:
            stats["ref"] += 1
            if nseg:
                stats["ref_partial"] += 1
            if rc == 0:
                problems.append("write needing finalized file accepted %r" % (op,))
            # the open file is finalized when the writer moves on to the refused one
            if open_per is not None:
                chan.final.add(open_per)
                open_per = None
            if f["hf"] != "0":
                problems.append("writer dead after a refusal %r" % (op,))
                dead = True
                break
        if gi != cursor:
            problems.append("cursor %d != expected %d after %r" % (gi, cursor, op))
    if open_per is not None:
        chan.final.add(open_per)
    if out[-1] != "rc=0" and not dead:
        problems.append("close failed")
    after = snapshot(chdir)
    for k, v in before.items():
        if after.get(k) != v:
            problems.append("ALTERED %s" % k)
    for k in after:
        if "tmp." in k:
            problems.append("tmp left %s" % k)
    want = set(chan.fname(p) for p in chan.final)
    got = set(k for k in after if k.endswith(".h5") and "rf@" in k)
    if want != got and not dead:
        problems.append("file set differs: missing %s extra %s" % (sorted(want - got)[:3], sorted(got - want)[:3]))
    return problems


def gen_params(rng):
    num, den = rng.choice([(100, 1), (200, 3), (1000, 7), (50, 1), (10, 1), (100000, 7), (1000, 1),
                           (12345, 10), (999, 2), (64, 1)])
    if os.environ.get("ODD"):
        num, den = rng.choice([(1000000007, 10000019), (2999999999, 30000001), (100, 3), (1, 1), (3, 1), (7, 2),
                               (1000003, 1009), (44100, 1), (48000, 1001), (65536, 3)])
    if os.environ.get("BIG"):
        num, den = rng.choice([(4000000000, 3), (1000000000, 1), (123456789, 1), (3999999999, 7), (2**31, 1)])
    rate = Fraction(num, den)
    if rate >= 1000:
        file_ms = rng.choice([1, 2, 5, 10, 20, 50])
        sub_s = rng.choice([1, 2, 10])
    else:
        file_ms = rng.choice([250, 500, 1000, 2000, 4000])
        sub_s = rng.choice([4, 8, 60, 3600])
    if rate * file_ms / 1000 < 2:
        file_ms = 1000
        sub_s = 10
    if (sub_s * 1000) % file_ms:
        sub_s = 3600
    cont = rng.random() < 0.45
    if os.environ.get("BIG"):
        cont = False
    comp = rng.choice([0, 0, 1])
    chk = rng.choice([0, 0, 1])
    return dict(type=rng.choice(TYPES), num=num, den=den, file_ms=file_ms, sub_s=sub_s,
                cplx=rng.choice([0, 1]), nsub=rng.choice([1, 1, 2, 3]), cont=int(cont), comp=comp, chk=chk)


def gen_ops(rng, P, spf, stream):
    """ops relative to session start; spf = approx samples per file"""
    ops = []
    cur = 0
    nops = rng.randint(1, 30 if stream else 8)
    for _ in range(nops):
        r = rng.random()
        if spf > 5000:
            n = rng.randint(1, 300)
            gap = rng.choice([0, 0, rng.randint(0, 50), max(0, spf - rng.randint(0, 300)), spf, 2 * spf + 3])
        elif stream:
            n = rng.randint(1, max(1, spf // 3))
            gap = 0 if r < 0.85 else rng.randint(0, spf)
        else:
            n = rng.randint(1, 3 * spf)
            gap = 0 if r < 0.4 else rng.randint(0, 3 * spf)
        if r > 0.97:
            # in the past
            ops.append(("w", max(0, cur - rng.randint(1, min(spf, 1000))), n))
            continue
        if not P["cont"] and rng.random() < 0.25 and n >= 2:
            k = rng.randint(2, min(4, n))
            ds = sorted(rng.sample(range(1, n), k - 1))
            gd = [(cur + gap, 0)]
            g = cur + gap
            prevd = 0
            for d in ds:
                g = g + (d - prevd) + rng.choice([0, 1, spf // 2, spf, 2 * spf + 3])
                gd.append((g, d))
                prevd = d
            ops.append(("b", n, gd))
            # cursor if fully accepted
            cur = gd[-1][0] + (n - gd[-1][1])
        else:
            ops.append(("w", cur + gap, n))
            cur = cur + gap + n
    return ops


def one_case(seed, keep=False):
    rng = random.Random(seed)
    stats = dict(past=0, acc=0, acc_multi=0, ref=0, ref_partial=0, sessions=0, mism=0, mism_ok=0)
    P = gen_params(rng)
    rate = Fraction(P["num"], P["den"])
    spf = max(2, int(rate * P["file_ms"] / 1000))
    base_t = rng.choice([0, 7, 10**9 - 3, 1400000000, 1483228795, 4102444800, 99999998, 86399])
    base = int(base_t * rate)
    root = tempfile.mkdtemp(prefix="c11_", dir=os.environ.get("SCRATCH", "/tmp/hw-C11-work"))
    ndirs = rng.choice([1, 1, 2, 3])
    tops = [os.path.join(root, "top%d" % i) for i in range(ndirs)]
    chans = []
    for t in tops:
        os.makedirs(os.path.join(t, "ch"))
        chans.append(Chan(P))
    problems = []
    log = []
    nsess = rng.randint(2, 7)
    span = spf * rng.choice([6, 12, 30])
    owner = {}  # file period -> dir index (a period is recorded in one directory only)
    for si in range(nsess):
        di = rng.randrange(ndirs)
        chan = chans[di]
        chdir = os.path.join(tops[di], "ch")
        # occasionally: parameter mismatch session
        if si > 0 and os.path.exists(os.path.join(chdir, "drf_properties.h5")) and rng.random() < 0.2:
            Q = dict(P)
            what = rng.choice(["type", "sub_s", "file_ms", "num", "den", "cplx", "nsub", "cont"])
            if what == "type":
                cands = [t for t in TYPES if t != P["type"] and not (
                    t[0] == P["type"][0] and t[2] == P["type"][2] and set([t[1], P["type"][1]]) == set("iu")) and not (
                    t[2] == "1" and P["type"][2] == "1" and set([t[1], P["type"][1]]) == set("iu"))]
                # 1-byte types: byte order is irrelevant; sign-only differences are the known round-1 finding
                Q["type"] = rng.choice(cands)
            elif what == "sub_s":
                Q["sub_s"] = P["sub_s"] * 2
            elif what == "file_ms":
                Q["file_ms"] = rng.choice([m for m in [1, 2, 5, 10, 20, 50, 250, 500, 1000, 2000, 4000]
                                           if (P["sub_s"] * 1000) % m == 0 and m != P["file_ms"]])
            elif what == "num":
                Q["num"] = P["num"] + 1
            elif what == "den":
                Q["den"] = P["den"] + 1
            elif what == "cplx":
                Q["cplx"] = 1 - P["cplx"]
            elif what == "nsub":
                Q["nsub"] = P["nsub"] + 1
            elif what == "cont":
                Q["cont"] = 1 - P["cont"]
            before = snapshot(chdir)
            cmds = ["open %s %s %d %d %d %d %d %d %d %d %d %d" % (
                chdir, Q["type"], Q["sub_s"], Q["file_ms"], base + rng.randint(0, span), Q["num"], Q["den"],
                Q["cplx"], Q["nsub"], Q["cont"], Q["comp"], Q["chk"])]
            pr = subprocess.run([DRIVER], input="\n".join(cmds) + "\n", capture_output=True, text=True)
            stats["mism"] += 1
            if pr.stdout.strip() != "rc=-1":
                problems.append("mismatch session (%s) accepted: %r" % (what, pr.stdout))
            elif snapshot(chdir) != before:
                problems.append("mismatch session (%s) touched directory" % what)
            else:
                stats["mism_ok"] += 1
            continue
        start = base + rng.randint(0, span)
        stream = rng.random() < 0.5
        ops = gen_ops(rng, P, spf, stream)
        # a file period may be recorded in only one directory: drop/shift ops that would
        # touch a period owned by another directory -> simply truncate the session there
        ok_ops = []
        for op in ops:
            if op[0] == "w":
                rngs = [(op[1], op[2])]
            else:
                gd = op[2]
                rngs = [(g, (gd[i + 1][1] if i + 1 < len(gd) else op[1]) - d) for i, (g, d) in enumerate(gd)]
            pers = set()
            for g, ln in rngs:
                s = start + g
                while s < start + g + ln:
                    per = chan.period(s)
                    pers.add(per)
                    s = first_sample_of(P, per + P["file_ms"])
            if any(owner.get(p, di) != di for p in pers):
                break
            ok_ops.append((op, pers))
        ops = [o for o, _ in ok_ops]
        if not ops:
            continue
        stats["sessions"] += 1
        nfinal_before = set(chan.final)
        pr = run_session(chdir, P, start, ops, chan, stats, log)
        for p in chan.final - nfinal_before:
            owner[p] = di
        problems += ["S%d: %s" % (si, x) for x in pr]
        if pr:
            break
    # read back
    if not problems:
        allsamples = set()
        for c in chans:
            allsamples |= c.samples
        spec = dict(tops=tops, P=P, samples=sorted(allsamples), seed=seed)
        sp = os.path.join(root, "spec.json")
        with open(sp, "w") as f:
            json.dump(spec, f)
        pr = subprocess.run([PY, os.path.join(HERE, "rd.py"), sp], capture_output=True, text=True,
                            env=dict(os.environ, PYTHONPATH=PKG))
        if pr.returncode != 0:
            problems.append("READBACK: " + (pr.stdout[-800:] + pr.stderr[-800:]))
    if problems and (keep or True):
        with open(os.path.join(root, "log.json"), "w") as f:
            json.dump(log, f, indent=1)
        print("SEED %d P=%r root=%s" % (seed, P, root))
        for p in problems:
            print("   ", p)
    else:
        shutil.rmtree(root)
    return stats, problems


if __name__ == "__main__":
    s0 = int(sys.argv[1])
    n = int(sys.argv[2])
    tot = {}
    bad = 0
    for s in range(s0, s0 + n):
        st, pr = one_case(s)
        for k, v in st.items():
            tot[k] = tot.get(k, 0) + v
        if pr:
            bad += 1
    print("DONE seeds %d..%d bad=%d stats=%r" % (s0, s0 + n - 1, bad, tot))
