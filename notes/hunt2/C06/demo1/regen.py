"""regen.py <channel dir> <saved original drf_properties.h5>
Regenerate the channel properties from the data files and read the channel back."""
import os
import sys

import h5py
import numpy as np

import digital_rf

ch, saved = sys.argv[1], sys.argv[2]
try:
    digital_rf.recreate_properties_file(ch)
except Exception as e:
    print("recreate_properties_file refused: %s" % e)
    sys.exit(1)
with h5py.File(saved, "r") as a, h5py.File(os.path.join(ch, "drf_properties.h5"), "r") as b:
    pa = {k: np.asarray(v).tolist() for k, v in a.attrs.items()}
    pb = {k: np.asarray(v).tolist() for k, v in b.attrs.items()}
if pa != pb:
    print("regenerated properties differ: %r != %r" % (pb, pa))
    sys.exit(1)
r = digital_rf.DigitalRFReader(os.path.dirname(ch))
b = r.get_bounds(os.path.basename(ch))
if b != (170000000000, 170000000299):
    print("bounds after regeneration %r" % (b,))
    sys.exit(1)
d = r.read_vector_raw(b[0], 300, os.path.basename(ch))
if np.asarray(d).reshape(300, -1)[:, 0].tolist() != list(range(300)):
    print("data after regeneration differs")
    sys.exit(1)
sys.exit(0)
