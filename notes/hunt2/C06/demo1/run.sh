#!/bin/bash
# REPO=<checkout> bash run.sh
# A writer start that fails while creating drf_properties.h5 on a full disk must not leave a broken
# drf_properties.h5 behind: the channel's data files are self-describing, so the properties must stay regenerable.
# exit 0 = ok, 1 = defect observed, 2 = demo could not be set up
set -u
: "${REPO:?set REPO to a checkout}"
HERE=$(cd "$(dirname "$0")" && pwd)
W=$(mktemp -d)
trap 'rm -rf "$W"' EXIT
PY=/venv/bin/python

gcc -O1 -w -I"$REPO/c/include" -I/usr/include/hdf5/serial "$HERE/demo.c" "$REPO/c/lib/rf_write_hdf5.c" \
    -L/usr/lib/x86_64-linux-gnu/hdf5/serial -lhdf5 -lm -o "$W/demo" || { echo "SETUP: cannot build demo"; exit 2; }
gcc -shared -fPIC -O1 -w "$HERE/fulldisk.c" -o "$W/fulldisk.so" -ldl || { echo "SETUP: cannot build shim"; exit 2; }
/tmp/agent-tools/mkscratch.sh "$REPO" "$W/pkg" || { echo "SETUP: mkscratch failed"; exit 2; }

CH="$W/top/ch"
mkdir -p "$CH"
# 1. an ordinary session: three finalized data files + drf_properties.h5
"$W/demo" "$CH" write >/dev/null 2>&1 || { echo "SETUP: first session failed"; exit 2; }
[ "$(find "$CH" -name 'rf@*.h5' | wc -l)" = 3 ] || { echo "SETUP: expected 3 data files"; exit 2; }
# 2. the channel properties file is lost
mv "$CH/drf_properties.h5" "$W/saved_properties.h5"
# 3. the recorder is restarted while the disk is full: the start must fail ...
LD_PRELOAD="$W/fulldisk.so" "$W/demo" "$CH" start >/dev/null 2>&1
rc=$?
[ $rc = 3 ] || { echo "SETUP: writer start on a full disk returned $rc, expected failure (3)"; exit 2; }
# ... and must not leave anything behind
left=""
if [ -e "$CH/drf_properties.h5" ]; then
    left="drf_properties.h5 of $(stat -c %s "$CH/drf_properties.h5") bytes left behind by the failed start"
fi
# 4. space is freed again: regenerate the properties from the data files, read the channel, restart the writer
(cd "$W" && PYTHONPATH="$W/pkg" $PY "$HERE/regen.py" "$CH" "$W/saved_properties.h5" >"$W/regen.log" 2>&1)
rc_regen=$?
msg=$(tail -1 "$W/regen.log")
"$W/demo" "$CH" start >/dev/null 2>&1
rc_start=$?

if [ -n "$left" ] || [ "$rc_regen" != 0 ] || [ "$rc_start" != 0 ]; then
    echo "DEFECT: $left; regeneration: ${msg:-ok} (rc $rc_regen); next writer start rc $rc_start (0 = accepted)"
    exit 1
fi
echo "OK: failed start left no drf_properties.h5; properties regenerated identically, channel reads back, writer restarts"
exit 0
