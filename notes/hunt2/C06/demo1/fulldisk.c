/* LD_PRELOAD shim: the disk is full - every write to a *.h5 file fails with ENOSPC
 * (creating the directory entry still works, as on a real full file system). */
#define _GNU_SOURCE
#include <dlfcn.h>
#include <errno.h>
#include <stdio.h>
#include <string.h>
#include <unistd.h>
#include <sys/types.h>

static int is_h5(int fd)
{
	char p[64], path[4096];
	ssize_t n;
	snprintf(p, sizeof p, "/proc/self/fd/%d", fd);
	n = readlink(p, path, sizeof path - 1);
	if (n <= 0) return 0;
	path[n] = 0;
	return strstr(path, ".h5") != NULL;
}
ssize_t pwrite64(int fd, const void *buf, size_t n, off64_t off)
{
	static ssize_t (*real)(int, const void *, size_t, off64_t);
	if (!real) real = dlsym(RTLD_NEXT, "pwrite64");
	if (is_h5(fd)) { errno = ENOSPC; return -1; }
	return real(fd, buf, n, off);
}
ssize_t pwrite(int fd, const void *buf, size_t n, off_t off)
{
	static ssize_t (*real)(int, const void *, size_t, off_t);
	if (!real) real = dlsym(RTLD_NEXT, "pwrite");
	if (is_h5(fd)) { errno = ENOSPC; return -1; }
	return real(fd, buf, n, off);
}
ssize_t write(int fd, const void *buf, size_t n)
{
	static ssize_t (*real)(int, const void *, size_t);
	if (!real) real = dlsym(RTLD_NEXT, "write");
	if (fd > 2 && is_h5(fd)) { errno = ENOSPC; return -1; }
	return real(fd, buf, n);
}
