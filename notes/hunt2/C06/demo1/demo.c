/* demo.c <channel dir> <mode>
 *   mode "write": one session, 3 s of 100 Hz int16 data in 1 s files (3 finalized, self-describing data files)
 *   mode "start": only start a writer on the channel (create-or-verify of drf_properties.h5) and close it again
 * exit status: 0 = writer started, 3 = digital_rf_create_write_hdf5 returned NULL
 */
#include <stdio.h>
#include <string.h>
#include "digital_rf.h"

int main(int argc, char **argv)
{
	char dir[1024];
	short data[300];
	int i;
	Digital_rf_write_object *o;
	uint64_t start = (uint64_t)1700000000 * 100;

	strcpy(dir, argv[1]);
	if (!strcmp(argv[2], "write"))
	{
		for (i = 0; i < 300; i++) data[i] = (short)i;
		o = digital_rf_create_write_hdf5(dir, H5T_NATIVE_SHORT, 10, 1000, start, 100, 1, "session-1", 0, 0, 0, 1, 0, 0);
		if (!o) return 3;
		if (digital_rf_write_hdf5(o, 0, data, 300)) return 4;
		return digital_rf_close_write_hdf5(o) ? 5 : 0;
	}
	/* a restarted recorder, one hour later */
	o = digital_rf_create_write_hdf5(dir, H5T_NATIVE_SHORT, 10, 1000, start + 360000, 100, 1, "session-2", 0, 0, 0, 1, 0, 0);
	if (!o) return 3;
	digital_rf_close_write_hdf5(o);
	return 0;
}
