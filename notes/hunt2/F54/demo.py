import os, sys, tempfile, shutil, numpy as np
import digital_rf as drf
d=tempfile.mkdtemp()
try:
    for ch, fc in (("ch1", 2), ("ch[1]", 5)):
        md=os.path.join(d, ch, "metadata"); os.makedirs(md)
        w=drf.DigitalMetadataWriter(md, 3600, fc, 10, 1, "md"); w.write(100*fc, {"a": fc}); del w
    r=drf.DigitalMetadataReader(os.path.join(d, "ch[1]", "metadata"))
    fcs=r.get_file_cadence_secs() if hasattr(r,'get_file_cadence_secs') else r._file_cadence_secs
    print("file cadence read for ch[1]:", fcs)
    sys.exit(0 if fcs==5 else 1)
finally:
    shutil.rmtree(d)
