#!/venv/bin/python
"""C-API fuzz for C19 (+ atomic rejection): cfz.py seed0 nseeds [asan]"""
import sys, os, random, shutil, tempfile, subprocess, glob, time
import numpy as np, h5py
sys.path.insert(0, "/tmp/hw-C19-work")
from fz import exp_names, CONFIGS

WORK = "/tmp/hw-C19-work/run"
os.makedirs(WORK, exist_ok=True)
DRV = "/tmp/hw-C19-work/cdrv/drv"


def first_of_later_file(cfg, start, rel, k):
    n, dd, fms, sds = cfg
    s = start + rel
    ms = (s * dd * 1000) // n
    fm = (ms // fms + k) * fms
    return -(-fm * n // (dd * 1000)) - start


def run_seed(seed, drv):
    rng = random.Random(seed)
    cfg = rng.choice(CONFIGS)
    n, dd, fms, sds = cfg
    unit = max(1, n * fms // (dd * 1000))
    cont = rng.random() < 0.5
    comp = rng.choice([0, 0, 1])
    chk = int(rng.random() < 0.3)
    if unit * dd * 1000 > n * fms or n * fms < dd * 1000:
        pass
    if n * fms < dd * 1000 and (comp or chk):
        comp = 0; chk = 0
    cplx = int(rng.random() < 0.5)
    nsub = rng.choice([1, 1, 2])
    t0 = rng.choice([0, 1, 1500000000, 1700000000])
    start = (t0 * n + dd - 1) // dd + rng.choice([0, 0, 1, rng.randrange(0, 50)])
    d = tempfile.mkdtemp(prefix="c%d_" % seed, dir=WORK)
    cmds = ["I %s %d %d %d %d %d %d %d %d %d %d" % (d, sds, fms, start, n, dd, comp, chk, cplx, nsub, int(cont))]
    exp = [("ok", 0, None)]  # (status, cursor, hi)
    hi = -1
    written = set()
    ncalls = rng.randrange(1, 16)
    for c in range(ncalls):
        cur = hi + 1
        k = rng.random()
        g = rng.choice([0, 0, 1, rng.randrange(0, unit + 2), rng.randrange(0, 20 * unit + 2)])
        if rng.random() < 0.15:
            g = first_of_later_file(cfg, start, cur + g, rng.randrange(1, 4)) - cur
        if k < 0.3:
            L = min(rng.choice([0, 1, 2, rng.randrange(1, unit + 2), rng.randrange(1, 4 * unit + 3)]), 20000)
            pos = cur + g
            bad = False
            if rng.random() < 0.2 and cur > 0:
                pos = cur - rng.randrange(1, cur + 1); bad = True
            cmds.append("W %d %d" % (pos, L))
            if bad:
                exp.append(("rej", cur, hi))
            else:
                if L:
                    written.update(range(pos, pos + L)); hi = pos + L - 1
                exp.append(("ok", hi + 1, hi))
        elif k < 0.33:
            cmds.append("N")
            exp.append(("rej", cur, hi))
        else:
            nb = rng.randrange(1, 7)
            pos = cur + g
            gl, bl, idxs = [], [], []
            for b in range(nb):
                L = min(rng.choice([1, 1, 2, rng.randrange(1, unit + 2), rng.randrange(1, 3 * unit + 3)]), 6000)
                gl.append(pos); bl.append(len(idxs))
                idxs.extend(range(pos, pos + L)); pos += L
                gg = rng.choice([0, 1, 1, rng.randrange(0, unit + 2), rng.randrange(0, 10 * unit + 2)])
                if rng.random() < 0.25:
                    gg = first_of_later_file(cfg, start, pos, rng.randrange(1, 3)) - pos
                pos += gg
            total = len(idxs)
            bad = False
            if rng.random() < 0.35:
                bad = True
                r = rng.randrange(9)
                j = rng.randrange(nb)
                if r == 0:
                    bl[0] = 1 if total > 1 or True else 0
                elif r == 1 and nb > 1:
                    j = max(j, 1); gl[j] = gl[j - 1]
                elif r == 2 and nb > 1:
                    j = max(j, 1); bl[j] = bl[j - 1]
                elif r == 3 and nb > 1:
                    j = max(j, 1)
                    if bl[j] - bl[j - 1] >= 1:
                        gl[j] = gl[j - 1] + (bl[j] - bl[j - 1]) - 1
                        if gl[j] <= gl[j - 1]:
                            gl[j] = gl[j - 1]
                elif r == 4:
                    bl[-1] = total + rng.randrange(0, 3)
                    if nb > 1 and bl[-1] <= bl[-2]:
                        pass
                elif r == 5 and cur > 0:
                    gl[0] = cur - 1
                    if nb > 1 and gl[1] - gl[0] < bl[1] - bl[0]:
                        pass
                elif r == 6 and nb > 2:
                    j = rng.randrange(1, nb - 1); gl[j], gl[j + 1] = gl[j + 1], gl[j]
                elif r == 7 and nb > 1 and cont:
                    bad = True  # several blocks in continuous mode
                else:
                    bad = False
            if cont and nb > 1:
                bad = True
            cmds.append("B %d %d %s %s" % (nb, total, " ".join(map(str, gl)), " ".join(map(str, bl))))
            if bad:
                exp.append(("rej", cur, hi))
            else:
                written.update(idxs); hi = idxs[-1]
                exp.append(("ok", hi + 1, hi))
    cmds.append("C")
    p = subprocess.run([drv], input="\n".join(cmds) + "\n", capture_output=True, text=True)
    lines = p.stdout.strip().split("\n")
    desc = "seed %d cfg %r cont %d comp %d chk %d cplx %d nsub %d start %d" % (seed, cfg, cont, comp, chk, cplx, nsub, start)
    try:
        if p.returncode != 0:
            return desc + "\n  driver exit %d\n%s" % (p.returncode, p.stderr[-3000:])
        if "ERROR: AddressSanitizer" in p.stderr or "runtime error" in p.stderr:
            return desc + "\n  sanitizer:\n" + "\n".join([l for l in p.stderr.split("\n") if "runtime error" in l or "Sanitizer" in l][:5])
        if len(lines) != len(cmds):
            return desc + "\n  %d lines for %d cmds" % (len(lines), len(cmds))
        for i, (st, cursor, h) in enumerate(exp):
            rc, gi, lf, ld = lines[i].split(" ")
            rc = int(rc); gi = int(gi)
            if (rc == 0) != (st == "ok"):
                return desc + "\n  cmd %d %r: rc %d expected %s" % (i, cmds[i][:200], rc, st)
            if gi != cursor:
                return desc + "\n  cmd %d %r: global_index %d expected %d" % (i, cmds[i][:200], gi, cursor)
            if h is None or h < 0:
                if lf != "-" or ld != "-":
                    return desc + "\n  cmd %d: last file %s before any write" % (i, lf)
            else:
                sub, base = exp_names(cfg, start, h)
                if lf != d + "/" + sub + "/" + base or ld != d + "/" + sub + "/":
                    return desc + "\n  cmd %d %r: last file %s dir %s expected %s/%s" % (i, cmds[i][:200], lf, ld, sub, base)
        if lines[-1].split(" ")[0] != "0":
            return desc + "\n  close rc " + lines[-1]
        # disk check
        got = {}
        for f in sorted(glob.glob(os.path.join(d, "*", "*rf@*.h5"))):
            if os.path.basename(f).startswith("tmp."):
                return desc + "\n  tmp file left " + f
            with h5py.File(f, "r") as h:
                data = h["rf_data"][...]; idx = h["rf_data_index"][...]
            v = data["r"][:, 0] if data.dtype.names else data[:, 0]
            for j in range(len(idx)):
                g0 = int(idx[j, 0]); o0 = int(idx[j, 1]); o1 = int(idx[j + 1, 1]) if j + 1 < len(idx) else len(v)
                if not (o0 <= o1 <= len(v)):
                    return desc + "\n  bad index in %s: %r" % (f, idx)
                for o in range(o0, o1):
                    if cont and comp == 0 and chk == 0 and v[o] == -32768:
                        continue
                    gg = g0 + o - o0 - start
                    if gg in got:
                        return desc + "\n  index %d twice on disk" % gg
                    got[gg] = int(v[o])
        if len(written) < 400000:
            if set(got) != written:
                return desc + "\n  disk/model differ: disk only %r model only %r" % (sorted(set(got) - written)[:5], sorted(written - set(got))[:5])
            for gg, val in got.items():
                if val != (gg % 1000) + 1:
                    return desc + "\n  value at %d is %d" % (gg, val)
        return None
    finally:
        shutil.rmtree(d, ignore_errors=True)


if __name__ == "__main__":
    s0, ns = int(sys.argv[1]), int(sys.argv[2])
    drv = DRV + "_asan" if len(sys.argv) > 3 else DRV
    nf = 0
    for s in range(s0, s0 + ns):
        r = run_seed(s, drv)
        if r:
            nf += 1; print("FAIL", r); sys.stdout.flush()
    print("done %d..%d failures %d" % (s0, s0 + ns, nf))
