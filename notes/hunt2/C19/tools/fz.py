#!/venv/bin/python
"""C19 round-2 fuzzer. usage: fz.py seed0 nseeds [profile]
Oracle from the property text only:
  hi = highest index written (rel. to start), nacc = samples accepted
  next == hi+1 ; written == nacc ; gap == hi+1-nacc ; ret == hi+1
  last file/dir == file/dir of the exact rational time of sample start+hi
plus: what is on disk afterwards is exactly the model's set of indices with the model's values.
"""
import sys, os, random, shutil, tempfile, time, glob, traceback
from fractions import Fraction
import numpy as np

sys.path.insert(0, os.environ.get("PKG", "/tmp/hw-C19-work/pkg"))
import digital_rf
import h5py

WORK = os.environ.get("WORK", "/tmp/hw-C19-work/run")

# (num, den, file_ms, subdir_s)
CONFIGS = [
    (1, 3, 1000, 10),
    (1, 10, 500, 5),
    (1, 1, 250, 1),
    (3, 1, 100, 1),
    (1000, 1, 1, 1),
    (999, 1, 1, 1),
    (1001, 1, 1, 1),
    (100, 1, 3600000, 3600),
    (2**31 - 1, 2**20 + 7, 40, 2),
    (10**9, 999983, 100, 1),
    (100, 1, 7, 7),
    (200, 3, 1500, 3),
    (10, 1, 1000, 86400 * 365),
    (10**8, 7, 1, 1),
    (12345, 1000, 1000, 1),
    (44100, 1, 20, 1),
    (1, 60, 60000, 3600),
    (7, 1000, 100000, 1000),
]
DTYPES = ["i2", "f4", ">i4", "u1", "c8", ">f8", "i8", ">u2", "c16", "i1"]


def exp_names(cfg, start, hi):
    n, d, fms, sds = cfg
    s = start + hi
    ms = (s * d * 1000) // n
    sec = (s * d) // n
    fm = ms // fms * fms
    ds = sec // sds * sds
    t = time.gmtime(ds)
    sub = "%04i-%02i-%02iT%02i-%02i-%02i" % (t.tm_year, t.tm_mon, t.tm_mday, t.tm_hour, t.tm_min, t.tm_sec)
    return sub, "rf@%d.%03d.h5" % (fm // 1000, fm % 1000)


def samples_per_file(cfg):
    n, d, fms, sds = cfg
    return Fraction(n * fms, d * 1000)


def mkdata(w, idxs, rng, form):
    """values: function of the relative index, never the fill value."""
    idxs = np.asarray(idxs, dtype=np.int64)
    N = len(idxs)
    nsub = w.num_subchannels
    rd = w.realdtype
    if rd.kind == "f":
        base = (idxs % 1000).astype("f8") + 1.0
    elif rd.kind == "u":
        base = (idxs % 100) + 1
    else:
        base = (idxs % 100) + 1
    if w.is_complex:
        r = np.empty((N, nsub), dtype=rd)
        i = np.empty((N, nsub), dtype=rd)
        for k in range(nsub):
            r[:, k] = base + k
            i[:, k] = base + k + 7
        if form == "struct" or rd.kind != "f":
            if form == "interleaved":
                a = np.empty((N, 2 * nsub), dtype=rd)
                a[:, 0::2] = r
                a[:, 1::2] = i
                return a
            a = np.empty((N, nsub), dtype=np.dtype([("r", rd), ("i", rd)]))
            a["r"] = r
            a["i"] = i
            return a
        if form == "interleaved":
            a = np.empty((N, 2 * nsub), dtype=rd)
            a[:, 0::2] = r
            a[:, 1::2] = i
            return a
        a = (r.astype("f8") + 1j * i.astype("f8")).astype("c%d" % (rd.itemsize * 2))
        return a
    a = np.empty((N, nsub), dtype=rd)
    for k in range(nsub):
        a[:, k] = base + k
    if nsub == 1 and form == "1d":
        return a[:, 0].copy()
    return a


def expected_val(w, idx, k=0):
    rd = w.realdtype
    if rd.kind == "f":
        b = (idx % 1000) + 1.0
    else:
        b = (idx % 100) + 1
    return b + k


class Fail(Exception):
    pass


def check(w, m, cfg, start, d, ret=None, what=""):
    hi, nacc = m["hi"], m["nacc"]
    nxt = hi + 1
    got = (w.get_next_available_sample(), w.get_total_samples_written(), w.get_total_gap_samples())
    exp = (nxt, nacc, nxt - nacc)
    if got != exp:
        raise Fail("%s: counters (next,written,gap)=%r expected %r" % (what, got, exp))
    if ret is not None and ret != nxt:
        raise Fail("%s: returned %r expected %r" % (what, ret, nxt))
    lf, ld = w.get_last_file_written(), w.get_last_dir_written()
    if hi < 0:
        if lf != "" or ld != "":
            raise Fail("%s: last file/dir %r %r before any write" % (what, lf, ld))
    else:
        sub, base = exp_names(cfg, start, hi)
        elf = d.rstrip("/") + "/" + sub + "/" + base
        eld = d.rstrip("/") + "/" + sub + "/"
        if lf != elf or ld != eld:
            raise Fail("%s: last file/dir %r %r expected %r %r" % (what, lf, ld, elf, eld))


def disk_set(d, start, continuous, w):
    """return dict relindex -> first-subchannel real value as found on disk"""
    out = {}
    files = sorted(glob.glob(os.path.join(d, "*", "*rf@*.h5")))
    for f in files:
        if os.path.basename(f).startswith("tmp."):
            raise Fail("tmp file left after close: %s" % f)
        with h5py.File(f, "r") as h:
            data = h["rf_data"][...]
            idx = h["rf_data_index"][...]
        if data.dtype.names:
            v = data["r"][:, 0]
        else:
            v = data[:, 0]
        v = np.asarray(v)
        if np.iscomplexobj(v):
            v = v.real
        nrows = len(v)
        for j in range(len(idx)):
            g0 = int(idx[j, 0]); o0 = int(idx[j, 1])
            o1 = int(idx[j + 1, 1]) if j + 1 < len(idx) else nrows
            if o1 < o0 or o1 > nrows:
                raise Fail("bad index rows in %s: %r nrows %d" % (f, idx, nrows))
            for o in range(o0, o1):
                g = g0 + (o - o0) - start
                val = v[o]
                if continuous:
                    # fill values mark unwritten samples
                    if w.realdtype.kind == "f":
                        if np.isnan(val):
                            continue
                    elif w.realdtype.kind == "i":
                        if val == np.iinfo(w.realdtype).min:
                            continue
                    else:
                        if val == 0:
                            continue
                if g in out:
                    raise Fail("index %d twice on disk (%s)" % (g, f))
                out[g] = float(val)
    return out


def run_seed(seed, profile):
    rng = random.Random(seed)
    cfg = rng.choice(CONFIGS)
    n, dd, fms, sds = cfg
    spf = samples_per_file(cfg)
    dt = rng.choice(DTYPES)
    cont = rng.random() < 0.5
    comp = rng.choice([0, 0, 1, 9])
    chk = rng.random() < 0.3
    nsub = rng.choice([1, 1, 2, 3])
    is_complex = rng.random() < 0.5
    if int(spf) == 0 and (comp or chk):
        # known side observation: max_chunk_size == 0 makes every write fail with filters
        comp = 0; chk = False
    # start: on boundaries
    t0 = rng.choice([0, 1, 1500000000, 1700000000, 86400 * 365 * 30])
    start = (t0 * n + dd - 1) // dd  # ceil -> first sample at/after t0
    start += rng.choice([0, 0, 1, -1 if start > 0 else 0, rng.randrange(0, 50)])
    if n * 1000 > 2**31 * dd:
        pass
    d = tempfile.mkdtemp(prefix="s%d_" % seed, dir=WORK)
    desc = "seed %d cfg %r dtype %s cont %d comp %d chk %d nsub %d cplx %d start %d" % (
        seed, cfg, dt, cont, comp, chk, nsub, is_complex, start)
    log = []
    try:
        dirarg = d + rng.choice(["", "/"])
        w = digital_rf.DigitalRFWriter(dirarg, dt, sds, fms, start, n, dd, None, comp, chk, is_complex, nsub, cont, False)
        m = {"hi": -1, "nacc": 0}
        written = {}
        check(w, m, cfg, start, d, None, "init")
        ncalls = rng.randrange(1, 14)
        # typical chunk length relative to file size
        unit = max(1, int(spf))
        for c in range(ncalls):
            cur = m["hi"] + 1
            kind = rng.random()
            form = rng.choice(["2d", "1d", "struct", "interleaved"])
            if kind < 0.12:
                # rejected calls
                r = rng.randrange(8)
                try:
                    if r == 0 and cur > 0:
                        w.rf_write(mkdata(w, range(3), rng, form), cur - rng.randrange(1, cur + 1))
                    elif r == 1:
                        w.rf_write_blocks(mkdata(w, range(5), rng, form), [cur + 1, cur + 10], [1, 3])
                    elif r == 2:
                        w.rf_write_blocks(mkdata(w, range(5), rng, form), [cur + 1, cur + 1], [0, 3])
                    elif r == 3:
                        w.rf_write_blocks(mkdata(w, range(5), rng, form), [cur + 1, cur + 2], [0, 3])
                    elif r == 4:
                        w.rf_write_blocks(mkdata(w, range(5), rng, form), [cur + 1, cur + 20], [0, 5])
                    elif r == 5:
                        w.rf_write_blocks(mkdata(w, range(5), rng, form), [cur + 1, cur + 20, cur + 30], [0, 3, 2])
                    elif r == 6:
                        w.rf_write_blocks(mkdata(w, range(0), rng, "2d"), [cur + 1], [0])
                    elif r == 7 and cur > 0:
                        w.rf_write_blocks(mkdata(w, range(5), rng, form), [cur - 1, cur + 20], [0, 3])
                    else:
                        w.rf_write(mkdata(w, range(3), rng, form), -1)
                    raise Fail("call %d: invalid call kind %d accepted" % (c, r))
                except (ValueError, TypeError, IndexError) as e:
                    log.append(("rej", r))
                check(w, m, cfg, start, d, None, "after rejected call %d kind %d" % (c, r))
                continue
            if kind < 0.2:
                # empty write ahead of / at the cursor
                ns = rng.choice([None, cur, cur + rng.randrange(0, 5 * unit + 2)])
                ret = w.rf_write(mkdata(w, range(0), rng, "2d"), ns)
                log.append(("empty", ns))
                check(w, m, cfg, start, d, ret, "after empty write %d" % c)
                continue
            # choose gap before
            g = rng.choice([0, 0, 0, 1, rng.randrange(0, unit + 2), rng.randrange(0, 30 * unit + 2)])
            if rng.random() < 0.15:
                # jump exactly onto a file boundary: find first sample of some later file
                s = start + cur + g
                ms = (s * dd * 1000) // n
                fm = (ms // fms + rng.randrange(1, 4)) * fms
                fs = -(-fm * n // (dd * 1000))  # ceil
                g = fs - start - cur
            if kind < 0.6:
                L = rng.choice([1, 1, 2, rng.randrange(1, unit + 2), rng.randrange(1, 4 * unit + 3)])
                L = min(L, 20000)
                pos = cur + g
                idxs = list(range(pos, pos + L))
                arr = mkdata(w, idxs, rng, form)
                nsarg = pos if (g > 0 or rng.random() < 0.5) else None
                if nsarg is not None:
                    nsarg = rng.choice([nsarg, np.uint64(nsarg), np.int64(nsarg), float(nsarg) if nsarg < 2**53 else nsarg])
                ret = w.rf_write(arr, nsarg)
                log.append(("w", pos, L))
            else:
                nb = rng.randrange(1, 6)
                pos = cur + g
                idxs = []
                gl = []
                bl = []
                for b in range(nb):
                    L = rng.choice([1, 1, 2, rng.randrange(1, unit + 2), rng.randrange(1, 3 * unit + 3)])
                    L = min(L, 8000)
                    gl.append(pos)
                    bl.append(len(idxs))
                    idxs.extend(range(pos, pos + L))
                    pos += L
                    gg = rng.choice([0, 1, 1, rng.randrange(0, unit + 2), rng.randrange(0, 10 * unit + 2)])
                    if rng.random() < 0.2:
                        s = start + pos
                        ms = (s * dd * 1000) // n
                        fm = (ms // fms + rng.randrange(1, 3)) * fms
                        fs = -(-fm * n // (dd * 1000))
                        gg = fs - start - pos
                    pos += gg
                arr = mkdata(w, idxs, rng, form)
                f2 = rng.randrange(4)
                if f2 == 0:
                    ga, ba = gl, bl
                elif f2 == 1:
                    ga, ba = np.array(gl, dtype=np.uint64), np.array(bl, dtype=np.uint64)
                elif f2 == 2:
                    ga, ba = np.array(gl, dtype=np.int64), np.array(bl, dtype=np.int32)
                else:
                    ga = np.array(gl, dtype=np.float64) if max(gl) < 2**53 else gl
                    ba = np.array(bl, dtype=np.float64)
                ret = w.rf_write_blocks(arr, ga, ba)
                log.append(("b", gl, bl, len(idxs)))
            for i in idxs:
                if i in written:
                    raise Fail("generator error")
                written[i] = 1
            m["hi"] = idxs[-1]
            m["nacc"] += len(idxs)
            check(w, m, cfg, start, d, ret, "after call %d %r" % (c, log[-1]))
        w.close()
        check(w, m, cfg, start, d, None, "after close")
        w.close()
        check(w, m, cfg, start, d, None, "after 2nd close")
        if m["hi"] >= 0 and not os.path.exists(w.get_last_file_written()):
            raise Fail("reported last file does not exist: %s" % w.get_last_file_written())
        if m["nacc"] < 300000:
            ds = disk_set(d, start, cont and comp == 0 and not chk, w)
            if set(ds) != set(written):
                a = sorted(set(ds) - set(written))[:5]
                b = sorted(set(written) - set(ds))[:5]
                raise Fail("disk/model differ: on disk only %r, model only %r (n disk %d model %d)" % (a, b, len(ds), len(written)))
            for g, v in ds.items():
                if v != expected_val(w, g):
                    raise Fail("value at %d is %r expected %r" % (g, v, expected_val(w, g)))
        return None
    except Fail as e:
        return "%s\n   %s\n   log=%r" % (desc, e, log[-6:])
    except Exception as e:
        return "%s\n   EXC %s\n%s   log=%r" % (desc, repr(e), traceback.format_exc(), log[-6:])
    finally:
        shutil.rmtree(d, ignore_errors=True)


if __name__ == "__main__":
    s0 = int(sys.argv[1]); ns = int(sys.argv[2])
    profile = sys.argv[3] if len(sys.argv) > 3 else ""
    os.makedirs(WORK, exist_ok=True)
    nf = 0
    for s in range(s0, s0 + ns):
        r = run_seed(s, profile)
        if r:
            nf += 1
            print("FAIL", r)
            sys.stdout.flush()
    print("done %d..%d failures %d" % (s0, s0 + ns, nf))
