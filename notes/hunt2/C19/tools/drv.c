/* replay driver: reads commands from stdin
 *  I dir dtype(i2) subdir_s file_ms start num den comp chk cplx nsub cont
 *  W next len                      -> digital_rf_write_hdf5
 *  B nblk len g0 g1 .. b0 b1 ..    -> digital_rf_write_blocks_hdf5
 *  N                               -> write with NULL vector
 *  C                               -> close
 * after each call prints: rc global_index lastfile lastdir
 */
#include <stdio.h>
#include <stdlib.h>
#include <string.h>
#include <inttypes.h>
#include "digital_rf.h"

int main(void)
{
	char cmd[8], dir[2048];
	Digital_rf_write_object *o = NULL;
	uint64_t sds, fms, start, num, den;
	int comp, chk, cplx, nsub, cont;
	uint64_t base = 0;
	while (scanf("%7s", cmd) == 1)
	{
		int rc = 0;
		if (cmd[0] == 'I')
		{
			if (scanf("%2047s %" SCNu64 " %" SCNu64 " %" SCNu64 " %" SCNu64 " %" SCNu64 " %d %d %d %d %d", dir, &sds, &fms, &start, &num, &den, &comp, &chk, &cplx, &nsub, &cont) != 11) return 2;
			o = digital_rf_create_write_hdf5(dir, H5T_NATIVE_SHORT, sds, fms, start, num, den, "uuid", comp, chk, cplx, nsub, cont, 0);
			if (!o) { printf("INITFAIL\n"); return 3; }
			printf("0 %" PRIu64 " - -\n", o->global_index);
			fflush(stdout);
			continue;
		}
		else if (cmd[0] == 'W')
		{
			uint64_t next, len, i;
			if (scanf("%" SCNu64 " %" SCNu64, &next, &len) != 2) return 2;
			short *v = malloc(sizeof(short) * (len + 1) * nsub * (cplx ? 2 : 1));
			for (i = 0; i < len * nsub * (cplx ? 2 : 1); i++) v[i] = (short)(((next + i / (nsub * (cplx ? 2 : 1))) % 1000) + 1);
			rc = digital_rf_write_hdf5(o, next, v, len);
			free(v);
		}
		else if (cmd[0] == 'B')
		{
			uint64_t nb, len, i, k;
			if (scanf("%" SCNu64 " %" SCNu64, &nb, &len) != 2) return 2;
			uint64_t *g = malloc(sizeof(uint64_t) * (nb + 1)), *b = malloc(sizeof(uint64_t) * (nb + 1));
			for (i = 0; i < nb; i++) if (scanf("%" SCNu64, &g[i]) != 1) return 2;
			for (i = 0; i < nb; i++) if (scanf("%" SCNu64, &b[i]) != 1) return 2;
			int w = nsub * (cplx ? 2 : 1);
			short *v = malloc(sizeof(short) * (len + 1) * w);
			/* value = global index of the sample if the description is well formed */
			for (i = 0; i < len; i++)
			{
				uint64_t gi = 0; uint64_t j;
				for (j = 0; j < nb; j++) if (b[j] <= i) gi = g[j] + (i - b[j]);
				for (k = 0; k < (uint64_t)w; k++) v[i * w + k] = (short)((gi % 1000) + 1);
			}
			rc = digital_rf_write_blocks_hdf5(o, g, b, nb, v, len);
			free(v); free(g); free(b);
		}
		else if (cmd[0] == 'N')
		{
			rc = digital_rf_write_hdf5(o, o->global_index, NULL, 5);
		}
		else if (cmd[0] == 'C')
		{
			rc = digital_rf_close_write_hdf5(o);
			printf("%d closed - -\n", rc);
			fflush(stdout);
			o = NULL;
			continue;
		}
		char *lf = digital_rf_get_last_file_written(o), *ld = digital_rf_get_last_dir_written(o);
		printf("%d %" PRIu64 " %s %s\n", rc, o->global_index, lf[0] ? lf : "-", ld[0] ? ld : "-");
		fflush(stdout);
		free(lf); free(ld);
	}
	return 0;
}
