import sys, os, shutil, tempfile
sys.path.insert(0, "/tmp/hw-C19-work/pkg")
import numpy as np, digital_rf
L = int(sys.argv[1])
base = tempfile.mkdtemp(dir="/tmp/hw-C19-work")
p = base
while len(p) + 201 < L:
    p = p + "/" + "d"*200
p = p + "/" + "e"*(L-len(p)-1)
os.makedirs(p)
print(len(p))
w = digital_rf.DigitalRFWriter(p, 'i2', 3600, 1000, 150000000000, 100, 1, is_complex=False, marching_periods=False)
print(w.rf_write(np.arange(10, dtype='i2')))
lf = w.get_last_file_written()
print(len(lf), lf[-60:], os.path.exists(lf.replace("rf@", "tmp.rf@")))
w.close()
print(os.path.exists(lf), w.get_last_file_written() == lf)
shutil.rmtree(base)
