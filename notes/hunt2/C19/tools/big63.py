import sys, os, shutil, tempfile
sys.path.insert(0, "/tmp/hw-C19-work/pkg")
import numpy as np, digital_rf
from fz import exp_names
for cont in (True, False):
  for start, first in ((0, 2**63-3), (2**62, 2**62-2), (5, 2**63+100), (2**63+7, 10)):
    d = tempfile.mkdtemp(dir="/tmp/hw-C19-work")
    cfg = (10**9, 1, 1, 3600)
    w = digital_rf.DigitalRFWriter(d, 'i2', 3600, 1, start, 10**9, 1, is_complex=False, is_continuous=cont, marching_periods=False)
    hi=-1; nacc=0
    r = w.rf_write(np.ones(10, 'i2'), first); hi = first+9; nacc += 10
    ok = (r, w.get_next_available_sample(), w.get_total_samples_written(), w.get_total_gap_samples()) == (hi+1, hi+1, nacc, hi+1-nacc)
    g = [hi+1+5, hi+1+2000000, hi+1+2000000+50]
    r = w.rf_write_blocks(np.ones(30, 'i2'), g, [0, 10, 25]); hi = g[2]+4; nacc += 30
    ok2 = (r, w.get_next_available_sample(), w.get_total_samples_written(), w.get_total_gap_samples()) == (hi+1, hi+1, nacc, hi+1-nacc)
    sub, base = exp_names(cfg, start, hi)
    ok3 = w.get_last_file_written() == d + "/" + sub + "/" + base
    w.close()
    print(cont, start, first, ok, ok2, ok3, w.get_last_file_written()[-45:])
    shutil.rmtree(d)
