import sys, os, random, shutil, tempfile, time
sys.path.insert(0, "/tmp/hw-C19-work/pkg")
import numpy as np, digital_rf
from fz import exp_names
WORK="/tmp/hw-C19-work/run"; os.makedirs(WORK, exist_ok=True)
rng = random.Random(int(sys.argv[1]))
CF = [(3*10**10,7,1,1),(2**32+1,1,1,1),(5*10**9+1,3,2,2),(10**10,3,1,1),(25*10**9,1,1,1),(12345678901,1,1,1),
      (2**31-1, 2**31-3, 1000, 10), (10**9, 10**9-1, 500, 1), (4294967291, 4294967279, 1000, 1), (10**6, 2**40+1, 10**6, 10**4),
      (2**40+1, 2**20+1, 1, 1), (2**33, 1, 1, 1)]
bad = 0
for trial in range(int(sys.argv[2])):
    cfg = rng.choice(CF)
    n, dd, fms, sds = cfg
    t0 = rng.choice([0, 1, 1500000000, 1700000000 + rng.randrange(10**6)])
    start = (t0*n + dd-1)//dd + rng.randrange(0, 3)
    if start >= 2**63: continue
    d = tempfile.mkdtemp(dir=WORK)
    cont = rng.random() < 0.5
    try:
        w = digital_rf.DigitalRFWriter(d, 'i2', sds, fms, start, n, dd, None, 0, False, False, 1, cont, False)
        hi = -1; nacc = 0
        spf = max(1, n*fms//(dd*1000))
        for c in range(6):
            g = rng.choice([0, 1, rng.randrange(0, 3*spf), rng.randrange(0, max(2, 2*n//dd))])
            L = rng.choice([1, 2, rng.randrange(1, 2000)])
            pos = hi+1+g
            try:
                ret = w.rf_write(np.ones(L, dtype='i2'), pos)
            except RuntimeError as e:
                print("WRITEFAIL cfg %r start %d pos %d L %d cont %d" % (cfg, start, pos, L, cont)); bad += 1
                break
            hi = pos+L-1; nacc += L
            got = (ret, w.get_next_available_sample(), w.get_total_samples_written(), w.get_total_gap_samples())
            exp = (hi+1, hi+1, nacc, hi+1-nacc)
            sub, base = exp_names(cfg, start, hi)
            lf = w.get_last_file_written()
            if got != exp or lf != d + "/" + sub + "/" + base:
                print("MISMATCH cfg %r start %d pos %d L %d cont %d: got %r exp %r lf %s exp %s/%s" % (cfg, start, pos, L, cont, got, exp, lf, sub, base)); bad += 1
                break
        w.close()
    finally:
        shutil.rmtree(d, ignore_errors=True)
print("bad", bad)
