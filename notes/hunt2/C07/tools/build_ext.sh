#!/bin/bash
# usage: build_ext.sh <repo> <dest>  -> dest/digital_rf = repo's Python sources + extension built from the repo's OWN C sources
# (python/lib/py_rf_write_hdf5.c + c/lib/rf_write_hdf5.c, linked against the system libhdf5)
set -e
R=$1; D=$2
rm -rf "$D"; mkdir -p "$D"
cp -r "$R/python/digital_rf" "$D/digital_rf"
cat > "$D/digital_rf/_version.py" <<'EOV'
__version__ = version = '2.6.14'
EOV
PYINC=$(/venv/bin/python -c "import sysconfig;print(sysconfig.get_paths()['include'])")
NPINC=$(/venv/bin/python -c "import numpy;print(numpy.get_include())")
gcc -O1 -g -w -shared -fPIC -I$R/c/include -I/usr/include/hdf5/serial -I$PYINC -I$NPINC \
  $R/python/lib/py_rf_write_hdf5.c $R/c/lib/rf_write_hdf5.c -L/usr/lib/x86_64-linux-gnu/hdf5/serial -lhdf5 -lm \
  -o "$D/digital_rf/_py_rf_write_hdf5.cpython-312-x86_64-linux-gnu.so"
