#!/venv/bin/python
"""C07 fuzz (round 2): drives the worktree's Python writer (extension built from the worktree's C sources),
oracle from the property text.  usage: fuzz.py seed0 count [mode]   mode: unch | chunk | both"""
import os, sys, shutil, random, tempfile, calendar, time, io, contextlib
from fractions import Fraction
import numpy as np
import h5py
import digital_rf

assert "site-packages" not in digital_rf.__file__, digital_rf.__file__  # must be the build_ext.sh copy

TYPES = ["f4", "f8", "i1", "i2", "i4", "i8", "u1", "u2", "u4", "u8"]
RATES = [(10, 1), (200, 3), (100000000, 7), (3, 7), (1000, 1), (48000, 1), (1, 1), (2500000, 1001), (1, 10), (7, 2)]
CADS = [(1, 1000), (1, 500), (2, 1000), (10, 2000), (1, 100), (3, 1500), (7, 7), (1, 1), (1, 10), (3600, 1000), (8, 64), (333, 333),
        (60, 60000), (1, 250), (5, 2500)]
EPOCHS = [0, 1, 86399, 946684799, 1500000000, 4000000000]


def ceil_div(a, b):
    return -((-a) // b)


class Geo:
    def __init__(self, srn, srd, sc, fc):
        self.srn, self.srd, self.sc, self.fc = srn, srd, sc, fc

    def file_of(self, a):
        # time of sample a = a*srd/srn seconds; file k = floor(time_ms / fc)
        # floor(a*srd*1000/(srn*fc))
        return (a * self.srd * 1000) // (self.srn * self.fc)

    def window(self, k):
        lo = ceil_div(k * self.fc * self.srn, 1000 * self.srd)
        hi = ceil_div((k + 1) * self.fc * self.srn, 1000 * self.srd)
        return lo, hi

    def path(self, k):
        ms = k * self.fc
        sec, msp = divmod(ms, 1000)
        dsec = (sec // self.sc) * self.sc
        t = time.gmtime(dsec)
        sub = "%04d-%02d-%02dT%02d-%02d-%02d" % t[:6]
        return os.path.join(sub, "rf@%d.%03d.h5" % (sec, msp))


def val(a, c, p):
    return 1 + (a * 7 + c * 3 + p * 5) % 100


def fillval(t):
    if t[0] == "f":
        return float("nan")
    if t[0] == "u":
        return 0
    return -(1 << (8 * int(t[1]) - 1))


class Model:
    """writer model: absolute samples; files on disk; open file"""

    def __init__(self, geo):
        self.geo = geo
        self.files = {}  # k -> dict(abs sample -> True) written
        self.pieces = {}  # k -> list of (abs start, n) per write piece (for chunked index expectations)
        self.open = None
        self.gss = 0
        self.gi = 0

    def start_session(self, gss):
        self.gss = gss
        self.gi = 0
        self.open = None

    def close(self):
        self.open = None

    def write(self, idx, n):
        """returns True if the whole write is accepted"""
        if idx < self.gi:
            return False
        if n == 0:
            return True
        a = self.gss + idx
        left = n
        while left > 0:
            k = self.geo.file_of(a)
            lo, hi = self.geo.window(k)
            assert lo <= a < hi, (a, lo, hi)
            if self.open != k:
                self.open = None
                if k in self.files:
                    return False
                self.files[k] = {}
                self.pieces[k] = []
                self.open = k
            m = min(left, hi - a)
            for x in range(a, a + m):
                assert x not in self.files[k]
                self.files[k][x] = True
            self.pieces[k].append((a, m))
            a += m
            left -= m
            self.gi = a - self.gss
        return True


def make_array(rng, t, order, cplx, nsub, a0, n, form):
    """build the input array for absolute samples a0..a0+n-1"""
    a = (np.arange(n, dtype=object) + a0)
    base = np.empty((n, nsub, 2 if cplx else 1), dtype="f8")
    for c in range(nsub):
        for p in range(2 if cplx else 1):
            base[:, c, p] = [1 + (int(x) * 7 + c * 3 + p * 5) % 100 for x in a]
    rd = np.dtype(order + t)
    if not cplx:
        arr = base[:, :, 0].astype(rd if form != "native" else np.dtype(t))
        if nsub == 1 and form == "1d":
            arr = arr[:, 0]
        return arr
    if form == "complex" and t[0] == "f":
        cd = np.dtype(order + "c" + str(2 * int(t[1])))
        arr = (base[:, :, 0] + 1j * base[:, :, 1]).astype(cd)
        return arr
    if form == "struct" or (form == "complex"):
        sd = np.dtype([("r", rd), ("i", rd)])
        arr = np.empty((n, nsub), dtype=sd)
        arr["r"] = base[:, :, 0]
        arr["i"] = base[:, :, 1]
        return arr
    # interleaved
    arr = base.reshape(n, nsub * 2).astype(rd if form != "native" else np.dtype(t))
    return arr


def decode(ds_arr, t, cplx):
    """stored array (n, nsub) -> float64/object array (n, nsub, comps) of python-comparable values"""
    if cplx:
        if ds_arr.dtype.names:
            r = ds_arr["r"]
            i = ds_arr["i"]
        else:
            r = ds_arr.real
            i = ds_arr.imag
        return np.stack([r, i], axis=-1)
    return ds_arr[..., None]


def check_vals(got, a0, t, cplx, nsub, written, where, errs):
    """got: (n, nsub, comps) ; written: set of abs samples; others must be fill"""
    n = got.shape[0]
    fv = fillval(t)
    for j in range(n):
        a = a0 + j
        for c in range(nsub):
            for p in range(got.shape[2]):
                g = got[j, c, p]
                if a in written:
                    e = val(a, c, p)
                    if not (g == e):
                        errs.append("%s: sample %d sub %d comp %d = %r, expected written %r" % (where, a, c, p, g, e))
                        return
                else:
                    ok = (g != g) if t[0] == "f" else (int(g) == fv)
                    if not ok:
                        errs.append("%s: sample %d sub %d comp %d = %r, expected fill %r" % (where, a, c, p, g, fv))
                        return


def run_ops(top, ch, cfg, ops, cont):
    """execute ops with a real writer; returns list of outcomes"""
    d = os.path.join(top, ch)
    os.makedirs(d, exist_ok=True)
    t, order, cplx, nsub = cfg["t"], cfg["order"], cfg["cplx"], cfg["nsub"]
    w = None
    gss = None
    out = []
    for op in ops:
        if op[0] == "open":
            gss = op[1]
            dt = np.dtype(order + t)
            kw = dict(is_complex=cplx)
            if cplx and cfg["dtform"] == "cdtype" and t[0] == "f":
                dt = np.dtype(order + "c" + str(2 * int(t[1])))
            elif cplx and cfg["dtform"] == "sdtype":
                dt = np.dtype([("r", dt), ("i", dt)])
            w = digital_rf.DigitalRFWriter(d, dt, cfg["sc"], cfg["fc"], gss, cfg["srn"], cfg["srd"], uuid_str="u",
                                           compression_level=cfg["comp"], checksum=cfg["cksum"], num_subchannels=nsub,
                                           is_continuous=cont, marching_periods=False, **kw)
            out.append("ok")
        elif op[0] == "close":
            w.close()
            w = None
            out.append("ok")
        elif op[0] == "w":
            _, idx, n, form, usenext = op
            arr = make_array(None, t, order, cplx, nsub, gss + idx, n, form)
            try:
                if usenext:
                    w.rf_write(arr)
                else:
                    w.rf_write(arr, idx)
                out.append("ok")
            except (RuntimeError, ValueError) as e:
                out.append("err")
        elif op[0] == "wb":
            _, blocks, form = op  # blocks: list of (idx, n)
            arrs = [make_array(None, t, order, cplx, nsub, gss + i, n, form if form != "1d" else "plain") for i, n in blocks]
            arr = np.concatenate(arrs, axis=0)
            g = np.array([i for i, n in blocks], dtype=np.uint64)
            b = np.cumsum([0] + [n for i, n in blocks[:-1]]).astype(np.uint64)
            try:
                w.rf_write_blocks(arr, g, b)
                out.append("ok")
            except (RuntimeError, ValueError) as e:
                out.append("err")
    if w is not None:
        w.close()
    return out


def gen(rng, mode):
    cfg = {}
    cfg["t"] = rng.choice(TYPES)
    cfg["order"] = rng.choice("<>")
    cfg["cplx"] = rng.random() < 0.5
    cfg["nsub"] = rng.choice([1, 1, 2, 3, 5])
    cfg["dtform"] = rng.choice(["plain", "cdtype", "sdtype"])
    while True:
        if rng.random() < 0.6:
            srn, srd = rng.choice(RATES)
        else:
            srn, srd = rng.randint(1, 10 ** rng.randint(1, 9)), rng.randint(1, rng.choice([1, 10, 5000]))
        sc, fc = rng.choice(CADS)
        per = Fraction(fc * srn, 1000 * srd)
        if per <= 4000 and (mode != "chunk" or per >= 1):
            break
    cfg.update(srn=srn, srd=srd, sc=sc, fc=fc)
    if mode == "chunk":
        cfg["comp"], cfg["cksum"] = rng.choice([(0, True), (1, False), (9, True), (4, False)])
    else:
        cfg["comp"], cfg["cksum"] = 0, False
    geo = Geo(srn, srd, sc, fc)
    ep = rng.choice(EPOCHS + [rng.randint(0, 4000000000)])
    a0 = ceil_div(ep * srn, srd) + rng.choice([0, 0, 1, rng.randint(0, 50)])
    # place first sample: head / last slot / middle of file
    k = geo.file_of(a0)
    lo, hi = geo.window(k)
    while hi == lo:
        k += 1
        lo, hi = geo.window(k)
    a0 = rng.choice([lo, hi - 1, rng.randint(lo, hi - 1), a0 if lo <= a0 < hi else lo])
    perf = max(1, int(per))
    ops = [("open", a0)]
    gss = a0
    cur = 0  # our idea of next index (model tracks exactly)
    m = Model(geo)
    m.start_session(gss)
    nops = rng.randint(1, int(os.environ.get('NOPS', '12')))
    forms_r = ["plain", "native", "1d"] if cfg["nsub"] == 1 else ["plain", "native"]
    forms_c = ["complex", "struct", "inter", "native"]

    def pick_gap():
        r = rng.random()
        a = gss + m.gi
        k = geo.file_of(a) if True else 0
        lo, hi = geo.window(k)
        if r < 0.25:
            return 0
        if r < 0.35:
            return 1
        if r < 0.45:
            return max(0, hi - a)  # exactly to next file start
        if r < 0.5:
            return max(0, hi - a - 1)  # last slot
        if r < 0.55:
            return max(0, hi - a + 1)
        if r < 0.7:  # skip whole files
            kk = k + rng.randint(2, 5)
            lo2, hi2 = geo.window(kk)
            return max(0, rng.choice([lo2, hi2 - 1 if hi2 > lo2 else lo2, lo2 + (hi2 - lo2) // 2]) - a)
        return rng.randint(0, 3 * perf + 3)

    def pick_len():
        r = rng.random()
        if r < 0.2:
            return 1
        if r < 0.3:
            return rng.randint(2, 5)
        if r < 0.35:
            return 0
        if r < 0.6:
            return rng.randint(1, perf + 1)
        if r < 0.9:
            return rng.randint(1, 3 * perf + 3)
        return rng.randint(1, 12 * perf + 3)

    for _ in range(nops):
        r = rng.random()
        form = rng.choice(forms_c if cfg["cplx"] else forms_r)
        if r < float(os.environ.get('PRESTART', '0.12')):
            # restart
            ops.append(("close",))
            m.close()
            rr = rng.random()
            last = gss + m.gi
            if rr < 0.3:
                new = last
            elif rr < 0.5:
                kk = geo.file_of(last) + 1
                new = geo.window(kk)[0]
            elif rr < 0.7:
                new = rng.randint(max(0, a0 - 2 * perf), last + 1)
            else:
                new = last + rng.randint(0, 4 * perf)
            gss = new
            ops.append(("open", gss))
            m.start_session(gss)
        elif r < 0.2:
            # write in the past
            if m.gi > 0:
                idx = rng.randint(0, m.gi - 1)
                n = pick_len()
                ops.append(("w", idx, n, form, False))
                m.write(idx, n)
        elif r < 0.4:
            # block write
            nb = rng.randint(1, 5)
            blocks = []
            idx = m.gi + pick_gap()
            p = idx
            for b in range(nb):
                n = max(1, pick_len())
                blocks.append((p, n))
                p += n + rng.choice([0, 1, 2, rng.randint(0, 2 * perf + 2)])
            ops.append(("wb", blocks, form))
            m_ok = True
            for (i, n) in blocks:
                if not m.write(i, n):
                    break
        else:
            idx = m.gi + pick_gap()
            n = pick_len()
            usenext = False
            ops.append(("w", idx, n, form, usenext))
            m.write(idx, n)
    return cfg, ops


def model_run(cfg, ops, blocks_atomic_fail=False):
    geo = Geo(cfg["srn"], cfg["srd"], cfg["sc"], cfg["fc"])
    m = Model(geo)
    out = []
    for op in ops:
        if op[0] == "open":
            m.start_session(op[1])
            out.append("ok")
        elif op[0] == "close":
            m.close()
            out.append("ok")
        elif op[0] == "w":
            out.append("ok" if m.write(op[1], op[2]) else "err")
        elif op[0] == "wb":
            ok = True
            for (i, n) in op[1]:
                if not m.write(i, n):
                    ok = False
                    break
            out.append("ok" if ok else "err")
    return m, out


def list_files(d):
    res = {}
    for root, dirs, files in os.walk(d):
        for f in files:
            if f == "drf_properties.h5":
                continue
            res[os.path.relpath(os.path.join(root, f), d)] = True
    return res


def check_unchunked(top, ch, cfg, m, errs):
    d = os.path.join(top, ch)
    geo = m.geo
    t, cplx, nsub = cfg["t"], cfg["cplx"], cfg["nsub"]
    exp = {geo.path(k): k for k in m.files if m.files[k]}
    got = list_files(d)
    for p in got:
        if p not in exp:
            errs.append("unexpected file %s" % p)
    for p in exp:
        if p not in got:
            errs.append("missing file %s" % p)
    for p, k in exp.items():
        if p not in got:
            continue
        lo, hi = geo.window(k)
        with h5py.File(os.path.join(d, p), "r") as f:
            ds = f["rf_data"]
            idx = f["rf_data_index"][...]
            if ds.shape != (hi - lo, nsub):
                errs.append("%s: shape %r expected %r" % (p, ds.shape, (hi - lo, nsub)))
                continue
            if idx.tolist() != [[lo, 0]]:
                errs.append("%s: index %r expected [[%d,0]]" % (p, idx.tolist(), lo))
            if ds.chunks is not None:
                errs.append("%s: chunked" % p)
            dt = ds.dtype
            rd = dt["r"] if dt.names else dt
            bo = rd.byteorder
            if int(t[1]) > 1:
                want = cfg["order"]
                if cplx and cfg["dtform"] == "cdtype" and t[0] == "f":
                    want = "<"  # side observation: byte order of a complex dtype is dropped by DigitalRFWriter
                g = bo if bo in "<>" else ("<" if sys.byteorder == "little" else ">")
                if g != want:
                    errs.append("%s: stored byte order %s expected %s" % (p, g, want))
            arr = ds[...]
            got_v = decode(arr, t, cplx)
            check_vals(got_v, lo, t, cplx, nsub, m.files[k], p, errs)
    return exp


def check_reader(top, ch, cfg, m, errs, unchunked):
    geo = m.geo
    t, cplx, nsub = cfg["t"], cfg["cplx"], cfg["nsub"]
    ks = sorted(k for k in m.files if m.files[k])
    if not ks:
        return
    r = digital_rf.DigitalRFReader(top)
    # expected visible samples
    vis = {}
    for k in ks:
        lo, hi = geo.window(k)
        if unchunked:
            for a in range(lo, hi):
                vis[a] = a in m.files[k]
        else:
            for a in m.files[k]:
                vis[a] = True
    first, last = min(vis), max(vis)
    b = r.get_bounds(ch)
    if b != (first, last):
        errs.append("get_bounds %r expected %r" % (b, (first, last)))
    # whole-range read
    lo_all = max(0, first - 3)
    data = r.read(lo_all, last + 3, ch)
    seen = {}
    prev_end = None
    for s in sorted(data):
        arr = data[s]
        if prev_end is not None and s <= prev_end:
            errs.append("reader: blocks overlap/adjacent at %d" % s)
        prev_end = s + arr.shape[0]
        gv = decode(arr, t, cplx)
        wr = set(a for a in range(s, s + arr.shape[0]) if vis.get(a))
        for a in range(s, s + arr.shape[0]):
            if a not in vis:
                errs.append("reader: sample %d returned but not stored" % a)
                return
            seen[a] = True
        check_vals(gv, s, t, cplx, nsub, wr, "reader@%d" % s, errs)
    if len(seen) != len(vis):
        miss = sorted(set(vis) - set(seen))[:3]
        errs.append("reader: %d samples missing e.g. %r" % (len(vis) - len(seen), miss))
    # expected blocks: maximal runs of vis
    runs = []
    for a in sorted(vis):
        if runs and runs[-1][1] == a:
            runs[-1][1] = a + 1
        else:
            runs.append([a, a + 1])
    if sorted(data) != [x[0] for x in runs]:
        errs.append("reader: block starts %r expected %r" % (sorted(data)[:6], [x[0] for x in runs][:6]))
    cb = r.get_continuous_blocks(lo_all, last + 3, ch)
    if [(int(a), int(b)) for a, b in cb.items()] != [(x[0], x[1] - x[0]) for x in runs]:
        errs.append("reader: get_continuous_blocks %r expected %r" % (list(cb.items())[:6], runs[:6]))
    if unchunked:
        for k in ks[:6] + ks[-2:]:
            lo, hi = geo.window(k)
            dd = r.read(lo, hi - 1, ch)
            if list(dd.keys()) != [lo] or dd[lo].shape[0] != hi - lo:
                errs.append("reader: file %d window read gives %r" % (k, [(s, v.shape) for s, v in dd.items()]))
    r.close() if hasattr(r, "close") else None


def check_chunked_decode(top, ch, cfg, m, errs):
    d = os.path.join(top, ch)
    geo = m.geo
    t, cplx, nsub = cfg["t"], cfg["cplx"], cfg["nsub"]
    exp = {geo.path(k): k for k in m.files if m.files[k]}
    got = list_files(d)
    for p in got:
        if p not in exp:
            errs.append("unexpected file %s" % p)
    for p in exp:
        if p not in got:
            errs.append("missing file %s" % p)
    for p, k in exp.items():
        if p not in got:
            continue
        lo, hi = geo.window(k)
        with h5py.File(os.path.join(d, p), "r") as f:
            ds = f["rf_data"]
            idx = f["rf_data_index"][...].tolist()
            arr = ds[...]
            gv = decode(arr, t, cplx)
            nrows = arr.shape[0]
            if nrows != len(m.files[k]):
                errs.append("%s: %d rows, %d samples written" % (p, nrows, len(m.files[k])))
                continue
            exp_idx = []
            off = 0
            for (a, n) in m.pieces[k]:
                exp_idx.append([a, off])
                off += n
            if idx != exp_idx:
                errs.append("%s: index %r expected %r" % (p, idx[:5], exp_idx[:5]))
                continue
            for j, (a, o) in enumerate(idx):
                e = idx[j + 1][1] if j + 1 < len(idx) else nrows
                check_vals(gv[o:e], a, t, cplx, nsub, m.files[k], p, errs)


def dump_h5(path):
    res = {}
    with h5py.File(path, "r") as f:
        ds = f["rf_data"]
        res["data"] = ds[...].tobytes()
        res["dtype"] = str(ds.dtype)
        res["shape"] = ds.shape
        res["maxshape"] = ds.maxshape
        res["chunks"] = ds.chunks
        res["comp"] = (ds.compression, ds.compression_opts, ds.fletcher32, ds.shuffle)
        fv = ds.fillvalue
        res["fill"] = np.asarray(fv).tobytes()
        res["index"] = f["rf_data_index"][...].tolist()
        at = {}
        for k2, v in ds.attrs.items():
            if k2 in ("computer_time", "is_continuous"):
                continue
            at[k2] = v.tolist() if hasattr(v, "tolist") else v
        res["attrs"] = at
        res["keys"] = sorted(f.keys())
    return res


def one(seed, mode, keep=False):
    rng = random.Random(seed)
    cfg, ops = gen(rng, mode)
    m, mout = model_run(cfg, ops)
    top = tempfile.mkdtemp(prefix="c07f%d_" % seed, dir=os.environ.get("FUZZTMP", "/tmp/hw-C07-work/tmp"))
    errs = []
    try:
        with contextlib.redirect_stderr(io.StringIO()):
            out = run_ops(top, "ch", cfg, ops, True)
        if out != mout:
            errs.append("outcomes %r expected %r" % (out, mout))
        if mode == "unch":
            check_unchunked(top, "ch", cfg, m, errs)
            check_reader(top, "ch", cfg, m, errs, True)
        else:
            out2 = run_ops(top, "gp", cfg, ops, False)
            if out2 != mout:
                errs.append("gapped outcomes %r expected %r" % (out2, mout))
            check_chunked_decode(top, "ch", cfg, m, errs)
            check_reader(top, "ch", cfg, m, errs, False)
            f1 = list_files(os.path.join(top, "ch"))
            f2 = list_files(os.path.join(top, "gp"))
            if sorted(f1) != sorted(f2):
                errs.append("file sets differ cont %r gapped %r" % (sorted(f1)[:5], sorted(f2)[:5]))
            for p in f1:
                if p in f2:
                    a = dump_h5(os.path.join(top, "ch", p))
                    b = dump_h5(os.path.join(top, "gp", p))
                    for key in a:
                        if key == "chunks" and any(o[0] == "wb" for o in ops):
                            continue
                        if a[key] != b[key]:
                            errs.append("%s: %s differs cont=%r gapped=%r" % (p, key, str(a[key])[:80], str(b[key])[:80]))
    except Exception as e:
        import traceback
        errs.append("EXC " + traceback.format_exc())
    finally:
        if not keep:
            shutil.rmtree(top, ignore_errors=True)
    return cfg, ops, errs, m


if __name__ == "__main__":
    s0, cnt = int(sys.argv[1]), int(sys.argv[2])
    mode = sys.argv[3] if len(sys.argv) > 3 else "unch"
    os.makedirs(os.environ.get("FUZZTMP", "/tmp/hw-C07-work/tmp"), exist_ok=True)
    bad = 0
    stats = dict(files=0, fill=0, restarts=0, errs=0, wb=0)
    for s in range(s0, s0 + cnt):
        cfg, ops, errs, m = one(s, mode)
        stats["files"] += len(m.files)
        stats["restarts"] += sum(1 for o in ops if o[0] == "open") - 1
        stats["wb"] += sum(1 for o in ops if o[0] == "wb")
        for k in m.files:
            lo, hi = m.geo.window(k)
            if len(m.files[k]) < hi - lo:
                stats["fill"] += 1
        if errs:
            bad += 1
            print("SEED", s, mode, cfg)
            print("  ops", ops)
            for e in errs[:6]:
                print("  ", e)
    print("done", s0, cnt, mode, "bad", bad, stats)
