/* C05 demo 1: a write that is refused because the target period is held by a left-over (or foreign)
 * tmp.rf@...h5 file is not an atomic rejection: it sets has_failure (every later valid write is refused)
 * and closing the refused writer deletes the tmp file that it never created. */
#include <stdio.h>
#include <stdlib.h>
#include <string.h>
#include <unistd.h>
#include <sys/wait.h>
#include "digital_rf.h"

static Digital_rf_write_object *mk(char *dir)
{
	/* gapped channel, 100 Hz, 1 s files, first sample at t = 10 s */
	return digital_rf_create_write_hdf5(dir, H5T_NATIVE_INT, 10, 1000, 1000, 100, 1, "uuid", 0, 0, 0, 1, 0, 0);
}

int main(int argc, char **argv)
{
	char dir[1024], tmpname[1200];
	int data[100], i, rc1, rc2, gone, bad = 0;
	pid_t pid;
	Digital_rf_write_object *w;
	uint64_t gi;

	strcpy(dir, argv[1]);
	for (i = 0; i < 100; i++) data[i] = i;
	snprintf(tmpname, sizeof(tmpname), "%s/1970-01-01T00-00-10/tmp.rf@10.000.h5", dir);

	/* session 1: a recorder writes samples 0..49 and dies without closing (power loss, kill -9) */
	pid = fork();
	if (pid == 0)
	{
		w = mk(dir);
		if (!w || digital_rf_write_hdf5(w, 0, data, 50)) _exit(3);
		_exit(0); /* no close, no HDF5 shutdown */
	}
	waitpid(pid, &i, 0);
	if (access(tmpname, F_OK)) { printf("setup failed: %s missing\n", tmpname); return 2; }

	/* session 2: restart on the same channel */
	w = mk(dir);
	if (!w) { printf("setup failed: cannot reopen\n"); return 2; }
	rc1 = digital_rf_write_hdf5(w, 20, data, 10);   /* indices 20..29 are in the left-over file: must be refused */
	gi = w->global_index;
	rc2 = digital_rf_write_hdf5(w, 200, data, 10);  /* rf@12.000.h5 is free: a valid write */
	digital_rf_close_write_hdf5(w);
	gone = access(tmpname, F_OK) != 0;

	if (rc1 == 0) { printf("write onto the left-over file was accepted\n"); bad = 1; }
	if (gi != 0) bad = 1;
	if (rc2 != 0) bad = 1;
	if (gone) bad = 1;
	printf("%s: refused write rc=%d, global_index after it=%llu, later valid write rc=%d (expected 0), "
		"left-over tmp.rf@10.000.h5 %s after close (expected: still there)\n",
		bad ? "VIOLATION" : "ok", rc1, (unsigned long long)gi, rc2, gone ? "DELETED" : "still there");
	return bad;
}
