#!/bin/bash
# usage: REPO=<checkout> bash run.sh   -> exit 1 + one line if the violation is observed, 0 otherwise
set -u
HERE="$(cd "$(dirname "$0")" && pwd)"
T="$(mktemp -d)"
trap 'rm -rf "$T"' EXIT
mkdir "$T/chan"
gcc -w -I"$REPO/c/include" -I/usr/include/hdf5/serial "$HERE/demo.c" "$REPO/c/lib/rf_write_hdf5.c" \
    -L/usr/lib/x86_64-linux-gnu/hdf5/serial -lhdf5 -lm -o "$T/demo" || { echo "build failed"; exit 2; }
"$T/demo" "$T/chan" 2>/dev/null
exit $?
