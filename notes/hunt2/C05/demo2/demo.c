/* C05 demo 2: a write that is refused because its target file already exists on disk closes and
 * publishes the file the writer had open; a later valid write into the rest of that file is refused. */
#include <stdio.h>
#include <stdlib.h>
#include <string.h>
#include <unistd.h>
#include "digital_rf.h"

static Digital_rf_write_object *mk(char *dir)
{
	/* gapped channel, 100 Hz, 1 s files, first sample at t = 10 s */
	return digital_rf_create_write_hdf5(dir, H5T_NATIVE_INT, 10, 1000, 1000, 100, 1, "uuid", 0, 0, 0, 1, 0, 0);
}

int main(int argc, char **argv)
{
	char dir[1024], tmpname[1200], finname[1200];
	int data[100], i, rc0, rc1, rc2, tmp_before, tmp_after, fin_after, bad = 0;
	Digital_rf_write_object *w;
	uint64_t gi;

	strcpy(dir, argv[1]);
	for (i = 0; i < 100; i++) data[i] = i;
	snprintf(tmpname, sizeof(tmpname), "%s/1970-01-01T00-00-10/tmp.rf@11.000.h5", dir);
	snprintf(finname, sizeof(finname), "%s/1970-01-01T00-00-10/rf@11.000.h5", dir);

	/* session 1 recorded samples 200..249 (file rf@12.000.h5) */
	w = mk(dir);
	if (!w || digital_rf_write_hdf5(w, 200, data, 50) || digital_rf_close_write_hdf5(w)) { printf("setup failed\n"); return 2; }

	/* session 2 on the same channel */
	w = mk(dir);
	if (!w) { printf("setup failed\n"); return 2; }
	rc0 = digital_rf_write_hdf5(w, 100, data, 10);  /* valid: 100..109, opens tmp.rf@11.000.h5 */
	tmp_before = access(tmpname, F_OK) == 0;
	rc1 = digital_rf_write_hdf5(w, 200, data, 10);  /* 200..209 are already on disk: must be refused, changing nothing */
	gi = w->global_index;
	tmp_after = access(tmpname, F_OK) == 0;
	fin_after = access(finname, F_OK) == 0;
	rc2 = digital_rf_write_hdf5(w, 110, data, 10);  /* valid: next position, rest of file rf@11 */
	digital_rf_close_write_hdf5(w);

	if (rc0 != 0 || !tmp_before) { printf("setup failed (rc0=%d)\n", rc0); return 2; }
	if (rc1 == 0 || gi != 110) bad = 1;
	if (!tmp_after || fin_after) bad = 1;
	if (rc2 != 0) bad = 1;
	printf("%s: refused write rc=%d, global_index after it=%llu; open file tmp.rf@11.000.h5 %s by the refused call "
		"(expected: untouched); later valid write at 110 rc=%d (expected 0)\n",
		bad ? "VIOLATION" : "ok", rc1, (unsigned long long)gi,
		(!tmp_after && fin_after) ? "was CLOSED AND PUBLISHED as rf@11.000.h5" : "left untouched", rc2);
	return bad;
}
