/* C05 demo 3: with an empty data vector digital_rf_write_blocks_hdf5 accepts malformed block descriptions */
#include <stdio.h>
#include <stdlib.h>
#include <string.h>
#include "digital_rf.h"

int main(int argc, char **argv)
{
	char dir[1024];
	int data[100], i, rc[4], bad = 0, ok_empty, rc_past;
	Digital_rf_write_object *w;
	uint64_t g1[1] = {20}, o1[1] = {3};            /* first block not at offset 0 */
	uint64_t g2[2] = {30, 25}, o2[2] = {0, 0};      /* indices and offsets not increasing */
	uint64_t g3[2] = {30, 40}, o3[2] = {0, 5};      /* offset 5 past the end of 0 samples */
	uint64_t g4[3] = {30, 32, 33}, o4[3] = {0, 4, 5}; /* blocks overlap (4 samples placed in 2 indices) */

	strcpy(dir, argv[1]);
	for (i = 0; i < 100; i++) data[i] = i;
	w = digital_rf_create_write_hdf5(dir, H5T_NATIVE_INT, 10, 1000, 1000, 100, 1, "uuid", 0, 0, 0, 1, 0, 0);
	if (!w || digital_rf_write_hdf5(w, 0, data, 10)) { printf("setup failed\n"); return 2; }
	rc[0] = digital_rf_write_blocks_hdf5(w, g1, o1, 1, data, 0);
	rc[1] = digital_rf_write_blocks_hdf5(w, g2, o2, 2, data, 0);
	rc[2] = digital_rf_write_blocks_hdf5(w, g3, o3, 2, data, 0);
	rc[3] = digital_rf_write_blocks_hdf5(w, g4, o4, 3, data, 0);
	/* controls: the same first description with one sample is refused; a plain empty write is a no-op */
	rc_past = digital_rf_write_blocks_hdf5(w, g1, o1, 1, data, 1);
	ok_empty = digital_rf_write_hdf5(w, 50, data, 0);
	for (i = 0; i < 4; i++) if (rc[i] == 0) bad = 1;
	if (rc_past == 0 || ok_empty != 0 || w->global_index != 10) { printf("unexpected control result\n"); bad = 1; }
	digital_rf_close_write_hdf5(w);
	printf("%s: malformed block descriptions with an empty vector returned %d %d %d %d (expected: all non-zero); "
		"control with 1 sample returned %d\n", bad ? "VIOLATION" : "ok", rc[0], rc[1], rc[2], rc[3], rc_past);
	return bad;
}
