import contextlib
import io
import os
import sys
from argparse import ArgumentParser

from digital_rf import list_drf

top = sys.argv[1]
ch = os.path.join(top, "ch")
sd = os.path.join(ch, "2017-07-14T02-40-00")
os.makedirs(sd)
for p in (
    os.path.join(ch, "drf_properties.h5"),
    os.path.join(sd, "rf@1500000001.000.h5"),
    os.path.join(sd, "rf@1500000000.000.h5"),
):
    open(p, "w").close()


def ls(*argv):
    parser = list_drf._build_ls_parser(ArgumentParser)
    args = parser.parse_args(list(argv))
    buf = io.StringIO()
    with contextlib.redirect_stdout(buf):
        args.func(args)
    return buf.getvalue().split()


plain = ls(ch)  # what 'drf ls ch' prints (same flags, no --sortall)
assert sorted(plain) == sorted(
    ["drf_properties.h5", "2017-07-14T02-40-00/rf@1500000000.000.h5", "2017-07-14T02-40-00/rf@1500000001.000.h5"]
), plain
try:
    srt = ls("--sortall", ch)
except Exception as e:  # noqa
    print("VIOLATION: 'drf ls --sortall %s' raised %r; 'drf ls' without --sortall lists %d files" % ("ch", e, len(plain)))
    sys.exit(1)
if sorted(srt) != sorted(plain):
    print("VIOLATION: --sortall changed the set: %r vs %r" % (srt, plain))
    sys.exit(1)
data = [f for f in srt if "@" in f]
if data != sorted(data):
    print("VIOLATION: --sortall not in time order: %r" % (srt,))
    sys.exit(1)
print("ok: --sortall lists the same %d files in time order: %r" % (len(srt), srt))
