#!/bin/bash
# demo1: 'drf ls --sortall <channel>' raises TypeError as soon as a properties file is part of the listing
# (which it is with the default flags).  usage: REPO=<checkout> bash run.sh
set -u
: "${REPO:?set REPO to a checkout}"
HERE=$(cd "$(dirname "$0")" && pwd)
W=$(mktemp -d)
trap 'rm -rf "$W"' EXIT
mkdir -p "$W/pkg/digital_rf"
cp "$REPO/python/digital_rf/list_drf.py" "$REPO/python/digital_rf/util.py" "$W/pkg/digital_rf/"
: > "$W/pkg/digital_rf/__init__.py"
PYTHONPATH="$W/pkg" /venv/bin/python "$HERE/demo1.py" "$W/data"
