"""Listing consumed lazily while the tree changes between yields (deletions of files / subdirs, additions).
Oracle: with snapshots S0..Sn of the expected set (must + ffill) taken after every mutation,
  listed  subset-of  union(Si)      and      intersection(Si)  subset-of  listed ; no exception; no duplicates.
usage: fuzz3.py seed0 n
"""
import datetime, os, random, shutil, sys, tempfile
import fuzz2 as F
import digital_rf.list_drf as L


def expected(tree, root, kw, st, en):
    exp = F.oracle(tree, root, kw["recursive"], st, en, kw["include_drf"], kw["include_dmd"],
                   kw["include_drf_properties"], kw["include_dmd_properties"])
    s = set()
    ffs = {}
    for ch, e in exp.items():
        s |= e["props"] | e["must"]
        ffs[ch] = set(e["ff"])
    return s, ffs


def mutate(rng, tree):
    # pick a channel, then delete a subdir (empty or not), delete a file, or add a file/subdir
    ch, props = rng.choice(tree.channels)
    try:
        sds = [e for e in os.listdir(ch) if F.valid_subdir(e)]
    except OSError:
        return
    r = rng.random()
    if r < 0.45 and sds:
        shutil.rmtree(os.path.join(ch, rng.choice(sds)), ignore_errors=True)
    elif r < 0.7 and sds:
        sd = os.path.join(ch, rng.choice(sds))
        fs = os.listdir(sd)
        if fs:
            os.remove(os.path.join(sd, rng.choice(fs)))
    else:
        s = rng.randrange(6)
        t0 = F.BASE + s * F.CAD
        sd = os.path.join(ch, F.subdir_name(t0))
        os.makedirs(sd, exist_ok=True)
        if rng.random() < 0.7:
            open(os.path.join(sd, "metadata@%d.h5" % (t0 + rng.randrange(10))), "w").close()


def main():
    seed0, n = int(sys.argv[1]), int(sys.argv[2])
    nfail = nlist = 0
    for seed in range(seed0, seed0 + n):
        rng = random.Random(seed)
        top = tempfile.mkdtemp(prefix="c14g_", dir="/tmp/hw-C14-work")
        try:
            for rep in range(8):
                shutil.rmtree(os.path.join(top, "top"), ignore_errors=True)
                rng2 = random.Random(seed * 100 + rep)
                tree = F.Tree(rng2, os.path.join(top, "top"))
                if not tree.channels:
                    continue
                root = rng.choice([tree.top] + [c for c, _ in tree.channels])
                times = [(F.BASE + s * F.CAD) * 1000 + d for s in range(-1, 7) for d in (0, 1, 5000, 9999)]
                st = rng.choice(times) if rng.random() < 0.8 else None
                en = rng.choice(times) if rng.random() < 0.4 else None
                if st is not None and en is not None and en < st:
                    st, en = en, st
                mk = lambda ms: None if ms is None else F.EPOCH + datetime.timedelta(milliseconds=ms)
                kw = dict(recursive=True, reverse=rng.random() < 0.6, starttime=mk(st), endtime=mk(en),
                          include_drf=rng.random() < 0.6, include_dmd=True,
                          include_drf_properties=rng.choice([None, False]), include_dmd_properties=rng.choice([None, False]))
                snaps = [expected(tree, root, kw, st, en)]
                got = []
                log = []
                nlist += 1
                try:
                    for f in L.ilsdrf(root, **kw):
                        got.append(f)
                        if rng.random() < 0.5:
                            mutate(rng, tree)
                            snaps.append(expected(tree, root, kw, st, en))
                except Exception as e:
                    nfail += 1
                    print("seed", seed, rep, "EXC", repr(e))
                    continue
                union = set().union(*[m for m, _ in snaps]).union(*[v for _, ff in snaps for v in ff.values()])
                inter = set(snaps[0][0]).intersection(*[m for m, _ in snaps[1:]])
                # ffill: a channel whose ffill candidates (all sharing one time) are the same in every snapshot
                ffreq = []
                for ch in snaps[0][1]:
                    sets = [ff.get(ch, set()) for _, ff in snaps]
                    if sets[0] and all(x == sets[0] for x in sets):
                        ffreq.append(sets[0])
                errs = []
                if len(got) != len(set(got)):
                    errs.append("dups")
                if set(got) - union:
                    errs.append("extra %s" % sorted(set(got) - union))
                if inter - set(got):
                    errs.append("missing %s" % sorted(inter - set(got)))
                for g in ffreq:
                    if not (g & set(got)):
                        errs.append("ffill missing (stable in all snapshots): one of %s" % sorted(g))
                if errs:
                    nfail += 1
                    if nfail < 1000:
                        print("seed", seed, rep, {k: str(v) for k, v in kw.items()}, "\n  ", "; ".join(errs).replace(top, ""))
        finally:
            shutil.rmtree(top, ignore_errors=True)
    print("listings", nlist, "failures", nfail)


if __name__ == "__main__":
    main()
