"""Round-2 fuzz of list_drf.lsdrf against an oracle written from the property text.

usage: fuzz2.py seed0 ntrees
"""
import datetime
import itertools
import os
import random
import shutil
import sys
import tempfile

import digital_rf.list_drf as L

EPOCH = datetime.datetime(1970, 1, 1, tzinfo=datetime.timezone.utc)
BASE = 1500000000  # 2017-07-14T02:40:00
CAD = 10  # subdir cadence (s)


def subdir_name(secs):
    return (EPOCH + datetime.timedelta(seconds=secs)).strftime("%Y-%m-%dT%H-%M-%S")


BAD_SUBDIRS = ["2017-02-30T00-00-00", "0000-00-00T00-00-00", "2017-07-14T24-00-00", "2017-07-14T02-40-60"]
PROPS = ["drf_properties.h5", "dmd_properties.h5", "metadata.h5"]


def valid_subdir(name):
    # oracle: YYYY-MM-DDTHH-MM-SS and a real date
    if len(name) != 19:
        return None
    try:
        dt = datetime.datetime.strptime(name, "%Y-%m-%dT%H-%M-%S")
    except ValueError:
        return None
    # strptime accepts e.g. single digits? length fixed to 19 so check digits
    for i, c in enumerate(name):
        if i in (4, 7):
            if c != "-":
                return None
        elif i == 10:
            if c != "T":
                return None
        elif i in (13, 16):
            if c != "-":
                return None
        elif c not in "0123456789":
            return None
    return dt.replace(tzinfo=datetime.timezone.utc)


def parse_file(fn):
    """oracle grammar: <name>@<secs>[.<mmm>].h5, name non-empty, not starting with 'tmp.'"""
    if not fn.endswith(".h5") or "\n" in fn:
        return None
    body = fn[:-3]
    if "@" not in body:
        return None
    name, rest = body.rsplit("@", 1)
    if not name or name.startswith("tmp."):
        return None
    frac = None
    if "." in rest:
        s, f = rest.split(".", 1)
        if len(f) != 3 or not f.isdigit() or not f.isascii():
            return None
        frac = int(f)
    else:
        s = rest
    if not s or not s.isdigit() or not s.isascii():
        return None
    ms = int(s) * 1000 + (frac or 0)
    if int(s) >= 86400 * 10**9:
        return None  # not a time
    return ("rf" if frac is not None else "md", ms)


class Tree:
    def __init__(self, rng, top):
        self.rng = rng
        self.top = top
        self.channels = []  # (path, props)
        self.build(top, 0, in_channel=False)

    def build(self, d, depth, in_channel):
        rng = self.rng
        os.makedirs(d, exist_ok=True)
        is_ch = rng.random() < (0.6 if depth > 0 else 0.3)
        if is_ch:
            props = rng.sample(PROPS, rng.choice([1, 1, 1, 2, 3]))
            for p in props:
                open(os.path.join(d, p), "w").close()
            if rng.random() < 0.2:
                open(os.path.join(d, "tmp." + props[0]), "w").close()
            self.channels.append((d, props))
            self.fill_channel(d, props)
        else:
            # stray data-named files and a timestamped subdir in a non-channel dir
            if rng.random() < 0.3:
                sd = os.path.join(d, subdir_name(BASE))
                os.makedirs(sd, exist_ok=True)
                open(os.path.join(sd, "rf@%d.000.h5" % BASE), "w").close()
            if rng.random() < 0.3:
                open(os.path.join(d, "rf@%d.000.h5" % BASE), "w").close()
        if depth < 3:
            for name in rng.sample(["a", "b", "rf", "2017-02-30T00-00-00", "x@1500000000.h5", "tmp.c", "Z"],
                                   rng.choice([0, 1, 1, 2, 3] if depth < 2 else [0, 0, 1])):
                self.build(os.path.join(d, name), depth + 1, is_ch)

    def fill_channel(self, d, props):
        rng = self.rng
        nslots = 6
        slots = [s for s in range(nslots) if rng.random() < 0.6]
        prefixes_md = rng.choice([["metadata"], ["metadata"], ["metadata", "aux"], ["m@x"]])
        prefixes_rf = rng.choice([["rf"], ["rf"], ["rf", "chA"], ["r@f"]])
        kinds = rng.choice([["rf"], ["md"], ["rf", "md"]])
        if rng.random() < 0.7:
            # mostly realistic content
            kinds = []
            if "drf_properties.h5" in props or "metadata.h5" in props:
                kinds.append("rf")
            if "dmd_properties.h5" in props:
                kinds.append("md")
            if props == ["metadata.h5"]:
                kinds = [rng.choice(["rf", "md"])]
        for s in slots:
            t0 = BASE + s * CAD
            sd = os.path.join(d, subdir_name(t0))
            os.makedirs(sd, exist_ok=True)
            nf = rng.choice([0, 0, 1, 2, 3, 4])
            for _ in range(nf):
                k = rng.choice(kinds)
                sec = t0 + rng.choice([0, 0, 1, 5, 9, 9])
                if k == "rf":
                    ms = rng.choice([0, 0, 1, 500, 999])
                    fn = "%s@%d.%03d.h5" % (rng.choice(prefixes_rf), sec, ms)
                else:
                    fn = "%s@%d.h5" % (rng.choice(prefixes_md), sec)
                open(os.path.join(sd, fn), "w").close()
                if rng.random() < 0.15:
                    open(os.path.join(sd, "tmp." + fn), "w").close()
            # strays
            r = rng.random()
            if r < 0.05:
                open(os.path.join(sd, "rf@%d.00.h5" % t0), "w").close()
            elif r < 0.10:
                open(os.path.join(sd, "rf@99999999999999999.000.h5"), "w").close()
            elif r < 0.15:
                open(os.path.join(sd, "md@%d.h5" % (86400 * 10**9 - 1)), "w").close() if False else None
            elif r < 0.2:
                open(os.path.join(sd, "@%d.h5" % t0), "w").close()
            elif r < 0.25:
                open(os.path.join(sd, "tmp.@%d.000.h5" % t0), "w").close()
            elif r < 0.3:
                open(os.path.join(sd, "rf@%d.000.h5.bak" % t0), "w").close()
        if rng.random() < 0.3:
            os.makedirs(os.path.join(d, rng.choice(BAD_SUBDIRS)), exist_ok=True)
        if rng.random() < 0.2:
            open(os.path.join(d, "rf@%d.000.h5" % BASE), "w").close()
        if rng.random() < 0.1:
            # far-away subdirs (pre-epoch / year 9999)
            for nm in ("1969-12-31T23-59-50", "9999-12-31T23-59-50"):
                os.makedirs(os.path.join(d, nm), exist_ok=True)


def oracle(tree, root, recursive, start_ms, end_ms, inc_drf, inc_dmd, inc_drfp, inc_dmdp):
    """returns (must, may_groups, props) per channel; walks the real directory tree."""
    if inc_drfp is None:
        inc_drfp = inc_drf
    if inc_dmdp is None:
        inc_dmdp = inc_dmd
    out = {}  # channel -> dict

    def visit(d, is_root):
        try:
            ents = sorted(os.listdir(d))
        except OSError:
            return
        files = [e for e in ents if os.path.isfile(os.path.join(d, e))]
        dirs = [e for e in ents if os.path.isdir(os.path.join(d, e)) and not os.path.islink(os.path.join(d, e))]
        props = [f for f in files if f in PROPS]
        other_dirs = dirs
        if props:
            is_rf = any(p in ("drf_properties.h5", "metadata.h5") for p in props)
            is_md = any(p in ("dmd_properties.h5", "metadata.h5") for p in props)
            plist = set()
            for p in props:
                if p == "drf_properties.h5" and inc_drfp:
                    plist.add(os.path.join(d, p))
                if p == "dmd_properties.h5" and inc_dmdp:
                    plist.add(os.path.join(d, p))
                if p == "metadata.h5" and (inc_drfp or inc_dmdp):
                    plist.add(os.path.join(d, p))
            want_rf = is_rf and inc_drf
            want_md = is_md and inc_dmd
            cand = []
            tsdirs = [e for e in dirs if valid_subdir(e)]
            other_dirs = [e for e in dirs if not valid_subdir(e)]
            for sd in tsdirs:
                for fn in os.listdir(os.path.join(d, sd)):
                    p = os.path.join(d, sd, fn)
                    if not os.path.isfile(p):
                        continue
                    r = parse_file(fn)
                    if r is None:
                        continue
                    kind, ms = r
                    if (kind == "rf" and want_rf) or (kind == "md" and want_md):
                        cand.append((ms, p))
            must = set(p for ms, p in cand if (start_ms is None or ms >= start_ms) and (end_ms is None or ms <= end_ms))
            ff = set()
            if want_md and start_ms is not None:
                before = [(ms, p) for ms, p in cand if ms < start_ms]
                if before:
                    mx = max(ms for ms, p in before)
                    ff = set(p for ms, p in before if ms == mx)
            out[d] = dict(props=plist, must=must, ff=ff, times=dict((p, ms) for ms, p in cand),
                          pruned=not (want_rf or want_md))
        if recursive or False:
            for e in other_dirs:
                visit(os.path.join(d, e), False)

    visit(root, True)
    return out


def check(tree, root, kw, start_ms, end_ms):
    exp = oracle(tree, root, kw["recursive"], start_ms, end_ms, kw["include_drf"], kw["include_dmd"],
                 kw["include_drf_properties"], kw["include_dmd_properties"])
    try:
        got = L.lsdrf(root, **kw)
    except Exception as e:  # noqa
        return "EXC %r" % (e,)
    errs = []
    if len(set(got)) != len(got):
        errs.append("duplicates")
    gotset = set(got)
    allowed = set()
    for ch, e in exp.items():
        if e["pruned"]:
            # known (F5 of round 1): when no kind is requested for a channel its
            # time-stamped subdirectories are walked; we never put props there, so no effect
            pass
        allowed |= e["props"] | e["must"] | e["ff"]
        miss = (e["props"] | e["must"]) - gotset
        if miss:
            errs.append("missing %s" % sorted(miss))
        if e["ff"] and not (e["ff"] & gotset):
            errs.append("ffill file missing: one of %s" % sorted(e["ff"]))
        # order within channel
        chfiles = [g for g in got if g in e["times"] and os.path.dirname(os.path.dirname(g)) == ch]
        ts = [e["times"][g] for g in chfiles]
        if kw["reverse"]:
            ts = ts[::-1]
        if ts != sorted(ts):
            errs.append("order in %s: %s" % (ch, ts))
    extra = gotset - allowed
    if extra:
        errs.append("extra %s" % sorted(extra))
    # reverse consistency
    kw2 = dict(kw)
    kw2["reverse"] = not kw["reverse"]
    try:
        got2 = L.lsdrf(root, **kw2)
        if set(got2) != gotset or len(got2) != len(got):
            errs.append("reverse changes set: %s" % sorted(set(got2) ^ gotset))
    except Exception as e:  # noqa
        errs.append("EXC(rev) %r" % (e,))
    return "; ".join(errs) if errs else None


def main():
    seed0, n = int(sys.argv[1]), int(sys.argv[2])
    nfail = 0
    nlist = 0
    for seed in range(seed0, seed0 + n):
        rng = random.Random(seed)
        top = tempfile.mkdtemp(prefix="c14f_", dir=os.environ.get("WORK", "/tmp/hw-C14-work"))
        try:
            tree = Tree(rng, os.path.join(top, "top"))
            roots = [tree.top] + [c for c, _ in tree.channels]
            for _ in range(30):
                root = rng.choice(roots)
                times = [None]
                for s in range(-1, 7):
                    for d in (0, 1, 500, 999, 1000, 5000, 9000, 9999):
                        times.append((BASE + s * CAD) * 1000 + d)
                st = rng.choice(times) if rng.random() < 0.7 else None
                en = rng.choice(times) if rng.random() < 0.6 else None
                if st is not None and en is not None and en < st:
                    st, en = en, st
                if st is not None and rng.random() < 0.1:
                    st = rng.choice([0, -1000, 253402300790000])
                    en = None

                def mk(ms):
                    if ms is None:
                        return None
                    dt = EPOCH + datetime.timedelta(milliseconds=ms)
                    if rng.random() < 0.3:
                        dt = dt.replace(tzinfo=None)
                    elif rng.random() < 0.3:
                        dt = dt.astimezone(datetime.timezone(datetime.timedelta(hours=-5)))
                    return dt
                try:
                    kw = dict(recursive=rng.random() < 0.7, reverse=rng.random() < 0.5,
                              starttime=mk(st), endtime=mk(en),
                              include_drf=rng.random() < 0.7, include_dmd=rng.random() < 0.7,
                              include_drf_properties=rng.choice([None, True, False]),
                              include_dmd_properties=rng.choice([None, True, False]))
                except OverflowError:
                    continue
                nlist += 1
                r = check(tree, root, kw, st, en)
                if r:
                    nfail += 1
                    if nfail <= 15:
                        print("seed", seed, "root", os.path.relpath(root, top), {k: str(v) for k, v in kw.items()}, "\n   ", r.replace(top, ""))
        finally:
            shutil.rmtree(top, ignore_errors=True)
    print("listings", nlist, "failures", nfail)


if __name__ == "__main__":
    main()
