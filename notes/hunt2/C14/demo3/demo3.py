import os
import sys
from argparse import ArgumentParser

from digital_rf import list_drf

top = sys.argv[1]
src, dst = os.path.join(top, "src"), os.path.join(top, "dst")
SD = "2017-07-14T02-40-00"
for ch in ("ch", "ch2"):
    os.makedirs(os.path.join(src, ch, SD))
    open(os.path.join(src, ch, "drf_properties.h5"), "w").close()
    open(os.path.join(src, ch, SD, "rf@1500000000.000.h5"), "w").close()
expected = sorted(os.path.relpath(f, src) for f in list_drf.lsdrf(src))
assert len(expected) == 4

parser = list_drf._build_ln_parser(ArgumentParser)
args = parser.parse_args(["--only", src, dst, "-c", "ch,ch/%s,ch2" % SD])
err = None
try:
    args.func(args)
except Exception as e:  # noqa
    err = e
got = sorted(os.path.relpath(os.path.join(dp, f), dst) for dp, dn, fn in os.walk(dst) for f in fn)
if err is not None or got != expected:
    print("VIOLATION: 'drf ln --only src dst -c ch,ch/%s,ch2' -> %r; linked %d of %d files (%r)"
          % (SD, err, len(got), len(expected), got))
    sys.exit(1)
print("ok: every file linked once: %r" % (got,))
