#!/bin/bash
# demo3: 'drf ln --only src dst -c ch,ch/<time-stamped subdir>,ch2' - the subdirectory's files are transferred twice
# (FileExistsError from the second os.link) and ch2 is never linked.   usage: REPO=<checkout> bash run.sh
set -u
: "${REPO:?set REPO to a checkout}"
HERE=$(cd "$(dirname "$0")" && pwd)
W=$(mktemp -d)
trap 'rm -rf "$W"' EXIT
mkdir -p "$W/pkg/digital_rf"
cp "$REPO/python/digital_rf/list_drf.py" "$REPO/python/digital_rf/util.py" "$W/pkg/digital_rf/"
: > "$W/pkg/digital_rf/__init__.py"
PYTHONPATH="$W/pkg" /venv/bin/python "$HERE/demo3.py" "$W/data"
