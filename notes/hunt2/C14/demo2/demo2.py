import datetime
import os
import shutil
import sys

from digital_rf import list_drf

top = sys.argv[1]
UTC = datetime.timezone.utc
START = datetime.datetime(2017, 7, 14, 3, 30, 0, tzinfo=UTC)  # inside the (empty) 03-00-00 subdirectory


def build():
    shutil.rmtree(top, ignore_errors=True)
    md = os.path.join(top, "md")
    sds = [os.path.join(md, s) for s in ("2017-07-14T02-00-00", "2017-07-14T03-00-00", "2017-07-14T04-00-00")]
    for s in sds:
        os.makedirs(s)
    open(os.path.join(md, "dmd_properties.h5"), "w").close()
    old = os.path.join(sds[0], "metadata@1499999000.h5")  # 02:23:20 - latest file before START
    new = os.path.join(sds[2], "metadata@1500005000.h5")  # 04:03:20 - inside the window
    open(old, "w").close()
    open(new, "w").close()
    return md, sds, old, new


kw = dict(starttime=START, reverse=True, include_drf_properties=False, include_dmd_properties=False)

# reference 1: the empty subdirectory exists during the whole listing
md, sds, old, new = build()
ref_present = list_drf.lsdrf(md, **kw)
# reference 2: the empty subdirectory was removed before the listing began
os.rmdir(sds[1])
ref_absent = list_drf.lsdrf(md, **kw)
assert ref_present == ref_absent == [new, old], (ref_present, ref_absent)

# now the empty subdirectory vanishes while the listing is under way (the consumer of the generator - think of
# 'drf cp -R -s ...' busy copying the first file - is slow, and someone cleans up the empty directory meanwhile)
md, sds, old, new = build()
got = []
for k, f in enumerate(list_drf.ilsdrf(md, **kw)):
    got.append(f)
    if k == 0:
        os.rmdir(sds[1])
rel = [os.path.relpath(f, md) for f in got]

# forward order, default flags: the generator pauses after yielding the properties file, i.e. between the scan of the
# channel directory and the visit of the first subdirectory
md2, sds2, old2, new2 = build()
got2 = []
for k, f in enumerate(list_drf.ilsdrf(md2, starttime=START)):
    got2.append(f)
    if k == 0:
        os.rmdir(sds2[1])
if old2 not in got2:
    print("(forward order, default flags: same - listed %r)" % ([os.path.relpath(f, md2) for f in got2],))
if old not in got or old2 not in got2:
    print(
        "VIOLATION: empty subdirectory 2017-07-14T03-00-00 vanished during a reverse listing with start 03:30:00: "
        "listed %r, the latest metadata file before start (%s) is missing; it is listed both when the subdirectory "
        "stays and when it is gone beforehand" % (rel, os.path.relpath(old, md))
    )
    sys.exit(1)
print("ok: listed %r" % (rel,))
