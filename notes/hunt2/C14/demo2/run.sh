#!/bin/bash
# demo2: the metadata file to forward-fill from is not listed when the earliest in-window subdirectory vanishes
# (or cannot be listed) between the scan of the channel directory and the visit of that subdirectory.
# usage: REPO=<checkout> bash run.sh
set -u
: "${REPO:?set REPO to a checkout}"
HERE=$(cd "$(dirname "$0")" && pwd)
W=$(mktemp -d)
trap 'rm -rf "$W"' EXIT
mkdir -p "$W/pkg/digital_rf"
cp "$REPO/python/digital_rf/list_drf.py" "$REPO/python/digital_rf/util.py" "$W/pkg/digital_rf/"
: > "$W/pkg/digital_rf/__init__.py"
PYTHONPATH="$W/pkg" /venv/bin/python "$HERE/demo2.py" "$W/data"
