# usage: . mkpkg.sh   (needs $REPO, sets $TMP and PYTHONPATH; pure-Python subset of the package, no compiled extension)
set -e
: "${REPO:?set REPO=<path to a checkout>}"
TMP=$(mktemp -d)
trap 'rm -rf "$TMP"' EXIT
mkdir -p "$TMP/pkg/digital_rf" "$TMP/data"
for m in digital_metadata.py list_drf.py util.py; do cp "$REPO/python/digital_rf/$m" "$TMP/pkg/digital_rf/"; done
: > "$TMP/pkg/digital_rf/__init__.py"
cat > "$TMP/pkg/digital_rf/_version.py" <<'EOV'
__version__ = version = '2.6.14'
__version_tuple__ = version_tuple = (2, 6, 14)
EOV
export PYTHONPATH="$TMP/pkg"
PY=${PY:-/venv/bin/python}
