"""read_flatdict returns rounded sample indices when the range straddles 2**63."""
import os, sys, warnings
import numpy as np
from digital_rf.digital_metadata import DigitalMetadataWriter, DigitalMetadataReader

md = os.path.join(sys.argv[1], "ch"); os.makedirs(md)
# 10 GHz sample rate, 1 h files; indices around 2**63 (t = 922337203.68 s)
w = DigitalMetadataWriter(md, 3600, 3600, 10**10, 1, "md")
lo = 2**63
written = [lo - 10, lo - 1, lo, lo + 7]
w.write(written, {"a": [1, 2, 3, 4]})
r = DigitalMetadataReader(md)
assert r.get_bounds() == (written[0], written[-1])
assert list(r.read(written[0], written[-1]).keys()) == written      # read() is exact
fd = r.read_flatdict(written[0], written[-1])
got = [int(i) for i in fd["index"]]
if got != written:
    print("VIOLATION: read_flatdict index = %r (dtype %s), written indices = %r" % (got, fd["index"].dtype, written))
    sys.exit(1)
# all below / all above 2**63 keep their integer type
assert r.read_flatdict(written[0], written[1])["index"].dtype.kind in "iu"
assert [int(i) for i in r.read_flatdict(written[2], written[3])["index"]] == written[2:]
print("ok: read_flatdict index exact:", got)
