#!/bin/bash
# REPO=<checkout> bash run.sh  -> exit 1 + one VIOLATION line on the defect, exit 0 when fixed
HERE=$(cd "$(dirname "$0")" && pwd)
. "$HERE/../mkpkg.sh"
set +e
"$PY" "$HERE/demo.py" "$TMP/data"
rc=$?
exit $rc
