"""Forward-fill read whose start is the largest value of its NumPy integer type wraps around."""
import os, sys, warnings
import numpy as np
from digital_rf.digital_metadata import DigitalMetadataWriter, DigitalMetadataReader

warnings.simplefilter("ignore")
out = []
# (a) uint64: 20 GHz, indices up to 2**64-1
md = os.path.join(sys.argv[1], "a"); os.makedirs(md)
w = DigitalMetadataWriter(md, 3600, 3600, 2 * 10**10, 1, "md")
top = 2**64 - 1
w.write([top - 10, top - 5, top], {"a": [1, 2, 3]})
r = DigitalMetadataReader(md)
exp = list(r.read(top, method="ffill").keys())            # python int: correct
assert exp == [top]
got = list(r.read(np.uint64(top), method="ffill").keys())
if got != exp:
    out.append("read(np.uint64(2**64-1), method='ffill') keys = %r, expected %r" % (got, exp))
# (b) int64: 10 GHz, start 2**63-1
md = os.path.join(sys.argv[1], "b"); os.makedirs(md)
w = DigitalMetadataWriter(md, 3600, 3600, 10**10, 1, "md")
m = 2**63 - 1
w.write([m - 9, m], {"a": [1, 2]})
r = DigitalMetadataReader(md)
exp = list(r.read(m, method="ffill").keys())
assert exp == [m]
got = list(r.read(np.int64(m), method="ffill").keys())
if got != exp:
    out.append("read(np.int64(2**63-1), method='ffill') keys = %r, expected %r" % (got, exp))
if out:
    print("VIOLATION: " + "; ".join(out))
    sys.exit(1)
print("ok")
