import sys, os, tempfile, shutil, traceback, random, copy, warnings
import numpy as np
from fractions import Fraction
from digital_rf.digital_metadata import DigitalMetadataWriter as W, DigitalMetadataReader as R
warnings.simplefilter('error')

def deq(a, b):
    # a: written, b: read
    if isinstance(a, dict):
        return isinstance(b, dict) and set(a) == set(b) and all(deq(a[k], b[k]) for k in a)
    if a is None: return b == ''
    if isinstance(a, str): return type(b) is str and a == b
    if isinstance(a, (list, tuple)) and a and isinstance(a[0], str):
        return isinstance(b, list) and list(a) == b
    if isinstance(a, (list, tuple, np.ndarray)):
        aa = np.asarray(a)
        if aa.ndim == 0: return not isinstance(b, np.ndarray) and aa.item() == b
        return isinstance(b, np.ndarray) and aa.shape == b.shape and aa.dtype == b.dtype and np.array_equal(aa, b)
    if isinstance(a, np.generic): return a.item() == b and type(a.item()) is type(b)
    return type(a) is type(b) and a == b

def rleaf(rng):
    c = rng.randrange(9)
    if c == 0: return rng.randrange(-5, 5)
    if c == 1: return rng.random()
    if c == 2: return rng.choice(['', 'a', 'Zürich', 'xy z'])
    if c == 3: return np.arange(rng.randrange(0, 4), dtype=rng.choice(['i2', 'f4', '>u4', 'c8']))
    if c == 4: return [rng.choice(['a', 'é', 'bc']) for _ in range(rng.randrange(1, 4))]
    if c == 5: return rng.choice([np.int8(3), np.float32(0.5), np.uint64(2**64-1), True])
    if c == 6: return np.ones((2, rng.randrange(1, 3)))
    if c == 7: return 2**63 + rng.randrange(10)
    return None

def rsample(rng, depth=0):
    d = {}
    for k in rng.sample(['a', 'b', 'c c', 'd.e', '7'], rng.randrange(1, 4)):
        if depth < 2 and rng.random() < 0.25:
            d[k] = rsample(rng, depth + 1)
        else:
            d[k] = rleaf(rng)
    return d

def lenN(v, N):
    if isinstance(v, str): return False
    try: return len(v) == N
    except TypeError: return False

def distribute(d, N):
    """oracle for dict form, from the property text"""
    out = [dict() for _ in range(N)]
    for k, v in d.items():
        if isinstance(v, dict):
            sub = distribute(v, N)
            for i in range(N): out[i][k] = sub[i]
        elif lenN(v, N):
            for i in range(N): out[i][k] = v[i]
        else:
            for i in range(N): out[i][k] = v
    return out

def run(seed):
    rng = random.Random(seed)
    d = tempfile.mkdtemp(dir='/tmp/hw-C12-work')
    try:
        fcs = rng.choice([1, 2, 5, 7, 11, 60, 3600, 86400, 13])
        sub = fcs * rng.choice([1, 1, 2, 3, 24, 100])
        regime = rng.choice(['norm', 'norm', 'big63', 'big64', 'low'])
        if regime == 'norm':
            rate = rng.choice([Fraction(1), Fraction(200, 3), Fraction(10**8, 7), Fraction(3, 7), Fraction(12345, 1000), Fraction(48000)])
            t0 = rng.choice([0, 5, 1_700_000_000, 999_999_990, 2_000_000_000])
        elif regime == 'big63':
            rate = Fraction(10**10); t0 = 922337203
        elif regime == 'big64':
            rate = Fraction(2 * 10**10); t0 = 922337203
        else:
            rate = rng.choice([Fraction(1, 3600), Fraction(1, 86400), Fraction(1, 7)]); t0 = 1_700_000_000
            fcs = rng.choice([3600, 86400, 7200]); sub = fcs * rng.choice([1, 2, 24])
        n, de = rate.numerator, rate.denominator
        k = rng.choice([1, 1, 2, 10]); n *= k; de *= k  # non-reduced
        pfx = rng.choice(['md', 'metadata', 'x', 'a-b_c'])
        md = os.path.join(d, 'ch'); os.makedirs(md)
        def mkw(): return W(md, sub, fcs, n, de, pfx)
        ws = [mkw()]
        # candidate indices
        fb = []  # file boundary first indices
        f0 = t0 // fcs
        for j in range(rng.randrange(1, 6)):
            fi = f0 + rng.choice([0, 1, 2, 3, sub // fcs, sub // fcs + 1, 50])
            first = -(-(fi * fcs * n) // de)  # ceil
            fb.append(first)
        cand = set()
        for f in fb:
            for off in (-2, -1, 0, 1, 2, rng.randrange(0, 1000 if regime != 'low' else 6)):
                if f + off >= 0: cand.add(f + off)
        if regime == 'big63':
            for off in (-2, -1, 0, 1, 5): cand.add(2**63 + off)
        if regime == 'big64':
            for off in (-3, -2, -1): cand.add(2**64 + off)
        cand = sorted(c for c in cand if c < 2**64)
        cand = sorted(rng.sample(cand, min(len(cand), rng.randrange(1, 16))))
        oracle = {}
        i = 0
        while i < len(cand):
            if oracle and rng.random() < 0.2: ws.append(mkw())
            w = rng.choice(ws)
            bn = rng.randrange(1, 5)
            idxs = cand[i:i + bn]; i += bn
            N = len(idxs)
            form = rng.choice(['single', 'lod', 'doa']) if N > 1 else rng.choice(['single', 'single1', 'lod', 'doa'])
            sarg = rng.choice([list(idxs), np.array(idxs, dtype=np.uint64), tuple(idxs)])
            if form in ('single', 'single1'):
                for ix in idxs:
                    v = rsample(rng)
                    if form == 'single':
                        # scalar index: N == 1 rule applies to len-1 values
                        w.write(rng.choice([ix, np.uint64(ix)]), v)
                    else:
                        w.write([ix], v)
                    oracle[ix] = distribute(v, 1)[0]
            elif form == 'lod':
                vs = [rsample(rng) for _ in idxs]
                w.write(sarg, vs)
                for ix, v in zip(idxs, vs): oracle[ix] = v
            else:
                v = rsample(rng)
                # make some leaves per-sample
                def perleaf(dd):
                    for kk in list(dd):
                        if isinstance(dd[kk], dict): perleaf(dd[kk])
                        elif rng.random() < 0.5:
                            c = rng.randrange(3)
                            if c == 0: dd[kk] = [rng.randrange(100) for _ in range(N)]
                            elif c == 1: dd[kk] = np.arange(N * 2, dtype='f4').reshape(N, 2)
                            else: dd[kk] = tuple(rng.choice(['p', 'qq', 'ü']) for _ in range(N))
                perleaf(v)
                w.write(sarg, v)
                for ix, vv in zip(idxs, distribute(v, N)): oracle[ix] = vv
            # duplicate attempt sometimes
            if rng.random() < 0.3:
                ix = rng.choice(sorted(oracle))
                try:
                    rng.choice(ws).write(ix, {'a': 'DUP'})
                    return 'dup accepted %d' % ix
                except IOError:
                    pass
            # check reads
            r = R(md)
            keys = sorted(oracle)
            b = r.get_bounds()
            if b != (keys[0], keys[-1]): return 'bounds %r vs %r' % (b, (keys[0], keys[-1]))
            for q in range(12):
                pts = keys + [x + 1 for x in keys] + [max(x - 1, 0) for x in keys] + [(keys[0] + keys[-1]) // 2, max(keys[0]-5, 0)]
                s = rng.choice(pts); e = rng.choice(pts + [None])
                if e is not None and e < s: s, e = e, s
                if e is not None and (e - s) * de // n > 400 * fcs and (e-s)*de//n > 400*sub:
                    continue
                meth = rng.choice([None, 'ffill', 'pad'])
                ee = s if e is None else e
                exp = [x for x in keys if s <= x <= ee]
                if meth:
                    prev = [x for x in keys if x <= s]
                    if prev and prev[-1] not in exp: exp = [prev[-1]] + exp
                conv = rng.choice([int, int, (lambda x: np.uint64(x))]) if max(s, ee) < 2**64 else int
                try:
                    got = r.read(conv(s), None if e is None else conv(e), method=meth)
                except Exception as ex:
                    return 'read(%r,%r,%r) raised %r' % (s, e, meth, ex)
                gk = list(got.keys())
                if gk != exp: return 'read(%r,%r,%r) keys %r expected %r' % (s, e, meth, gk, exp)
                for x in exp:
                    if not deq(oracle[x], got[x]): return 'value at %d: wrote %r got %r' % (x, oracle[x], got[x])
                # flatdict index check
                try:
                    fd = r.read_flatdict(conv(s), conv(ee), method=meth, columns=None)
                except ValueError as ex:
                    if 'inhomogeneous' in str(ex): continue   # known finding 3
                    return 'flatdict raised %r' % ex
                except Exception as ex:
                    return 'flatdict(%r,%r,%r) raised %r' % (s, ee, meth, ex)
                if 'index' in fd and not any('index' in oracle[x] for x in exp):
                    fi = [int(v) for v in fd['index']]
                    if fi != exp: return 'flatdict(%r,%r,%r) index %r (dtype %s) expected %r' % (s, ee, meth, fi, fd['index'].dtype, exp)
            lat = r.read_latest()
            if list(lat.keys()) != [keys[-1]] or not deq(oracle[keys[-1]], lat[keys[-1]]): return 'read_latest %r' % (lat,)
        return None
    finally:
        shutil.rmtree(d)

if __name__ == '__main__':
    a, b = int(sys.argv[1]), int(sys.argv[2])
    bad = 0
    for seed in range(a, b):
        try:
            res = run(seed)
        except Exception as ex:
            res = 'DRIVER EXC ' + ''.join(traceback.format_exception_only(type(ex), ex)).strip() + ' @ ' + traceback.format_tb(ex.__traceback__)[-1].strip().replace('\n', ' ')
        if res:
            bad += 1
            print('seed', seed, res[:600])
    print('done', a, b, 'bad', bad)
