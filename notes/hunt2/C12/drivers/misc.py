import sys, os, tempfile, shutil, traceback
import numpy as np
from digital_rf.digital_metadata import DigitalMetadataWriter as W, DigitalMetadataReader as R
d = tempfile.mkdtemp(dir='/tmp/hw-C12-work')
def fresh(name, *a):
    md = os.path.join(d, name); os.makedirs(md); return md
try:
    # field names
    for i,name in enumerate(['a b', 'a.b', '10', 'index', ' ', 'x'*200, 'é', 'a\\b', '%s', '.', '..', 'a//b', 'a/', '/a', '', 'a/b/c', "a'b", 'a\nb', 'A', 'a']):
        md = fresh('fn%d'%i)
        w = W(md, 3600, 60, 1, 1, 'md')
        try:
            w.write([10,70], [{name: 1, 'zz': 2}, {name: 3, 'zz': 4}])
            r = R(md)
            print(repr(name), dict(r.read(0,100)), r.get_fields(), r.get_bounds())
        except Exception as e:
            try: aft = dict(R(md).read(0,100))
            except Exception as e2: aft = 'READEXC %r' % e2
            print(repr(name), 'EXC', type(e).__name__, str(e)[:70], '| after', aft)
    # nested + both
    md = fresh('nest')
    w = W(md, 3600, 60, 1, 1, 'md')
    w.write([1,2,3], {'a': {'b': [1,2,3], 'c': 'xyz', 'd': {'e': np.arange(3), 'f': np.arange(4)}}, 'g': (7,8,9)})
    r = R(md)
    print(dict(r.read(0,10)))
    print(r.read(0,10,columns='a/d/e'), r.read(0,10,columns=['a/d','g']), r.read(2, columns='a', method='ffill'))
    print(r.read_flatdict(0,10))
    print(r.read_flatdict(2), r.read_flatdict(2, columns='g'), r.read_flatdict(2, columns='a/d'))
    # read arg types
    print(r.read(np.uint64(1), np.int64(2)), r.read(np.uint64(2), method='ffill'), r.read(1.0, 2.5), r.read(np.int32(1), np.uint8(3), columns='g'))
    # samples arg types
    md = fresh('samp')
    w = W(md, 3600, 60, 1, 1, 'md')
    for s in [np.array([1,2**63],dtype=object), [3, 2**63+5], (7,), np.array([8.0]), np.uint8(9), '11', ['12','13'], True, np.array([20,21],dtype='>u8'), range(30,32)]:
        try:
            w.write(s, {'a': 1}); print('ok', repr(s))
        except Exception as e: print('EXC', repr(s), type(e).__name__, e)
finally:
    shutil.rmtree(d)
