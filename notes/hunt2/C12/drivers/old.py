import os, tempfile, shutil
import numpy as np
from digital_rf.digital_metadata import DigitalMetadataWriter as W, DigitalMetadataReader as R
d = tempfile.mkdtemp(dir='/tmp/hw-C12-work')
try:
    md=os.path.join(d,'c'); os.makedirs(md)
    w=W(md,3600,60,1,1,'md'); w.write([10,20],[{"freqs": np.array([1.,2.])},{"freqs": np.array([1.,2.,3.])}])
    try: print(R(md).read_flatdict(0,100))
    except Exception as e: print('F3 still:', type(e).__name__, str(e)[:60])
    md=os.path.join(d,'c2'); os.makedirs(md)
    w=W(md,3600,60,1,1,'md'); w.write([20,21,22],{"flags": {}})
    print('F4 still:' , dict(R(md).read(0,100)))
    md=os.path.join(d,'c3'); os.makedirs(md)
    w=W(md,3600,60,1,1,'md')
    try: w.write([1,2,3],{"gain":[1,2,3], "name": np.array(['a','b','c'])})
    except Exception as e: print('U array:', type(e).__name__, str(e)[:60])
    print(dict(R(md).read(0,100)), R(md).get_bounds())
    try: w.write([1,2,3],{"gain":[1,2,3], "name": ['a','b','c']})
    except Exception as e: print('retry:', type(e).__name__, str(e)[:60])
finally: shutil.rmtree(d)
