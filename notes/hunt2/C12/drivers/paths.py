import os, tempfile, shutil
import numpy as np
from digital_rf.digital_metadata import DigitalMetadataWriter as W, DigitalMetadataReader as R
d = tempfile.mkdtemp(dir='/tmp/hw-C12-work')
try:
    md=os.path.join(d,'top','ch'); os.makedirs(md)
    w=W(md+'/',3600,60,1,1,'md'); w.write([0,5,59,60,3600],{'a':[1,2,3,4,5]})
    os.symlink(md, os.path.join(d,'lnk'))
    os.chdir(os.path.join(d,'top'))
    for p in ['ch', './ch/', '../lnk', md+'//', '../top/./ch']:
        r=R(p); print(p, r.get_bounds(), list(r.read(0,4000)), list(r.read_latest()))
    # channel dir named like a timestamp subdir, inside a dir that has a properties file
    md2=os.path.join(d,'top','ch','2020-01-01T00-00-00'); os.makedirs(md2)
    w=W(md2,3600,60,1,1,'md'); w.write([1577836800, 1577836900],{'a':[1,2]})
    r=R(md2); print('tsdir', r.get_bounds(), list(r.read(1577836800,1577836900)), list(r.read_latest()))
    r=R(md); print('outer', r.get_bounds(), list(r.read_latest()))
    # two writers before first write
    md3=os.path.join(d,'two'); os.makedirs(md3)
    w1=W(md3,3600,60,1,1,'md'); w2=W(md3,3600,60,1,1,'md')
    w1.write(1,{'a':1})
    try: w2.write(2,{'a':2})
    except Exception as e: print('w2 first write', type(e).__name__, e)
    w2.write(2,{'a':2}); print(dict(R(md3).read(0,10)))
finally: shutil.rmtree(d)
