import sys, os, tempfile, shutil, traceback
import numpy as np
import digital_rf
from digital_rf.digital_metadata import DigitalMetadataWriter as W, DigitalMetadataReader as R
print(digital_rf.__file__)
vals = {
 'np_str': np.str_('abc'), 'np_str_u': np.str_('Zürich'), 'np_bytes': np.bytes_(b'abc'), 'bytes': b'abc', 'bytes_hi': b'\xff\xfe',
 'bytes_nul': b'a\x00', 'str_nl': 'a\nb', 'str_sp': ' a ', 'bigint': 2**64-1, 'negbig': -2**63, 'int_list_mixed':[2**63+1,-1],
 'u_arr': np.array(['a','bc']), 'S_arr': np.array([b'a',b'bc']), 'obj_arr': np.array(['a','bcd'],dtype=object),
 'list_bytes':[b'a',b'bc'], 'list_empty':[], 'tuple_empty':(), 'str_arr0': np.array('abc'), 'bool': True, 'npbool': np.bool_(False),
 'bool_arr': np.array([True,False]), 'cplx': 1+2j, 'c64': np.complex64(1+2j), 'f16': np.float16(1.5), 'ld': np.longdouble(1)/3,
 'ld_arr': np.array([1,2],dtype=np.longdouble)/3, 'list_list_str':[['a','b'],['c','d']], 'list_str_u':['Zürich','x'],
 'arr0d': np.array(5), 'arr0df': np.array(5.5), 'none': None, 'emptystr': '', 'list_none':[None], 'list_mixed':[1,'a'], 'list_float_int':[1,2.5],
 'range': range(3), 'dt64': np.datetime64('2020-01-01'), 'void': np.void(b'abc'), 'rec': np.array([(1,2.0)],dtype=[('a','i4'),('b','f8')]),
 'rec0': np.array((1,2.0),dtype=[('a','i4'),('b','f8')]), 'u8arr': np.array([2**64-1],dtype=np.uint64), 'be': np.array([1,2],dtype='>i4'),
 'bescalar': np.array([1],dtype='>i8')[0], 'str300': 'x'*300, 'str_emoji': '😀', 'list_str_empty':['',''], 'list_str_one':['a'], 
 'nested_list_num': [[1,2],[3,4]], 'arr_empty_i': np.zeros((0,),dtype='i4'), 'arr_02': np.zeros((0,2)), 'set': {1,2}, 'frozenset': frozenset([1]),
 'memview': memoryview(b'abc'), 'bytearray': bytearray(b'abc'), 'float_inf': float('inf'), 'int0': 0, 'negzero': -0.0,
 'list_bool': [True, False], 'list_cplx':[1j,2], 'i8min': np.int64(-2**63), 'u1': np.uint8(255), 'str_tab_nul': 'a\x00b',
 'str_trailing_nul': 'a\x00', 'surrogate': '\udc80', 'list_str_nulend': ['a\x00','b'], 'S_scalar_trail': np.bytes_(b'ab\x00'),
 'S_arr_trail': np.array([b'a\x00', b'bc']), 'obj_arr_mixed': np.array([b'a','b'],dtype=object), 'obj_bytes': np.array([b'\xc3\xbc', b'b'],dtype=object),
 'obj_bytes_bad': np.array([b'\xff', b'b'],dtype=object),
}
def eq(a,b):
    if type(a)!=type(b): return False
    if isinstance(a,np.ndarray): return a.dtype==b.dtype and a.shape==b.shape and (np.array_equal(a,b,equal_nan=True) if a.dtype.kind in 'fc' else np.array_equal(a,b))
    if isinstance(a,(list,tuple)): return len(a)==len(b) and all(eq(x,y) for x,y in zip(a,b))
    if isinstance(a,float) and a!=a: return b!=b
    return a==b
d = tempfile.mkdtemp(dir='/tmp/hw-C12-work')
try:
  for form in ('single','lod','doa'):
    for k,v in vals.items():
        md = os.path.join(d, form+'_'+k); os.makedirs(md)
        w = W(md, 3600, 60, 1, 1, 'md')
        try:
            if form=='single': w.write(10, {'v': v, 'z': 1})
            elif form=='lod': w.write([10,20], [{'v': v, 'z':1},{'v': v,'z':1}])
            else: w.write([10,20,30,40,50], {'v': v, 'z':1})
        except Exception as e:
            # check partial
            r = R(md)
            try: got = r.read(0,100)
            except Exception as e2: got = 'READ-EXC %r'%e2
            print(form,k,'WRITE-EXC',type(e).__name__,str(e)[:60],'| after:',got)
            continue
        r = R(md)
        try:
            got = r.read(0,100)
        except Exception as e:
            print(form,k,'READ-EXC',type(e).__name__,str(e)[:80]); continue
        g = got[10]['v']
        if not eq(g,v):
            print(form,k,'DIFF wrote',repr(v)[:50],type(v).__name__,'got',repr(g)[:50],type(g).__name__)
finally:
    shutil.rmtree(d)
