import os, tempfile, shutil
import numpy as np
from digital_rf.digital_metadata import DigitalMetadataWriter as W, DigitalMetadataReader as R
d = tempfile.mkdtemp(dir='/tmp/hw-C12-work')
try:
    md=os.path.join(d,'c'); os.makedirs(md)
    w=W(md,3600,3600,2*10**10,1,'md')
    top=2**64-1
    w.write([top-10, top-5, top],{'a':[1,2,3]})
    r=R(md)
    print(r.get_bounds())
    print(r.read(top, method='ffill'))
    print(r.read(np.uint64(top), method='ffill'))
    print(r.read_latest())
    lo=2**63
    md=os.path.join(d,'c2'); os.makedirs(md)
    w=W(md,3600,3600,10**10,1,'md')
    w.write([lo-10, lo-1, lo, lo+7],{'a':[1,2,3,4]})
    r=R(md)
    print(r.read(np.int64(lo-1), method='ffill'))
    print(r.read_flatdict(lo-10, lo+7))
    print(r.read_flatdict(lo-1, method='ffill'))
    print(r.read_flatdict(lo, method='ffill'))
finally: shutil.rmtree(d)
