import os, tempfile, shutil
import numpy as np
from digital_rf.digital_metadata import DigitalMetadataWriter as W, DigitalMetadataReader as R
d = tempfile.mkdtemp(dir='/tmp/hw-C12-work')
try:
    md=os.path.join(d,'c'); os.makedirs(md)
    w=W(md,3600,60,1,1,'md'); w.write([0,5,59,60,3600],{'a':[1,2,3,4,5]})
    r=R(md)
    print(r.read(-5,100), r.read(-10,-5), r.read(-3, method='ffill'), r.read(-3, 0, method='ffill'), r.get_bounds())
    print(r.read(0), r.read(0, method='ffill'), r.read(np.int64(-1), np.int64(0)))
finally: shutil.rmtree(d)
