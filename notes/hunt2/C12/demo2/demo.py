"""A list of byte strings that are not UTF-8 is stored, but no read of its file returns."""
import os, sys
import numpy as np
from digital_rf.digital_metadata import DigitalMetadataWriter, DigitalMetadataReader

md = os.path.join(sys.argv[1], "ch"); os.makedirs(md)
w = DigitalMetadataWriter(md, 3600, 60, 1, 1, "md")
w.write(10, {"tags": [b"ok", b"fine"], "raw": b"\xff\x01"})
w.write(20, {"tags": [b"\xff\x01", b"ok"], "raw": b"\xff\x01"})   # e.g. raw device id bytes / Latin-1 text
w.write(30, {"tags": [b"ok", b"fine"], "raw": b"\xff\x01"})
r = DigitalMetadataReader(md)
# the scalar with the same bytes is fine (returned as bytes)
assert r.read(10)[10]["raw"] == b"\xff\x01"
bad = []
for what, call in [
    ("read(0,100)", lambda: r.read(0, 100)),
    ("read(20)", lambda: r.read(20)),
    ("read(30, method='ffill')", lambda: r.read(30, method="ffill")),
    ("read_latest()", lambda: r.read_latest()),
]:
    try:
        res = call()
    except UnicodeDecodeError as e:
        bad.append("%s raised UnicodeDecodeError" % what)
if bad:
    print("VIOLATION: samples 10, 20, 30 were written without error, but " + "; ".join(bad))
    sys.exit(1)
got = r.read(0, 100)
assert list(got.keys()) == [10, 20, 30]
assert got[10]["tags"] == ["ok", "fine"] and list(got[20]["tags"])[1] in ("ok", b"ok") and list(got[20]["tags"])[0] == b"\xff\x01"
assert list(r.read_latest().keys()) == [30]
print("ok: all three samples returned; undecodable element kept as bytes:", got[20]["tags"])
