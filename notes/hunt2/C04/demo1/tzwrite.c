/* writes 2.5 s of 100 Hz data starting at unix second 1700000000 (2023-11-14T22:13:20 UTC),
 * subdirectories of 1 hour, files of 1 s, and prints "<subdir>/<file>" of the last file written */
#include <stdio.h>
#include <string.h>
#include <inttypes.h>
#include "digital_rf.h"
int main(int argc, char **argv)
{
	uint64_t v[250]; int i;
	for (i = 0; i < 250; i++) v[i] = 170000000000ULL + i;
	Digital_rf_write_object *w = digital_rf_create_write_hdf5(argv[1], H5T_NATIVE_ULLONG, 3600, 1000, 170000000000ULL, 100, 1,
			"uuid", 0, 0, 0, 1, 0, 0);
	if (!w) return 2;
	if (digital_rf_write_hdf5(w, 0, v, 250)) return 3;
	if (digital_rf_close_write_hdf5(w)) return 4;
	return 0;
}
