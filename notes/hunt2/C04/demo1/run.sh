#!/bin/bash
# REPO=<checkout> bash run.sh
# Writes the same 250 samples with the process time zone set to a "right/" (leap second aware) zone,
# as on hosts whose /etc/localtime points into zoneinfo/right, and checks where the samples ended up.
# exit 1 = violation observed, 0 = layout as the property prescribes, 2 = could not run
set -u
REPO=${REPO:?set REPO to a checkout}
HERE=$(cd "$(dirname "$0")" && pwd)
PY=${PY:-/venv/bin/python}
T=$(mktemp -d)
trap 'rm -rf "$T"' EXIT
ZONE=right/UTC
if [ ! -e /usr/share/zoneinfo/$ZONE ]; then echo "zoneinfo/$ZONE is not installed, cannot run"; exit 2; fi
gcc -O1 -I"$REPO/c/include" -I/usr/include/hdf5/serial "$HERE/tzwrite.c" "$REPO/c/lib/rf_write_hdf5.c" \
    -L/usr/lib/x86_64-linux-gnu/hdf5/serial -lhdf5 -lm -o "$T/tzwrite" 2>"$T/cc.log" || { cat "$T/cc.log"; exit 2; }
for tz in UTC $ZONE; do
    mkdir -p "$T/$tz/ch"
    TZ=$tz "$T/tzwrite" "$T/$tz/ch" || { echo "writer failed (TZ=$tz)"; exit 2; }
    out=$("$PY" "$HERE/check.py" "$T/$tz/ch" 100 1 3600 1000); rc=$?
    if [ $rc -ne 0 ]; then echo "TZ=$tz: $out"; exit $rc; fi
done
echo "ok with TZ=UTC and TZ=$ZONE: $out"
exit 0
