"""Oracle from the property text: sample k -> (subdirectory, file) with big-integer arithmetic only."""
import os, sys, re, datetime
import h5py

def place(k, n, d, sc, fc):
    ms = (k * d * 1000) // n
    fms = (ms // fc) * fc
    dsec = ((ms // 1000) // sc) * sc
    dt = datetime.datetime(1970, 1, 1) + datetime.timedelta(seconds=dsec)   # no C library / TZ involved
    return dt.strftime("%Y-%m-%dT%H-%M-%S"), "rf@%d.%03d.h5" % (fms // 1000, fms % 1000)

chdir, n, d, sc, fc = sys.argv[1], int(sys.argv[2]), int(sys.argv[3]), int(sys.argv[4]), int(sys.argv[5])
bad = []
nfiles = 0
for sub in sorted(os.listdir(chdir)):
    p = os.path.join(chdir, sub)
    if not os.path.isdir(p):
        continue
    for f in sorted(os.listdir(p)):
        if not re.match(r"^rf@\d+\.\d\d\d\.h5$", f):
            continue
        nfiles += 1
        with h5py.File(os.path.join(p, f), "r") as h:
            idx = h["rf_data_index"][...]
            nrows = h["rf_data"].shape[0]
        for i in range(len(idx)):
            g, off = int(idx[i][0]), int(idx[i][1])
            end = int(idx[i + 1][1]) if i + 1 < len(idx) else nrows
            for k in (g, g + (end - off) - 1):
                if end > off and place(k, n, d, sc, fc) != (sub, f):
                    bad.append((k, sub + "/" + f, "/".join(place(k, n, d, sc, fc))))
if nfiles == 0:
    print("no data file written"); sys.exit(2)
if bad:
    k, got, want = bad[0]
    print("VIOLATION (%d misplaced block ends in %d files): sample %d is stored in %s, its place is %s" % (len(bad), nfiles, k, got, want))
    sys.exit(1)
print("ok: %d files, every sample in the subdirectory and file its index prescribes" % nfiles)
