import os, sys, random, subprocess, shutil, tempfile, math
import oracle

DRIVER = os.environ.get("DRIVER", "./driver")
RATES = [(200,3),(100000000,7),(1001,1000),(1000000,999999),(7,5),(3,1),(1,1),(999,7),(30000,1001),(4294967295,4294967),
         (44100,1),(48000,7),(1000,3),(1000,1),(100,1),(10,1),(2,1),(5,2),(12345,678),(4294967291,1000),(65537,65536),
         (1000000007, 4294967291), (3, 2), (1000,11),(1000,13)]

def ceil_div(a,b): return -((-a)//b)

def first_sample_of_ms(ms, n, d):
    # smallest k with floor(k*d*1000/n) >= ms  <=> k*d*1000 >= ms*n
    return ceil_div(ms*n, d*1000)

def gen_case(rng):
    n,d = rng.choice(RATES)
    if rng.random() < 0.2:
        n = rng.randrange(1, 2**32); d = rng.randrange(1, 2**32)
        # keep rate in a sane range (>= 0.5 Hz, <= 4e9)
        if n/d < 0.5: n, d = d, n
    rate = n/d
    # samples per file target
    spf = rng.choice([1, 1.5, 2, 3, 5, 7.3, 10, 33, 100])
    fc = max(1, int(round(spf/rate*1000)))
    if fc*n < 1000*d: fc = ceil_div(1000*d, n)   # at least one sample per file
    fps = rng.choice([1,1,2,3,5,10])              # files per subdir
    # need sc*1000 % fc == 0: sc = fc*fps*m/1000 -> choose sc as lcm
    g = math.gcd(fc*fps, 1000)
    sc = fc*fps//g   # sc*1000 = fc*fps*(1000/g) divisible by fc
    if rng.random()<0.3: sc *= rng.choice([2,3])
    assert sc*1000 % fc == 0
    # epoch
    year = rng.choice([1980, 1999, 2001, 2024, 2038, 2099])
    t0 = int((year-1970)*365.2425*86400) + rng.randrange(0, 86400*300)
    # put start near a subdir boundary
    t0 = (t0//sc)*sc
    bms = t0*1000
    kb = first_sample_of_ms(bms, n, d)   # first sample of the subdir
    off = rng.choice([0,0,-1,1,-2, -int(spf)-1, rng.randrange(-50,50)])
    start = max(0, kb+off)
    cont = rng.random()<0.5
    comp = rng.choice([0,0,1,9])
    ck = rng.choice([0,0,1])
    nsub = rng.choice([1,1,2,4])
    cplx = rng.choice([0,1])
    return dict(n=n,d=d,fc=fc,sc=sc,start=start,cont=int(cont),comp=comp,ck=ck,nsub=nsub,cplx=cplx,spf=spf)

def boundaries_after(k, cfg, count):
    """first samples of the next `count` non-empty file windows after absolute sample k"""
    n,d,fc = cfg['n'],cfg['d'],cfg['fc']
    ms = (k*d*1000)//n
    w = ms//fc
    out=[]
    while len(out)<count:
        w+=1
        b = first_sample_of_ms(w*fc,n,d)
        if not out or b!=out[-1]:
            if b>k: out.append(b)
    return out

def run_case(seed, keep=False):
    rng = random.Random(seed)
    cfg = gen_case(rng)
    top = tempfile.mkdtemp(prefix="c04f")
    ch = os.path.join(top,"ch"); os.mkdir(ch)
    script=[]; meta=[]   # meta per op
    def create(start):
        script.append("c %s %d %d %d %d %d %d %d %d %d %d" % (ch,cfg['sc'],cfg['fc'],start,cfg['n'],cfg['d'],cfg['cont'],cfg['comp'],cfg['ck'],cfg['nsub'],cfg['cplx']))
        meta.append(('c',start))
    start = cfg['start']
    create(start)
    cur = 0      # model of next expected relative index (best guess; driver tells truth)
    nops = rng.randrange(2, 25)
    restarts = 0
    total = 0
    for _ in range(nops):
        if total > 4000: break
        r = rng.random()
        absn = start+cur
        bnds = boundaries_after(absn, cfg, 6)
        def pick_len():
            c = rng.random()
            if c<0.15: return 1
            if c<0.3: return max(1, bnds[0]-absn)            # exactly to end of file
            if c<0.4: return max(1, bnds[0]-absn-1)
            if c<0.5: return bnds[0]-absn+1
            if c<0.6: return bnds[rng.randrange(1,6)]-absn + rng.choice([-1,0,1])
            if c<0.63: return 0
            return rng.randrange(1, max(2,int(cfg['spf']*3)+2))
        def pick_gap():
            c = rng.random()
            if c<0.45: return 0
            if c<0.55: return 1
            if c<0.65: return max(0,bnds[0]-absn)              # land on first sample of next file
            if c<0.7: return max(0,bnds[0]-absn-1)
            if c<0.8: return bnds[rng.randrange(1,6)]-absn + rng.choice([-1,0,1])
            if c<0.83: return -rng.randrange(1,5)              # backwards (must be rejected)
            return rng.randrange(0, max(2,int(cfg['spf']*4)))
        if r < 0.12 and restarts < 4:
            # restart: close, create again with another start
            script.append("x"); meta.append(('x',))
            c = rng.random()
            if c<0.3: newstart = start+cur                      # continue exactly (same file if mid-file -> refused)
            elif c<0.55: newstart = bnds[0]                      # first sample of the next file
            elif c<0.7: newstart = bnds[rng.randrange(0,6)]+rng.choice([-1,0,1])
            elif c<0.8: newstart = max(0,start - rng.randrange(0, int(cfg['spf']*3)+2))   # earlier start
            elif c<0.9: newstart = start                          # same start again
            else: newstart = start+cur+rng.randrange(0,int(cfg['spf']*3)+2)
            start = newstart; cur = 0; restarts+=1
            create(start)
            if rng.random()<0.5:
                # poke the (possibly refused) window twice, then go on exactly at the next file
                for j in range(2):
                    script.append("w %d 1" % cur); meta.append(('w',[cur],cur)); cur+=1
                nb_ = boundaries_after(start+cur-1, cfg, 1)[0]-start
                if nb_>=cur:
                    ln_ = rng.randrange(1, max(2,int(cfg['spf']*2)))
                    script.append("w %d %d" % (nb_, ln_)); meta.append(('w',list(range(nb_,nb_+ln_)),nb_)); cur=nb_+ln_
            continue
        gap = pick_gap()
        idx = cur+gap
        if idx<0: idx=0
        if (not cfg['cont'] or True) and r < 0.45:
            # blocks
            nb = rng.choice([2,2,3,5,8,20,40])
            g=[];di=[];pos=0;gi=idx
            absn2 = start+gi
            for b in range(nb):
                bl = rng.choice([1,1,2,3,rng.randrange(1,max(2,int(cfg['spf'])+2))])
                if rng.random()<0.25:
                    bb = boundaries_after(start+gi, cfg, 2)
                    bl = max(1, bb[rng.randrange(0,2)]-(start+gi)+rng.choice([-1,0,0,1]))
                g.append(gi); di.append(pos)
                pos+=bl; gi+=bl
                c = rng.random()
                if c<0.25: gg=0
                elif c<0.5: gg=1
                elif c<0.65:
                    bb = boundaries_after(start+gi, cfg, 3)
                    gg = max(0, bb[rng.randrange(0,3)]-(start+gi)+rng.choice([-1,0,1]))
                else: gg=rng.randrange(0,max(2,int(cfg['spf']*2)))
                gi+=gg
            ln=pos
            idxs=[]
            for j in range(nb):
                e = di[j+1] if j+1<nb else ln
                idxs.extend(range(g[j], g[j]+e-di[j]))
            if cfg['cont']:
                # what the Python extension does in continuous mode: one write per block
                for j in range(nb):
                    e = di[j+1] if j+1<nb else ln
                    script.append("w %d %d" % (g[j], e-di[j]))
                    meta.append(('w', list(range(g[j], g[j]+e-di[j])), g[j]))
            else:
                script.append("b %d %d %s" % (nb, ln, " ".join("%d %d"%(a,b) for a,b in zip(g,di))))
                meta.append(('b', idxs, g[0]))
            cur = gi if False else (idxs[-1]+1 if idxs else cur)
            total+=ln
        else:
            ln = pick_len()
            if ln<0: ln=1
            script.append("w %d %d" % (idx, ln))
            meta.append(('w', list(range(idx, idx+ln)), idx))
            cur = idx+ln
            total+=ln
    script.append("x"); meta.append(('x',))
    p = subprocess.run([DRIVER], input="\n".join(script)+"\n", capture_output=True, text=True)
    problems=[]
    if p.returncode!=0:
        problems.append("driver exit %d: %s" % (p.returncode, p.stderr[-300:]))
    lines = [l.split() for l in p.stdout.strip().splitlines()]
    written=set()
    gi_before=0; st=None; alive=False
    stats=dict(ok=0, rej=0, partial=0, createfail=0, closefail=0)
    for m,l in zip(meta,lines):
        rc=int(l[1]); gia=int(l[2])
        if m[0]=='c':
            st=m[1]; gi_before=0; alive=(rc==0)
            if rc!=0: stats['createfail']+=1
        elif m[0]=='x':
            alive=False
            if rc!=0: stats['closefail']=stats.get('closefail',0)+1
        else:
            idxs=m[1]
            if not alive: continue
            if rc==0:
                written.update(st+i for i in idxs); stats['ok']+=1
                exp = idxs[-1]+1 if idxs else gi_before
                if gia!=exp: problems.append("global_index %d after successful write, expected %d"%(gia,exp))
            else:
                if idxs and idxs[0]>=gi_before:
                    part=[st+i for i in idxs if i<gia]
                    if part: stats['partial']+=1
                    else: stats['rej']+=1
                    written.update(part)
                else:
                    stats['rej']+=1
                    if gia!=gi_before: problems.append("global_index moved by a rejected write")
            gi_before=gia
    problems += oracle.check(ch, cfg['n'],cfg['d'],cfg['sc'],cfg['fc'], written, continuous_fill=bool(cfg['cont']))
    if problems and keep:
        print("KEPT", top); open(os.path.join(top,"script.txt"),"w").write("\n".join(script)+"\n")
    else:
        shutil.rmtree(top)
    return cfg, problems, stats, len(written), p.stderr

if __name__=="__main__":
    a,b = int(sys.argv[1]), int(sys.argv[2])
    bad=0; tot=dict(ok=0,rej=0,partial=0,createfail=0,closefail=0); ns=0
    for seed in range(a,b):
        cfg,problems,stats,nw,err = run_case(seed, keep=True)
        for k in tot: tot[k]+=stats[k]
        ns+=nw
        if problems:
            bad+=1
            print("SEED",seed,cfg); 
            for q in problems[:6]: print("   ",q)
            print("   stderr tail:", err[-400:].replace("\n"," | "))
    print("seeds %d-%d bad %d ops %s samples %d" % (a,b,bad,tot,ns))
