"""Oracle for C04 written from the property text only (big-int arithmetic, no gmtime)."""
import os, re, datetime
import numpy as np, h5py

def subdir_name(sec):
    dt = datetime.datetime(1970, 1, 1) + datetime.timedelta(seconds=int(sec))
    return "%04d-%02d-%02dT%02d-%02d-%02d" % (dt.year, dt.month, dt.day, dt.hour, dt.minute, dt.second)

def expected_place(k, n, d, sc, fc):
    ms = (k * d * 1000) // n
    fms = (ms // fc) * fc
    dsec = ((fms // 1000) // sc) * sc   # "for that time rounded down to a multiple of the subdirectory cadence"
    # NB: the directory of the sample time and of the file time agree because sc*1000 % fc == 0
    dsec2 = ((ms // 1000) // sc) * sc
    assert dsec == dsec2
    return subdir_name(dsec), "rf@%d.%03d.h5" % (fms // 1000, fms % 1000)

def check(chdir, n, d, sc, fc, written=None, continuous_fill=False, check_values=True, maxproblems=5):
    """written: dict absolute index -> True (set) of successfully written samples, or None."""
    problems = []
    seen = {}   # index -> file
    stored_all = set()
    for sub in sorted(os.listdir(chdir)):
        p = os.path.join(chdir, sub)
        if not os.path.isdir(p):
            continue
        for f in sorted(os.listdir(p)):
            full = os.path.join(p, f)
            if f.startswith("tmp."):
                problems.append("leftover tmp file %s/%s" % (sub, f)); continue
            m = re.match(r"^rf@(\d+)\.(\d\d\d)\.h5$", f)
            if not m:
                problems.append("strange file %s/%s" % (sub, f)); continue
            with h5py.File(full, "r") as h:
                idx = h["rf_data_index"][...]
                data = h["rf_data"]
                nrows = data.shape[0]
                dat = data[...]
            rows = [(int(a), int(b)) for a, b in idx]
            for i, (g, off) in enumerate(rows):
                end = rows[i + 1][1] if i + 1 < len(rows) else nrows
                if end < off:
                    problems.append("%s/%s: index rows not increasing" % (sub, f)); continue
                ln = end - off
                if ln == 0:
                    continue
                # check first and last of the run exactly, and all in between via the two ends (monotone)
                for k in (g, g + ln - 1):
                    es, ef = expected_place(k, n, d, sc, fc)
                    if (es, ef) != (sub, f):
                        problems.append("index %d is in %s/%s, its place is %s/%s" % (k, sub, f, es, ef))
                for j in range(ln):
                    k = g + j
                    if k in seen:
                        problems.append("index %d in two files: %s and %s/%s" % (k, seen[k], sub, f))
                        break
                    seen[k] = sub + "/" + f
                if check_values:
                    v = dat[off:end]
                    if v.dtype.names:
                        r = v["r"]
                    else:
                        r = v
                    r = r.reshape(ln, -1)
                    ks = np.arange(g, g + ln, dtype=np.uint64)
                    for j in range(ln):
                        k = g + j
                        isw = written is None or k in written
                        if isw and not np.all(r[j] == np.uint64(k)):
                            problems.append("value at index %d in %s/%s is %r" % (k, sub, f, r[j])); break
                        if not isw and not continuous_fill:
                            problems.append("index %d stored in %s/%s but never written" % (k, sub, f)); break
                        if not isw and continuous_fill and not np.all(r[j] == 0):
                            problems.append("unwritten index %d in %s/%s has non-fill value" % (k, sub, f)); break
                stored_all.update(range(g, g + ln))
            if len(problems) >= maxproblems:
                return problems
    if written is not None:
        missing = [k for k in written if k not in stored_all]
        if missing:
            problems.append("%d written samples not stored, first %d" % (len(missing), min(missing)))
    return problems
