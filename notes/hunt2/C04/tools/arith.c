#include <stdio.h>
#include <stdlib.h>
#include <string.h>
#include <inttypes.h>
#include "digital_rf.h"
int digital_rf_get_subdir_file(Digital_rf_write_object *o, uint64_t global_sample, char * subdir, char * basename, uint64_t * samples_left, uint64_t * max_samples_this_file);
int main(void){
 Digital_rf_write_object o; memset(&o,0,sizeof o);
 uint64_t sc,fc,start,n,d,k; char sub[BIG_HDF5_STR], base[SMALL_HDF5_STR]; uint64_t sl,mx;
 while (scanf("%" SCNu64 " %" SCNu64 " %" SCNu64 " %" SCNu64 " %" SCNu64 " %" SCNu64,&sc,&fc,&start,&n,&d,&k)==6){
  o.subdir_cadence_secs=sc;o.file_cadence_millisecs=fc;o.global_start_sample=start;o.sample_rate_numerator=n;o.sample_rate_denominator=d;
  int rc=digital_rf_get_subdir_file(&o,k,sub,base,&sl,&mx);
  if(rc) printf("ERR\n"); else printf("%s %s %" PRIu64 " %" PRIu64 "\n",sub,base,sl,mx);
 }
 return 0;}
