/* op-script driver for the C writer. Script on stdin:
 *  c <dir> <subdir_cad> <file_cad> <start> <n> <d> <cont> <comp> <cksum> <nsub> <cplx>
 *  w <idx> <len>
 *  b <nblocks> <veclen> g0 d0 g1 d1 ...
 *  x            (close)
 * data: uint64, every component of sample = absolute index (imag part = ~index)
 * prints one line per op: "<op#> <rc> <global_index>"
 */
#include <stdio.h>
#include <stdlib.h>
#include <string.h>
#include <inttypes.h>
#include "digital_rf.h"

int main(void)
{
	char op[8], dir[900];
	Digital_rf_write_object *w = NULL;
	uint64_t start = 0; int nsub = 1, cplx = 0;
	int opn = 0;
	while (scanf("%7s", op) == 1) {
		if (op[0] == 'c') {
			uint64_t sc, fc, n, d; int cont, comp, ck;
			if (scanf("%899s %" SCNu64 " %" SCNu64 " %" SCNu64 " %" SCNu64 " %" SCNu64 " %d %d %d %d %d",
				dir, &sc, &fc, &start, &n, &d, &cont, &comp, &ck, &nsub, &cplx) != 11) return 2;
			w = digital_rf_create_write_hdf5(dir, H5T_NATIVE_ULLONG, sc, fc, start, n, d, "uuid", comp, ck, cplx, nsub, cont, 0);
			printf("%d %d 0\n", opn, w ? 0 : -1);
		} else if (op[0] == 'w') {
			uint64_t idx, len, i; int s;
			if (scanf("%" SCNu64 " %" SCNu64, &idx, &len) != 2) return 2;
			int comp = cplx ? 2 : 1;
			uint64_t *v = malloc(sizeof(uint64_t) * (len ? len : 1) * nsub * comp);
			for (i = 0; i < len; i++) for (s = 0; s < nsub; s++) {
				uint64_t a = start + idx + i;
				if (cplx) { v[(i*nsub+s)*2] = a; v[(i*nsub+s)*2+1] = ~a; } else v[i*nsub+s] = a;
			}
			int rc = w ? digital_rf_write_hdf5(w, idx, v, len) : -99;
			printf("%d %d %" PRIu64 "\n", opn, rc, w ? w->global_index : 0);
			free(v);
		} else if (op[0] == 'b') {
			uint64_t nb, len, i, j; int s;
			if (scanf("%" SCNu64 " %" SCNu64, &nb, &len) != 2) return 2;
			uint64_t *g = malloc(sizeof(uint64_t) * nb), *di = malloc(sizeof(uint64_t) * nb);
			for (i = 0; i < nb; i++) if (scanf("%" SCNu64 " %" SCNu64, &g[i], &di[i]) != 2) return 2;
			int comp = cplx ? 2 : 1;
			uint64_t *v = malloc(sizeof(uint64_t) * (len ? len : 1) * nsub * comp);
			j = 0;
			for (i = 0; i < len; i++) {
				while (j + 1 < nb && di[j+1] <= i) j++;
				uint64_t a = start + g[j] + (i - di[j]);
				for (s = 0; s < nsub; s++) {
					if (cplx) { v[(i*nsub+s)*2] = a; v[(i*nsub+s)*2+1] = ~a; } else v[i*nsub+s] = a;
				}
			}
			int rc = w ? digital_rf_write_blocks_hdf5(w, g, di, nb, v, len) : -99;
			printf("%d %d %" PRIu64 "\n", opn, rc, w ? w->global_index : 0);
			free(v); free(g); free(di);
		} else if (op[0] == 'x') {
			int rc = w ? digital_rf_close_write_hdf5(w) : 0;
			w = NULL;
			printf("%d %d 0\n", opn, rc);
		} else return 3;
		opn++;
		fflush(stdout);
	}
	if (w) digital_rf_close_write_hdf5(w);
	return 0;
}
