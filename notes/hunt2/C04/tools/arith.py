import random, subprocess, sys, datetime, math
def ceil_div(a,b): return -((-a)//b)
def subdir_name(sec):
    days, rem = divmod(sec, 86400)
    # proleptic Gregorian by python's date for years <= 9999, else skip
    dt = datetime.datetime(1970,1,1)+datetime.timedelta(days=days, seconds=rem)
    return "%04d-%02d-%02dT%02d-%02d-%02d"%(dt.year,dt.month,dt.day,dt.hour,dt.minute,dt.second)
seed=int(sys.argv[1]); N=int(sys.argv[2]); mode=sys.argv[3]
rng=random.Random(seed)
cases=[]; exp=[]
NS=[1,2,3,7,10,100,200,1000,44100,48000,10**6,10**7,10**8,10**9,2**31,2**32-5,2**32-1,4*10**9]
DS=[1,2,3,7,9,11,1000,1001,1024,999983,2**32-1,2**31+11]
while len(cases)<N:
    n=rng.choice(NS) if rng.random()<0.6 else rng.randrange(1,2**32)
    d=rng.choice(DS) if rng.random()<0.6 else rng.randrange(1,2**32)
    if mode=='bigcad':
        sc=rng.choice([86400,604800,2592000,31536000,10**9,3600*rng.randrange(1,100000), rng.randrange(1,10**10)])
        divs=[x for x in [1,2,4,5,8,10,20,25,40,50,100,125,200,250,500,1000] ]
        # fc = sc*1000/m for m dividing sc*1000
        m=rng.choice([1,2,3,4,5,6,7,8,9,10,12,16,24,60,100,1000,86400])
        if (sc*1000)%m: continue
        fc=sc*1000//m
    else:
        sc=rng.choice([1,2,3,10,60,3600,86400,rng.randrange(1,100000)])
        m=rng.choice([1,2,3,4,5,8,10,16,25,40,100,125,200,500,1000, rng.randrange(1,3000)])
        if (sc*1000)%m: continue
        fc=sc*1000//m
    # time range
    if mode=='wide':
        tsec=rng.choice([rng.randrange(0,10*365*86400), rng.randrange(0,253402300799-10**6), rng.randrange(4102444800,253402300799-10**6)])
    else:
        tsec=rng.randrange(0,253402300799-10**6) if rng.random()<0.5 else rng.randrange(0,5*10**9)
    # choose sample near a file boundary
    wms=(tsec*1000//fc)*fc + (fc if rng.random()<0.5 else 0)
    if rng.random()<0.3: wms=(tsec//sc)*sc*1000
    kb=ceil_div(wms*n, d*1000)
    k=kb+rng.choice([0,0,-1,1,-2,2,rng.randrange(-1000,1000)])
    if k<0 or k>=2**64: continue
    ms=(k*d*1000)//n
    if ms//1000 >= 253402300799: continue
    start=rng.choice([0,k,rng.randrange(0,k+1)])
    fms=(ms//fc)*fc
    fs=ceil_div(fms*n,d*1000); nf=ceil_div((fms+fc)*n,d*1000)
    if nf>=2**64: continue
    dsec=((ms//1000)//sc)*sc
    cases.append("%d %d %d %d %d %d"%(sc,fc,start,n,d,k-start))
    exp.append("%s tmp.rf@%d.%03d.h5 %d %d"%(subdir_name(dsec),fms//1000,fms%1000,nf-k,nf-fs))
p=subprocess.run(["./arith"],input="\n".join(cases)+"\n",capture_output=True,text=True)
out=p.stdout.strip().splitlines()
bad=0
for c,e,o in zip(cases,exp,out):
    if e!=o:
        bad+=1
        if bad<=5: print("CASE",c,"\n  exp",e,"\n  got",o)
print(mode,"seed",seed,"cases",len(cases),"bad",bad, "outlines",len(out))
