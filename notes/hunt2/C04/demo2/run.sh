#!/bin/bash
# REPO=<checkout> bash run.sh
# Six writers (six channels, one thread each) in one process write one sample per call, each channel
# inside a single subdirectory period.  Every channel must end up with exactly one subdirectory.
# exit 1 = a file was put into a wrongly named subdirectory, 0 = not observed in ROUNDS rounds, 2 = could not run
set -u
REPO=${REPO:?set REPO to a checkout}
HERE=$(cd "$(dirname "$0")" && pwd)
ROUNDS=${ROUNDS:-25}
T=$(mktemp -d)
trap 'rm -rf "$T"' EXIT
gcc -O1 -I"$REPO/c/include" -I/usr/include/hdf5/serial "$HERE/race.c" "$REPO/c/lib/rf_write_hdf5.c" \
    -L/usr/lib/x86_64-linux-gnu/hdf5/serial -lhdf5 -lm -lpthread -o "$T/race" 2>"$T/cc.log" || { cat "$T/cc.log"; exit 2; }
out=$("$T/race" "$T" "$ROUNDS" 2>/dev/null); rc=$?
if [ $rc -eq 1 ]; then echo "VIOLATION: $(echo "$out" | head -1)"; exit 1; fi
echo "$out" | tail -1
exit $rc
