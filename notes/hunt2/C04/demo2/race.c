/* Several writers, one channel and one thread each, in one process (libhdf5 is built thread-safe).
 * Every channel is written inside ONE subdirectory period, so the library must never name a second
 * subdirectory for it.  Usage: race <topdir> <rounds>;  exit 1 when a misplaced file was produced. */
#include <stdio.h>
#include <stdlib.h>
#include <string.h>
#include <pthread.h>
#include <inttypes.h>
#include <dirent.h>
#include "digital_rf.h"

#define NTHREADS 6
#define WRITES_PER_ROUND 60000

static volatile int stop = 0;
struct arg { char dir[900]; uint64_t start_sec; long calls; int failed; };

static void *run(void *p)
{
	struct arg *a = p;
	/* 1000 Hz, subdirectories of 1 hour, files of 10 s, continuous */
	Digital_rf_write_object *w = digital_rf_create_write_hdf5(a->dir, H5T_NATIVE_ULLONG, 3600, 10000, a->start_sec * 1000, 1000, 1,
			"uuid", 0, 0, 0, 1, 1, 0);
	uint64_t v[1] = {0};
	uint64_t i;
	if (!w) { a->failed = 1; return NULL; }
	for (i = 0; i < WRITES_PER_ROUND && !stop; i++) {
		/* one sample per call, 60 s of data per round: stays inside the first hour for up to 60 rounds */
		if (digital_rf_write_hdf5(w, i, v, 1)) { a->failed = 1; break; }
		a->calls++;
	}
	digital_rf_close_write_hdf5(w);
	return NULL;
}

int main(int argc, char **argv)
{
	/* six different hours of six different days/months/years, each the start of an hour */
	static const uint64_t starts[NTHREADS] = { 1000000800ULL, 1699999200ULL, 1234566000ULL, 1451606400ULL, 978310800ULL, 1577923200ULL };
	struct arg a[NTHREADS];
	pthread_t t[NTHREADS];
	int i, r, rounds = atoi(argv[2]);
	int bad = 0;
	char cmd[1000];

	for (r = 0; r < rounds && !bad; r++) {
		for (i = 0; i < NTHREADS; i++) {
			snprintf(a[i].dir, sizeof a[i].dir, "%s/r%d_ch%d", argv[1], r, i);
			snprintf(cmd, sizeof cmd, "mkdir -p %s", a[i].dir);
			if (system(cmd)) return 2;
			a[i].start_sec = starts[i]; a[i].calls = 0; a[i].failed = 0;
		}
		for (i = 0; i < NTHREADS; i++) pthread_create(&t[i], NULL, run, &a[i]);
		for (i = 0; i < NTHREADS; i++) pthread_join(t[i], NULL);
		/* count the subdirectories of each channel: exactly one is right */
		for (i = 0; i < NTHREADS; i++) {
			DIR *d = opendir(a[i].dir); struct dirent *e; int nsub = 0; char names[400] = "";
			while ((e = readdir(d)) != NULL)
				if (e->d_name[0] >= '0' && e->d_name[0] <= '9') { nsub++; if (strlen(names) < 300) { strcat(names, e->d_name); strcat(names, " "); } }
			closedir(d);
			if (nsub != 1 || a[i].failed) {
				printf("round %d channel %d (all samples within one hour starting at unix second %" PRIu64 "): %d subdirectories: %s%s\n",
					r, i, a[i].start_sec, nsub, names, a[i].failed ? "(and a write failed)" : "");
				bad = 1;
			}
		}
		snprintf(cmd, sizeof cmd, "rm -rf %s/r%d_ch*", argv[1], r);
		if (!bad && system(cmd)) return 2;
	}
	if (!bad) printf("no misplaced file in %d rounds\n", rounds);
	return bad;
}
