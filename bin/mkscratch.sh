#!/bin/bash
# usage: mkscratch.sh <repo> <dest>  -> dest/digital_rf with repo sources + installed .so
set -e
rm -rf "$2"; mkdir -p "$2"
cp -r "$1/python/digital_rf" "$2/digital_rf"
cp /venv/lib/python3.12/site-packages/digital_rf/_py_rf_write_hdf5*.so "$2/digital_rf/"
cat > "$2/digital_rf/_version.py" <<'EOV'
__version__ = version = '2.6.14'
__version_tuple__ = version_tuple = (2, 6, 14)
__commit_id__ = commit_id = None
EOV
