"""helper: edit a module-level string constant (EXPLANATION / TECHNIQUE) of a rule module by literal replacement or append"""
import ast, sys, textwrap
def edit(path, var, pairs=(), append=None):
    s=open(path).read()
    t=ast.parse(s)
    node=[n for n in t.body if isinstance(n, ast.Assign) and isinstance(n.targets[0], ast.Name) and n.targets[0].id==var][0]
    val=ast.literal_eval(node.value)
    for old,new in pairs:
        assert val.count(old)==1, (path, var, old[:60], val.count(old))
        val=val.replace(old,new)
    if append:
        val = val.rstrip() + " " + append
    lines=s.split("\n")
    chunks=textwrap.wrap(val, 116, break_long_words=False, drop_whitespace=False)
    body="%s = (\n" % var + "\n".join("    %r" % c for c in chunks) + ")"
    lines[node.lineno-1:node.end_lineno]=body.split("\n")
    open(path,'w').write("\n".join(lines))
