"""Propositional structure of Python conditions over canonical atoms (the Python counterpart of cbool): formula trees
("atom", text) | ("not", f) | ("and", f, g) | ("or", f, g) | ("true",) | ("false",), evaluated with cbool.ev / cbool.equivalent.

Canonical atoms: a < b -> "b>a";  a <= b -> not "a>b";  a >= b -> not "b>a";  a != b -> not "a==b" (operands sorted);
`not x` -> not truth(x);  `x is None` -> atom "x is None";  `x is not None` -> its negation;  `len(x) == 0` / `not x` are NOT
identified (different atoms).  Chained comparisons are split into conjunctions."""
from __future__ import annotations

import ast

from .core import norm
from . import cbool


def _t(e):
    return norm(ast.unparse(e))


def truth(e):
    if isinstance(e, ast.Constant):
        return ("true",) if e.value else ("false",)
    if isinstance(e, ast.UnaryOp) and isinstance(e.op, ast.Not):
        return ("not", truth(e.operand))
    if isinstance(e, ast.BoolOp):
        fs = [truth(v) for v in e.values]
        return cbool.conj(fs) if isinstance(e.op, ast.And) else cbool.disj(fs)
    if isinstance(e, ast.Compare):
        parts = []
        left = e.left
        for op, right in zip(e.ops, e.comparators):
            a, b = _t(left), _t(right)
            if isinstance(op, ast.Gt):
                f = ("atom", "%s>%s" % (a, b))
            elif isinstance(op, ast.Lt):
                f = ("atom", "%s>%s" % (b, a))
            elif isinstance(op, ast.LtE):
                f = ("not", ("atom", "%s>%s" % (a, b)))
            elif isinstance(op, ast.GtE):
                f = ("not", ("atom", "%s>%s" % (b, a)))
            elif isinstance(op, (ast.Eq, ast.NotEq)):
                x, y = sorted([a, b])
                f = ("atom", "%s==%s" % (x, y))
                if isinstance(op, ast.NotEq):
                    f = ("not", f)
            elif isinstance(op, (ast.Is, ast.IsNot)):
                f = ("atom", "%s is %s" % (a, b))
                if isinstance(op, ast.IsNot):
                    f = ("not", f)
            elif isinstance(op, (ast.In, ast.NotIn)):
                f = ("atom", "%s in %s" % (a, b))
                if isinstance(op, ast.NotIn):
                    f = ("not", f)
            else:
                f = ("atom", _t(ast.Compare(left, [op], [right])))
            parts.append(f)
            left = right
        return cbool.conj(parts)
    return ("atom", _t(e))


def compare_nodes(e):
    """every single comparison (left, op, right) in the condition e"""
    out = []
    for n in ast.walk(e):
        if isinstance(n, ast.Compare):
            left = n.left
            for op, right in zip(n.ops, n.comparators):
                out.append((left, op, right))
                left = right
    return out


def atom_of(left, op, right):
    """(atom text, meaning) for an ordering comparison: meaning in {'gt': atom true iff left>right, 'lt': atom true iff left<right,
    'eq': iff left==right}; None for other operators"""
    a, b = _t(left), _t(right)
    if isinstance(op, (ast.Gt, ast.LtE)):
        return "%s>%s" % (a, b), "gt"
    if isinstance(op, (ast.Lt, ast.GtE)):
        return "%s>%s" % (b, a), "lt"
    if isinstance(op, (ast.Eq, ast.NotEq)):
        x, y = sorted([a, b])
        return "%s==%s" % (x, y), "eq"
    return None


def path_condition(node, parents, stop):
    """conjunction of the tests of the If / IfExp / While ancestors of `node` below `stop`, each in the polarity of the branch"""
    fs = []
    ch = node
    p = parents.get(node)
    while p is not None and p is not stop:
        if isinstance(p, ast.If) or isinstance(p, ast.While):
            if any(ch is x for x in p.body):
                fs.append(truth(p.test))
            elif any(ch is x for x in p.orelse):
                fs.append(("not", truth(p.test)))
        elif isinstance(p, ast.IfExp):
            if ch is p.body:
                fs.append(truth(p.test))
            elif ch is p.orelse:
                fs.append(("not", truth(p.test)))
        ch = p
        p = parents.get(p)
    return cbool.conj(list(reversed(fs)))
