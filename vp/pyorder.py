"""Order/element evaluation of Python sequence expressions and partial evaluation of conditions, used to decide that a flag
(`reverse`) changes only the *order* in which a function visits a sequence, never which elements are selected.

Nothing is run: the AST of one (flattened) function is interpreted over a symbolic list [e0, e1, e2] for both values of the flag.

* `SeqEval.value(expr, at)` evaluates a sequence expression at statement `at`: names are chased through their earlier
  definitions and in-place mutations (`x = <seq op>(x)`, `x.reverse()`, `x.sort()`), definitions under `if <flag>` / `if not
  <flag>` are taken according to the mode; the first expression that is not a sequence operation (a slice of a list, a
  parameter, a list built by a loop) is the *base* [e0, e1, e2], assumed ascending.  Sequence operations understood:
  enumerate, reversed, list, tuple, sorted, zip, range(len(x)) / range(a, b, c), x[::-1], conditional expressions on the flag.
* `bind(target, value)` destructures an element with a loop target pattern.
* `residual(expr, env, flag, mode)` partially evaluates a condition: loop-bound integers and the flag become constants,
  comparisons / and / or / not / conditional expressions over constants are folded, everything else stays as text.
"""
from __future__ import annotations

import ast
import copy

from .core import AnalysisError, norm
from . import pyfront

N = 3   # length of the symbolic base list


class Elem(object):
    """element i of the base list (or component j.. of it)"""

    def __init__(self, i, path=()):
        self.i = i
        self.path = tuple(path)

    def __eq__(self, o):
        return isinstance(o, Elem) and (self.i, self.path) == (o.i, o.path)

    def __hash__(self):
        return hash((self.i, self.path))

    def __repr__(self):
        return "e%d%s" % (self.i, "".join("[%d]" % j for j in self.path))


class Unknown(Exception):
    pass


def preorder(fn):
    """statements of fn in depth-first source order (nested function bodies excluded) -> {id(stmt): index}, list"""
    order = []

    def go(stmts):
        for st in stmts:
            order.append(st)
            if isinstance(st, (ast.FunctionDef, ast.AsyncFunctionDef, ast.ClassDef)):
                continue
            for fld in ("body", "orelse", "finalbody"):
                sub = getattr(st, fld, None)
                if sub:
                    go(sub)
            for h in getattr(st, "handlers", []) or []:
                go(h.body)
    go(fn.body)
    return {id(s): k for k, s in enumerate(order)}, order


def stmt_parents(fn):
    """{id(stmt): (parent stmt or None, field, polarity)}"""
    out = {}

    def go(stmts, parent, fld):
        for st in stmts:
            out[id(st)] = (parent, fld)
            if isinstance(st, (ast.FunctionDef, ast.AsyncFunctionDef, ast.ClassDef)):
                continue
            for f in ("body", "orelse", "finalbody"):
                sub = getattr(st, f, None)
                if sub:
                    go(sub, st, f)
            for h in getattr(st, "handlers", []) or []:
                go(h.body, st, "handler")
    go(fn.body, None, None)
    return out


def flag_value(test, flag, mode):
    """truth value of a test that is a pure function of the flag, else None"""
    if isinstance(test, ast.Name) and test.id == flag:
        return mode
    if isinstance(test, ast.UnaryOp) and isinstance(test.op, ast.Not):
        v = flag_value(test.operand, flag, mode)
        return None if v is None else (not v)
    if isinstance(test, ast.Compare) and len(test.ops) == 1 and isinstance(test.left, ast.Name) and test.left.id == flag \
            and isinstance(test.comparators[0], ast.Constant) and isinstance(test.comparators[0].value, bool):
        c = test.comparators[0].value
        if isinstance(test.ops[0], (ast.Is, ast.Eq)):
            return mode == c
        if isinstance(test.ops[0], (ast.IsNot, ast.NotEq)):
            return mode != c
    return None


class SeqEval(object):
    def __init__(self, fn, flag, mode, neutral=()):
        self.neutral = tuple(neutral)
        self.fn = fn
        self.flag = flag
        self.mode = mode
        self.idx, self.order = preorder(fn)
        self.par = stmt_parents(fn)
        self.bases = []          # normalised texts of the base expressions met
        self.params = {a.arg for a in fn.args.args + fn.args.kwonlyargs}

    # -- structure -------------------------------------------------------
    def chain(self, st):
        out = []
        p = self.par.get(id(st))
        while p is not None and p[0] is not None:
            out.append(p)
            p = self.par.get(id(p[0]))
        return out

    def _active(self, d, at):
        """is definition statement d executed (in this mode) on the way to `at`?  True / False; raises Unknown if it depends on
        something else than the flag"""
        anc_at = {id(p[0]) for p in self.chain(at)} | {id(at)}
        for parent, fld in self.chain(d):
            if id(parent) in anc_at:
                if isinstance(parent, ast.If) and fld in ("body", "orelse"):
                    # `at` is inside the same If: must be in the same branch
                    in_same = any(p[0] is parent and p[1] == fld for p in self.chain(at))
                    if not in_same:
                        return False
                continue
            if isinstance(parent, ast.If):
                v = flag_value(parent.test, self.flag, self.mode)
                if v is None:
                    raise Unknown("definition under a condition that is not a function of `%s`: `%s`" % (self.flag, norm(ast.unparse(parent.test))[:80]))
                if (fld == "body") != v:
                    return False
            elif isinstance(parent, (ast.For, ast.While)):
                # a one-trip loop made by the inliner runs its body exactly once
                if isinstance(parent, ast.For) and isinstance(parent.target, ast.Name) and parent.target.id.startswith("__once_") and fld == "body":
                    continue
                raise Unknown("defined in a loop")
            elif isinstance(parent, (ast.Try, ast.With)):
                if fld == "body":
                    continue
                raise Unknown("defined in an exception handler")
            else:
                raise Unknown("definition context not recognised")
        return True

    def events(self, name, at):
        """definitions / in-place mutations of `name` before statement `at`, in order"""
        out = []
        k_at = self.idx[id(at)]
        for st in self.order[:k_at]:
            hit = None
            if isinstance(st, ast.Assign):
                for t in st.targets:
                    for x in ast.walk(t):
                        if isinstance(x, ast.Name) and x.id == name and isinstance(x.ctx, ast.Store):
                            hit = "assign" if (len(st.targets) == 1 and isinstance(t, ast.Name)) else "opaque"
            elif isinstance(st, ast.AugAssign) and isinstance(st.target, ast.Name) and st.target.id == name:
                hit = "opaque"
            elif isinstance(st, ast.Expr) and isinstance(st.value, ast.Call) and isinstance(st.value.func, ast.Attribute) \
                    and isinstance(st.value.func.value, ast.Name) and st.value.func.value.id == name:
                hit = "method"
            elif isinstance(st, (ast.For, ast.AsyncFor)) and any(isinstance(x, ast.Name) and x.id == name for x in ast.walk(st.target)):
                hit = "opaque"
            elif isinstance(st, ast.With) and any(i.optional_vars is not None and any(isinstance(x, ast.Name) and x.id == name for x in ast.walk(i.optional_vars)) for i in st.items):
                hit = "opaque"
            if hit and id(st) not in {id(p[0]) for p in self.chain(at)}:
                out.append((hit, st))
        return out

    # -- evaluation ------------------------------------------------------
    def base(self, text, expr=None, at=None):
        if expr is not None:
            # an opaque expression that receives the flag (or a value derived from it) may order or select by it: not a base
            names = {x.id for x in ast.walk(expr) if isinstance(x, ast.Name)}
            bad = set()
            if self.flag in names:
                bad.add(self.flag)
            if at is not None:
                for nm in names & flag_tainted(self.fn, self.flag, at, through_loops=False, control=False):
                    # a value made by an order-neutral function (e.g. the bisecting window function, which returns a forward
                    # slice) selects, it does not order: whether it selects the same elements is judged by the caller
                    evs = self.events(nm, at)
                    if evs and all(k == "assign" and isinstance(st.value, ast.Call) and pyfront.call_name(st.value) in self.neutral
                                   for k, st in evs):
                        continue
                    bad.add(nm)
            if bad:
                raise Unknown("`%s` depends on `%s` through %s" % (text[:60], self.flag, sorted(bad)))
        if text not in self.bases:
            self.bases.append(text)
        if len(self.bases) > 1:
            raise Unknown("more than one base sequence: %s" % self.bases)
        return [Elem(i) for i in range(N)]

    def name_value(self, name, at):
        evs = self.events(name, at)
        val = None
        have = False
        for kind, st in evs:
            try:
                act = self._active(st, at)
            except Unknown:
                # the variable is made by something we do not follow (a loop, a handler): from here on it is a base
                val, have = None, False
                self._opaque_name = True
                continue
            if not act:
                continue
            if kind == "assign":
                try:
                    val = self.value(st.value, st)
                    have = True
                except Unknown:
                    val, have = None, False
            elif kind == "method":
                c = st.value
                meth = c.func.attr
                if not have:
                    if meth in ("sort", "append", "extend", "insert", "remove", "pop", "clear"):
                        continue      # still the base (assumed ascending once sorted)
                    if meth == "reverse":
                        val, have = self.base(name), True
                    else:
                        continue
                if meth == "reverse":
                    val = list(reversed(val))
                elif meth == "sort":
                    val = self._sorted(val, c)
                elif meth in ("append", "extend", "insert", "remove", "pop", "clear"):
                    raise Unknown("`%s.%s(..)` after the sequence was derived" % (name, meth))
            else:
                val, have = None, False
        if not have:
            return self.base(name)
        return val

    def _sorted(self, val, call):
        rev = False
        for k in call.keywords:
            if k.arg == "reverse":
                v = flag_value(k.value, self.flag, self.mode)
                if v is None and isinstance(k.value, ast.Constant):
                    v = bool(k.value.value)
                if v is None:
                    raise Unknown("sort order not a function of `%s`" % self.flag)
                rev = v
            elif k.arg == "key":
                raise Unknown("sort with a key")

        def keyf(x):
            if isinstance(x, Elem):
                return (x.i,)
            if isinstance(x, tuple):
                return tuple(keyf(y) for y in x)
            return (x,)
        return sorted(val, key=keyf, reverse=rev)

    def value(self, e, at):
        """list of element values of sequence expression e evaluated just before statement `at`"""
        if isinstance(e, ast.IfExp):
            v = flag_value(e.test, self.flag, self.mode)
            if v is None:
                raise Unknown("conditional expression on `%s`" % norm(ast.unparse(e.test))[:60])
            return self.value(e.body if v else e.orelse, at)
        if isinstance(e, ast.Name):
            if e.id in self.params and not self.events(e.id, at):
                return self.base(e.id)
            return self.name_value(e.id, at)
        if isinstance(e, ast.Subscript):
            if isinstance(e.slice, ast.Slice) and e.slice.lower is None and e.slice.upper is None and e.slice.step is not None \
                    and norm(ast.unparse(e.slice.step)) == "-1":
                return list(reversed(self.value(e.value, at)))
            if isinstance(e.slice, ast.Slice) and e.slice.lower is None and e.slice.upper is None and e.slice.step is None:
                return list(self.value(e.value, at))
            return self.base(norm(ast.unparse(e)), e, at)
        if isinstance(e, ast.Call):
            d = pyfront.call_name(e)
            if d in ("list", "tuple", "iter") and len(e.args) == 1:
                return list(self.value(e.args[0], at))
            if d == "reversed" and len(e.args) == 1:
                return list(reversed(self.value(e.args[0], at)))
            if d == "sorted" and e.args:
                return self._sorted(self.value(e.args[0], at), e)
            if d == "enumerate" and e.args:
                start = 0
                if len(e.args) > 1:
                    start = self.intval(e.args[1], at)
                for k in e.keywords:
                    if k.arg == "start":
                        start = self.intval(k.value, at)
                return [(start + i, x) for i, x in enumerate(self.value(e.args[0], at))]
            if d == "zip":
                cols = [self.value(a, at) for a in e.args]
                return [tuple(r) for r in zip(*cols)]
            if d == "range":
                args = [self.intval(a, at) for a in e.args]
                return list(range(*args))
            return self.base(norm(ast.unparse(e)), e, at)
        if isinstance(e, (ast.Tuple, ast.List)) and not e.elts:
            return []
        raise Unknown("sequence expression `%s`" % norm(ast.unparse(e))[:80])

    def intval(self, e, at):
        if isinstance(e, ast.Constant) and isinstance(e.value, int):
            return e.value
        if isinstance(e, ast.IfExp):
            v = flag_value(e.test, self.flag, self.mode)
            if v is None:
                raise Unknown("conditional expression on `%s`" % norm(ast.unparse(e.test))[:60])
            return self.intval(e.body if v else e.orelse, at)
        if isinstance(e, ast.UnaryOp) and isinstance(e.op, ast.USub):
            return -self.intval(e.operand, at)
        if isinstance(e, ast.BinOp) and isinstance(e.op, (ast.Add, ast.Sub)):
            a, b = self.intval(e.left, at), self.intval(e.right, at)
            return a + b if isinstance(e.op, ast.Add) else a - b
        if isinstance(e, ast.Call) and pyfront.call_name(e) == "len" and len(e.args) == 1:
            return len(self.value(e.args[0], at))
        if isinstance(e, ast.Name):
            evs = self.events(e.id, at)
            if any(k != "assign" for k, st in evs):
                raise Unknown("integer variable `%s` is not only assigned" % e.id)
            live = [st for k, st in evs if self._active(st, at)]
            if live:
                return self.intval(live[-1].value, live[-1])
        raise Unknown("integer expression `%s`" % norm(ast.unparse(e))[:60])


def bind(target, value, env):
    """destructure `value` with the loop target pattern into env {name: int | Elem | tuple}"""
    if isinstance(target, ast.Name):
        env[target.id] = value
        return
    if isinstance(target, (ast.Tuple, ast.List)):
        if isinstance(value, tuple):
            if len(value) != len(target.elts):
                raise Unknown("loop target arity")
            for t, v in zip(target.elts, value):
                bind(t, v, env)
            return
        if isinstance(value, Elem):
            for j, t in enumerate(target.elts):
                bind(t, Elem(value.i, value.path + (j,)), env)
            return
    raise Unknown("loop target `%s`" % norm(ast.unparse(target)))


def elem_of(value):
    """the base element a (possibly enumerated / zipped) loop value carries; None if none or several"""
    found = set()

    def go(v):
        if isinstance(v, Elem):
            found.add(v.i)
        elif isinstance(v, tuple):
            for x in v:
                go(x)
    go(value)
    return list(found)[0] if len(found) == 1 else None


class _PE(ast.NodeTransformer):
    def __init__(self, env, flag, mode):
        self.env = env
        self.flag = flag
        self.mode = mode

    def visit_Name(self, node):
        if not isinstance(node.ctx, ast.Load):
            return node
        if node.id == self.flag and self.mode is not None:
            return ast.Constant(self.mode)
        if node.id in self.env:
            v = self.env[node.id]
            if isinstance(v, bool) or isinstance(v, int):
                return ast.Constant(v)
            if isinstance(v, Elem):
                return ast.Name("<%r>" % v, ast.Load())
        return node

    def visit_UnaryOp(self, node):
        self.generic_visit(node)
        if isinstance(node.op, ast.Not) and isinstance(node.operand, ast.Constant):
            return ast.Constant(not node.operand.value)
        if isinstance(node.op, ast.USub) and isinstance(node.operand, ast.Constant) and isinstance(node.operand.value, int):
            return ast.Constant(-node.operand.value)
        return node

    def visit_BinOp(self, node):
        self.generic_visit(node)
        l, r = node.left, node.right
        if isinstance(l, ast.Constant) and isinstance(r, ast.Constant) and isinstance(l.value, int) and isinstance(r.value, int):
            if isinstance(node.op, ast.Add):
                return ast.Constant(l.value + r.value)
            if isinstance(node.op, ast.Sub):
                return ast.Constant(l.value - r.value)
            if isinstance(node.op, ast.Mult):
                return ast.Constant(l.value * r.value)
        return node

    def visit_Compare(self, node):
        self.generic_visit(node)
        if len(node.ops) == 1 and isinstance(node.left, ast.Constant) and isinstance(node.comparators[0], ast.Constant):
            a, b = node.left.value, node.comparators[0].value
            op = node.ops[0]
            try:
                if isinstance(op, ast.Eq):
                    return ast.Constant(a == b)
                if isinstance(op, ast.NotEq):
                    return ast.Constant(a != b)
                if isinstance(op, ast.Is):
                    return ast.Constant(a is b or (a == b and type(a) is type(b)))
                if isinstance(op, ast.IsNot):
                    return ast.Constant(not (a is b or (a == b and type(a) is type(b))))
                if isinstance(op, ast.Lt):
                    return ast.Constant(a < b)
                if isinstance(op, ast.LtE):
                    return ast.Constant(a <= b)
                if isinstance(op, ast.Gt):
                    return ast.Constant(a > b)
                if isinstance(op, ast.GtE):
                    return ast.Constant(a >= b)
            except TypeError:
                return node
        return node

    def visit_BoolOp(self, node):
        self.generic_visit(node)
        is_and = isinstance(node.op, ast.And)
        vals = []
        for v in node.values:
            if isinstance(v, ast.Constant):
                t = bool(v.value)
                if t == is_and:
                    continue            # neutral element
                return ast.Constant(t)  # absorbing element: the truth value is decided
            vals.append(v)
        if not vals:
            return ast.Constant(is_and)
        if len(vals) == 1:
            return vals[0]
        return ast.BoolOp(node.op, vals)

    def visit_IfExp(self, node):
        self.generic_visit(node)
        if isinstance(node.test, ast.Constant):
            return node.body if node.test.value else node.orelse
        return node


def residual(expr, env, flag, mode):
    """normalised text of expr with loop-bound integers / the flag substituted and constant conditions folded (truth-value
    preserving, not value preserving: `x and False` becomes False)"""
    e = _PE(env, flag, mode).visit(copy.deepcopy(expr))
    ast.fix_missing_locations(e)
    return norm(ast.unparse(e))


def flag_tainted(fn, flag, before, through_loops=True, control=True):
    """names assigned before statement `before` whose value may depend on the flag (assigned from an expression mentioning it or
    a tainted name, or assigned / mutated under a condition mentioning it)"""
    idx, order = preorder(fn)
    par = stmt_parents(fn)
    stmts = order[:idx[id(before)]]
    tainted = {flag}
    changed = True

    def mentions(e):
        return any(isinstance(x, ast.Name) and x.id in tainted for x in ast.walk(e))

    def cond_tainted(st):
        p = par.get(id(st))
        while p is not None and p[0] is not None:
            if isinstance(p[0], (ast.If, ast.While)) and mentions(p[0].test):
                return True
            p = par.get(id(p[0]))
        return False
    while changed:
        changed = False
        for st in stmts:
            names = set()
            dep = False
            if isinstance(st, ast.Assign):
                for t in st.targets:
                    names |= {x.id for x in ast.walk(t) if isinstance(x, ast.Name) and isinstance(x.ctx, ast.Store)}
                dep = mentions(st.value)
            elif isinstance(st, ast.AugAssign) and isinstance(st.target, ast.Name):
                names = {st.target.id}
                dep = mentions(st.value)
            elif isinstance(st, ast.Expr) and isinstance(st.value, ast.Call) and isinstance(st.value.func, ast.Attribute) \
                    and isinstance(st.value.func.value, ast.Name):
                names = {st.value.func.value.id}
                dep = mentions(st.value)
            elif isinstance(st, (ast.For, ast.AsyncFor)) and through_loops:
                names = {x.id for x in ast.walk(st.target) if isinstance(x, ast.Name)}
                dep = mentions(st.iter)
            if names and (dep or (control and cond_tainted(st))) and not names <= tainted:
                tainted |= names
                changed = True
    return tainted - {flag}
