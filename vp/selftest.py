"""Thorough tier: checker self-test.

Applies (a) every seeded change under /verif/seeded/*/patch.diff whose meta.json lists this property and (b) the
built-in variants of vp.variants to scratch copies of the *current* /repo sources (under $TMPDIR, outside /repo
and /verif, removed afterwards), runs the property's rules on the copy and compares with the expectation: the
rule must fire and name the construct (exit 1) for breaking variants, and stay silent (exit 0) for
behaviour-preserving twins.  C variants are re-parsed by clang, so they are known to compile.  A variant whose
anchor text no longer exists in the current tree is reported as skipped."""
from __future__ import annotations

import glob
import json
import os
import shutil
import subprocess
import tempfile
from concurrent.futures import ThreadPoolExecutor

from . import core


def _scratch():
    d = tempfile.mkdtemp(prefix="vp-selftest-")
    for rel in ("c", "python/digital_rf", "python/lib"):
        shutil.copytree(os.path.join(core.REPO, rel), os.path.join(d, rel))
    return d


def _one(prop, name, patch, expect, variant):
    d = _scratch()
    try:
        if patch:
            p = subprocess.run(["patch", "-p1", "-s", "-d", d, "-i", patch], stdout=subprocess.PIPE, stderr=subprocess.PIPE)
            if p.returncode != 0:
                return {"name": name, "result": "skipped: patch does not apply to the current tree"}
        else:
            from .variants import Skip
            try:
                variant["apply"](d)
            except Skip as e:
                return {"name": name, "result": "skipped: %s" % e}
        env = dict(os.environ, VP_REPO=d, VP_EVIDENCE_DIR=os.path.join(d, "_ev"), VERIF_TIER="quick")
        p = subprocess.run(["/venv/bin/python", "-B", "-m", "vp.main", prop, "--tier", "quick", "--repo", d,
                            "--evidence-dir", os.path.join(d, "_ev")], cwd=core.VERIF, env=env, stdout=subprocess.PIPE,
                           stderr=subprocess.STDOUT)
        out = p.stdout.decode("utf-8", "replace")
        fired = sorted({l.split("[")[1].split("]")[0] for l in out.splitlines() if l.strip().startswith("violation:") and "[" in l})
        got = {0: "silent", 1: "violation", 2: "analysis-error"}.get(p.returncode, "exit %d" % p.returncode)
        ok = got == expect
        want_rules = (variant or {}).get("rules") or []
        mine = [r for r in want_rules if r.startswith(prop + ".")]
        if ok and expect == "violation" and mine and not any(r in fired for r in mine):
            ok = False
        res = {"name": name, "expected": expect, "got": got, "rules_fired": fired, "ok": ok}
        if not ok and got == "analysis-error":
            res["detail"] = [l for l in out.splitlines() if "ANALYSIS-ERROR" in l][:2]
        return res
    finally:
        shutil.rmtree(d, ignore_errors=True)


def clang_analyzer_crossref():
    """Cross-reference (C10 only): run clang's static analyzer (core, unix, deadcode) on the C library from a scratch
    directory and compare its dead-store reports on I/O statuses with what C10.R4 reports/allow-lists.  The hits are only
    compared, never used as a verdict."""
    import re
    d = tempfile.mkdtemp(prefix="vp-clang-sa-")
    try:
        p = subprocess.run(["clang", "--analyze", "-Xanalyzer", "-analyzer-output=text", "-Xanalyzer",
                            "-analyzer-checker=core,unix,deadcode", "-I" + os.path.join(core.REPO, "c/include"),
                            "-I/usr/include/hdf5/serial", os.path.join(core.REPO, "c/lib/rf_write_hdf5.c")],
                           cwd=d, stdout=subprocess.PIPE, stderr=subprocess.STDOUT, timeout=300)
        out = p.stdout.decode("utf-8", "replace")
    finally:
        shutil.rmtree(d, ignore_errors=True)
    hits = []
    for l in out.splitlines():
        m = re.match(r".*?:(\d+):\d+: warning: (.*) \[(.*)\]", l)
        if m and "insecureAPI" not in m.group(3):
            hits.append({"line": int(m.group(1)), "message": m.group(2), "checker": m.group(3)})
    from .props import c10
    r4 = c10.r4_no_lost_status()
    known = " ".join(a["construct"] for a in r4.allow) + " ".join(f.construct for f in r4.findings)
    from . import cfront
    tu = cfront.lib()
    res = []
    for h in hits:
        fn = None
        for name, f in tu.functions.items():
            if f.line is not None and f.line <= h["line"] <= tu.line_of(f.src_end):
                fn = name
        covered = fn is not None and fn in known if "status" in h["message"] else None
        res.append(dict(h, function=fn, reported_or_allowlisted_by_C10_R4=covered))
    return res


def run(prop):
    info = {"variants": [], "failed": []}
    if prop == "C10":
        try:
            info["clang_analyzer_crossref"] = clang_analyzer_crossref()
            for h in info["clang_analyzer_crossref"]:
                print("   clang --analyze: line %s %s [%s] in %s -> covered by C10.R4: %s" % (
                    h["line"], h["message"], h["checker"], h["function"], h["reported_or_allowlisted_by_C10_R4"]))
                if h["reported_or_allowlisted_by_C10_R4"] is False:
                    info["failed"].append("clang analyzer reports a dead I/O status store that C10.R4 neither reports nor "
                                          "allow-lists: line %s" % h["line"])
        except Exception as e:  # the cross-reference is optional
            info["clang_analyzer_crossref"] = "not available: %s" % e
    todo = []
    for mp in sorted(glob.glob(os.path.join(core.VERIF, "seeded", "*", "meta.json"))):
        with open(mp) as f:
            meta = json.load(f)
        exp = meta.get("expect", {})
        if prop in exp:
            todo.append(("seeded:" + meta.get("id", os.path.basename(os.path.dirname(mp))),
                         os.path.join(os.path.dirname(mp), "patch.diff"), exp[prop], None))
    # behaviour-preserving refactorings written by independent sub-agents (twins/<ID>/patch.diff): must stay silent
    import importlib
    files = set(getattr(importlib.import_module("vp.props." + prop.lower()), "FILES", []))
    for tp in sorted(glob.glob(os.path.join(core.VERIF, "twins", "*", "patch.diff"))):
        with open(tp) as f:
            touched = {l[6:].strip() for l in f if l.startswith("+++ b/")}
        if touched & files or not files:
            todo.append(("twin:" + os.path.basename(os.path.dirname(tp)), tp, "silent", None))
    from . import variants
    for v in variants.for_property(prop):
        todo.append(("builtin:" + v["name"], None, v.get("expect", "violation"), v))

    def _fmt(d):
        # mechanical re-formatting of every source file (bin/format-twin): layout, comments and quoting change, behaviour does not
        p = subprocess.run([os.path.join(core.VERIF, "bin", "format-twin"), d], stdout=subprocess.PIPE, stderr=subprocess.STDOUT)
        if p.returncode != 0:
            raise variants.Skip("bin/format-twin failed: %s" % p.stdout.decode("utf-8", "replace")[:200])
    todo.append(("twin:FMT", None, "silent", {"apply": _fmt, "rules": []}))

    def _rn(d):
        # every local variable of every Python and C function renamed (bin/rename-twin): same object code, same behaviour
        p = subprocess.run([os.path.join(core.VERIF, "bin", "rename-twin"), d, "_rn", "--params"], stdout=subprocess.PIPE, stderr=subprocess.STDOUT)
        if p.returncode != 0:
            raise variants.Skip("bin/rename-twin failed: %s" % p.stdout.decode("utf-8", "replace")[-200:])
        # and every private Python function / method that can be renamed safely, with all its references (bin/rename-private-twin)
        p = subprocess.run([os.path.join(core.VERIF, "bin", "rename-private-twin"), d], stdout=subprocess.PIPE, stderr=subprocess.STDOUT)
        if p.returncode != 0:
            raise variants.Skip("bin/rename-private-twin failed: %s" % p.stdout.decode("utf-8", "replace")[-200:])
    todo.append(("twin:RN", None, "silent", {"apply": _rn, "rules": []}))

    def _ifs(d):
        # every Python if/else swapped under a negated test, `if a and b:` nested, conditional expressions swapped (bin/ifswap-twin)
        p = subprocess.run([os.path.join(core.VERIF, "bin", "ifswap-twin"), d], stdout=subprocess.PIPE, stderr=subprocess.STDOUT)
        if p.returncode != 0:
            raise variants.Skip("bin/ifswap-twin failed: %s" % p.stdout.decode("utf-8", "replace")[-200:])
        # and the same for the if/else statements of the C library (bin/cifswap-twin)
        p = subprocess.run([os.path.join(core.VERIF, "bin", "cifswap-twin"), d], stdout=subprocess.PIPE, stderr=subprocess.STDOUT)
        if p.returncode != 0:
            raise variants.Skip("bin/cifswap-twin failed: %s" % p.stdout.decode("utf-8", "replace")[-200:])
    todo.append(("twin:IFS", None, "silent", {"apply": _ifs, "rules": []}))

    def _grd(d):
        # guard-clause style: `else` after a jump dropped (Python and both C files), trailing `if c: A` turned into `if not c: return` + A
        p = subprocess.run([os.path.join(core.VERIF, "bin", "guard-twin"), d], stdout=subprocess.PIPE, stderr=subprocess.STDOUT)
        if p.returncode != 0:
            raise variants.Skip("bin/guard-twin failed: %s" % p.stdout.decode("utf-8", "replace")[-200:])
    todo.append(("twin:GRD", None, "silent", {"apply": _grd, "rules": []}))

    def _trn(d):
        # `if (c) X = a; else X = b;` / `if (c) return a; else return b;` of both C files written as conditional expressions
        p = subprocess.run([os.path.join(core.VERIF, "bin", "cternary-twin"), d], stdout=subprocess.PIPE, stderr=subprocess.STDOUT)
        if p.returncode != 0:
            raise variants.Skip("bin/cternary-twin failed: %s" % p.stdout.decode("utf-8", "replace")[-200:])
    todo.append(("twin:TRN", None, "silent", {"apply": _trn, "rules": []}))
    with ThreadPoolExecutor(max_workers=int(os.environ.get("VP_JOBS", "16"))) as ex:
        results = list(ex.map(lambda t: _one(prop, *t), todo))
    for res in results:
        info["variants"].append(res)
        if res.get("ok") is False:
            info["failed"].append("%s: expected %s, got %s (rules fired: %s) %s" % (
                res["name"], res.get("expected"), res.get("got"), res.get("rules_fired"), res.get("detail", "")))
    info["n_variants"] = len(results)
    info["n_skipped"] = sum(1 for r in results if str(r.get("result", "")).startswith("skipped"))
    info["n_fired_as_expected"] = sum(1 for r in results if r.get("ok") and r.get("expected") == "violation")
    info["n_silent_twins"] = sum(1 for r in results if r.get("ok") and r.get("expected") == "silent" and not r["name"].startswith("seeded:"))
    info["n_documented_misses"] = sum(1 for r in results if r.get("ok") and r.get("expected") == "silent" and r["name"].startswith("seeded:"))
    print("-- self-test %s: %d variants, %d fired as expected, %d silent twins, %d documented misses (seeded, value-level), %d skipped, "
          "%d FAILED" % (prop, len(results), info["n_fired_as_expected"], info["n_silent_twins"], info["n_documented_misses"],
                         info["n_skipped"], len(info["failed"])))
    for r in results:
        if str(r.get("result", "")).startswith("skipped"):
            print("   skipped %s (%s)" % (r["name"], r["result"]))
    return info
