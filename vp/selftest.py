"""Thorough tier: checker self-test.  Applies every seeded change under /verif/seeded/*/patch.diff (and the
built-in variants of vp.variants) to a scratch copy of the current /repo sources outside /repo and /verif, runs
the rules of the property on the copy and compares with the recorded expectation (which rule must fire, or that
the change is a documented miss).  The scratch copy is removed afterwards."""
from __future__ import annotations

import glob
import json
import os
import shutil
import subprocess
import tempfile

from . import core


def _scratch():
    d = tempfile.mkdtemp(prefix="vp-selftest-")
    for rel in ("c", "python/digital_rf", "python/lib"):
        shutil.copytree(os.path.join(core.REPO, rel), os.path.join(d, rel))
    return d


def run(prop):
    import importlib
    info = {"variants": [], "failed": []}
    seeded = sorted(glob.glob(os.path.join(core.VERIF, "seeded", "*", "meta.json")))
    try:
        from . import variants
        builtin = variants.for_property(prop)
    except ImportError:
        builtin = []
    todo = []
    for mp in seeded:
        with open(mp) as f:
            meta = json.load(f)
        if prop in meta.get("checked_by", [meta.get("property")]):
            todo.append(("seeded:" + os.path.basename(os.path.dirname(mp)), os.path.join(os.path.dirname(mp), "patch.diff"),
                         meta.get("expect", {}).get(prop, meta.get("expect_default", "violation")), None))
    for v in builtin:
        todo.append(("builtin:" + v["name"], None, v.get("expect", "violation"), v))
    for name, patch, expect, v in todo:
        d = _scratch()
        try:
            if patch:
                p = subprocess.run(["git", "apply", "--unsafe-paths", "--directory=" + d, patch], cwd="/", stdout=subprocess.PIPE,
                                   stderr=subprocess.PIPE)
                if p.returncode != 0:
                    p = subprocess.run(["patch", "-p1", "-d", d, "-i", patch], stdout=subprocess.PIPE, stderr=subprocess.PIPE)
                if p.returncode != 0:
                    info["variants"].append({"name": name, "result": "patch does not apply to the current tree (skipped)"})
                    continue
            else:
                v["apply"](d)
            env = dict(os.environ, VP_REPO=d, VP_EVIDENCE_DIR=os.path.join(d, "_ev"))
            p = subprocess.run(["/venv/bin/python", "-B", "-m", "vp.main", prop, "--tier", "quick", "--repo", d,
                                "--evidence-dir", os.path.join(d, "_ev")], cwd=core.VERIF, env=env, stdout=subprocess.PIPE,
                               stderr=subprocess.STDOUT)
            out = p.stdout.decode("utf-8", "replace")
            fired = sorted({l.split("[")[1].split("]")[0] for l in out.splitlines() if l.strip().startswith("violation:") and "[" in l})
            got = {0: "silent", 1: "violation", 2: "analysis-error"}.get(p.returncode, "exit %d" % p.returncode)
            ok = (got == expect) or (isinstance(expect, list) and got in expect)
            info["variants"].append({"name": name, "expected": expect, "got": got, "rules_fired": fired})
            if not ok:
                info["failed"].append("%s: expected %s, got %s (rules fired: %s)" % (name, expect, got, fired))
        finally:
            shutil.rmtree(d, ignore_errors=True)
    info["n_variants"] = len(info["variants"])
    return info
