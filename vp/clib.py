"""Shared analyses over the C library / extension translation units:
stores, effects, string provenance, handle typestate, status usage, slices."""
from __future__ import annotations

from .core import AnalysisError, norm
from . import cfg as _cfg

OBJ = "hdf5_data_object"

# file-system / HDF5 calls that create, open, rename or delete files
FS_CALLS = {"fopen", "freopen", "open", "openat", "creat", "H5Fcreate", "H5Fopen", "H5Freopen", "mkdir", "_mkdir",
            "rename", "renameat", "remove", "unlink", "unlinkat", "rmdir", "truncate", "ftruncate", "link", "symlink",
            "mkstemp", "tmpfile", "H5Fflush"}
# persistent effects (C05 / C11)
EFFECT_CALLS = {"H5Fcreate", "H5Dcreate2", "H5Dwrite", "H5Dset_extent", "H5Acreate2", "H5Awrite", "mkdir", "_mkdir",
                "rename", "remove", "unlink", "H5Gcreate2", "H5Ldelete", "fopen", "open", "creat"}
CURSOR_FIELDS = {"global_index", "dataset_index", "dataset_avail", "block_index", "next_index_avail", "present_seq",
                 "sub_directory", "basename", "last_utc_timestamp"}
CONFIG_FIELDS = {"global_start_sample", "sample_rate_numerator", "sample_rate_denominator", "subdir_cadence_secs",
                 "file_cadence_millisecs"}
ENV_PROBES = {"access", "stat", "digital_rf_check_hdf5_directory", "gmtime", "time", "malloc", "H5Tget_size",
              "H5Tget_class", "H5Tget_order", "H5Tget_sign"}


# ---------------------------------------------------------------------------
# stores
# ---------------------------------------------------------------------------

def stores(fn):
    """All stores in fn: list of (path, node, rhs_or_None, kind) where kind in '=', 'op=', '++', 'call-out'."""
    out = []
    for n in fn.walk():
        if n.kind == "BinaryOperator" and n.opcode == "=":
            out.append((n.children[0].path(), n, n.children[1], "="))
        elif n.kind == "CompoundAssignOperator":
            out.append((n.children[0].path(), n, n.children[1], n.opcode))
        elif n.kind == "UnaryOperator" and n.opcode in ("++", "--"):
            out.append((n.children[0].path(), n, None, n.opcode))
        elif n.kind == "CallExpr" and n.callee in ("strcpy", "strcat", "snprintf", "sprintf", "memcpy", "strncpy"):
            if n.args:
                out.append((n.args[0].path(), n, n.args[1] if len(n.args) > 1 else None, "call:" + n.callee))
    return out


def field_stores(tu, field):
    """(function name, node, rhs, kind) for every store to <obj>-><field> in the TU (any object variable)."""
    res = []
    for fname, fn in tu.functions.items():
        for path, node, rhs, kind in stores(fn):
            if path and (path.endswith("->" + field) or path.endswith("." + field)):
                res.append((fname, node, rhs, kind))
    return res


def field_reads(fn, field):
    out = []
    for n in fn.walk():
        if n.kind == "MemberExpr" and n.name == field:
            out.append(n)
    return out


# ---------------------------------------------------------------------------
# call graph / effects
# ---------------------------------------------------------------------------

def call_graph(tu):
    g = {}
    for fname, fn in tu.functions.items():
        g[fname] = [(c.callee, c) for c in fn.calls() if c.callee]
    return g


def check_acyclic(tu):
    g = call_graph(tu)
    state = {}

    def visit(f, stack):
        if state.get(f) == 2:
            return
        if state.get(f) == 1:
            raise AnalysisError("recursion in the C call graph through %s (summaries assume an acyclic call tree)" % f)
        state[f] = 1
        for callee, _ in g.get(f, []):
            if callee in tu.functions:
                visit(callee, stack + [f])
        state[f] = 2

    for f in tu.functions:
        visit(f, [])


def direct_effects(fn, allow_nodes=()):
    """Effect nodes directly in fn: EFFECT calls and stores to cursor fields."""
    eff = []
    for c in fn.calls():
        if c.callee in EFFECT_CALLS:
            eff.append(("call " + c.callee, c))
    for path, node, rhs, kind in stores(fn):
        if path and "->" in path:
            f = path.split("->")[-1]
            if f in CURSOR_FIELDS and path.startswith(OBJ):
                eff.append(("store " + f, node))
    return eff


def may_effect(tu):
    """fname -> True if the function or any transitive callee in the TU has a persistent effect."""
    check_acyclic(tu)
    g = call_graph(tu)
    memo = {}

    def visit(f):
        if f in memo:
            return memo[f]
        memo[f] = False
        r = bool(direct_effects(tu.functions[f]))
        for callee, _ in g[f]:
            if callee in tu.functions and visit(callee):
                r = True
        memo[f] = r
        return r

    for f in tu.functions:
        visit(f)
    return memo


def callers(tu, name):
    out = []
    for fname, fn in tu.functions.items():
        for c in fn.calls((name,)):
            out.append((fname, c))
    return out


# ---------------------------------------------------------------------------
# string provenance
# ---------------------------------------------------------------------------

class Piece(object):
    """lit | fmt | field | param | suffix(piece, needle) | unknown"""

    def __init__(self, kind, val=None, sub=None, node=None):
        self.kind = kind
        self.val = val
        self.sub = sub
        self.node = node

    def __repr__(self):
        if self.kind == "suffix":
            return "strstr(%r,%r)" % (self.sub, self.val)
        return "%s:%s" % (self.kind, self.val)

    def key(self):
        if self.kind == "suffix":
            return ("suffix", self.sub.key(), self.val)
        return (self.kind, self.val)


def _piece(expr):
    s = expr.strip(casts=True)
    if s.kind == "StringLiteral":
        return Piece("lit", s.strval(), node=s)
    if s.kind == "CallExpr" and s.callee == "strstr":
        needle = s.args[1].strval()
        return Piece("suffix", needle, _piece(s.args[0]), node=s)
    p = s.path()
    if p is None:
        return Piece("unknown", s.nsrc, node=s)
    if "->" in p:
        return Piece("field", p.split("->")[-1], node=s)
    # a file-scope constant string (`static const char NAME[] = "..."`) stands for its text
    gv = getattr(getattr(s, "tu", None), "vars", {}).get(p)
    if gv is not None and "const" in (gv.type or "") and gv.children:
        iv = gv.children[-1].strip(casts=True)
        if iv.kind == "StringLiteral":
            return Piece("lit", iv.strval(), node=s)
    return Piece("var", p, node=s)


def build_string(fn, var, before=None):
    """Pieces composing char buffer `var` (a local array or parameter name) at node `before` in fn, from the
    strcpy/strcat/snprintf calls on it in source order.  The calls must be in straight-line code of the
    function's top-level block (the idiom the library uses); anything else is an analysis error."""
    body = [c for c in fn.children if c.kind == "CompoundStmt"][0]
    pieces = []
    seen_any = False
    # initialiser
    for d in fn.find("VarDecl"):
        if d.name == var and d.children:
            iv = d.children[-1].strip(casts=True)
            if iv.kind == "StringLiteral":
                pieces = [Piece("lit", iv.strval(), node=iv)] if iv.strval() else []
    tu = fn.tu
    prims = ("strcpy", "strcat", "snprintf", "sprintf", "strncpy", "strncat")
    # statements jumped over by a top-level `if (<constant true>) goto L;` (an inlined helper's early return whose condition
    # became constant, e.g. `if (NULL == NULL)`): the calls between the `if` and the label L are not executed
    skipped = []
    tops = body.children
    for i, st_ in enumerate(tops):
        if st_.kind != "IfStmt" or len(st_.children) != 2:
            continue
        cnd = st_.children[0].strip()
        val = None
        if cnd.kind == "BinaryOperator" and cnd.opcode in ("==", "!="):
            a_, b_ = cnd.children[0].intval(), cnd.children[1].intval()
            if a_ is not None and b_ is not None:
                val = (a_ == b_) if cnd.opcode == "==" else (a_ != b_)
        thn = st_.children[1]
        gt = thn if thn.kind == "GotoStmt" else (thn.children[0] if thn.kind == "CompoundStmt" and len(thn.children) == 1 and thn.children[0].kind == "GotoStmt" else None)
        if val and gt is not None:
            lname = gt.nsrc.replace("goto", "").strip(" ;")
            for later in tops[i + 1:]:
                if later.kind == "LabelStmt" and (getattr(later, "name", None) == lname or later.nsrc.startswith(lname + ":")):
                    skipped.append((st_.end, later.begin))
                    break
    for c in fn.calls():
        if before is not None and c.begin >= before.begin:
            continue
        if any(lo <= c.begin < hi for lo, hi in skipped):
            continue
        if c.callee not in prims:
            # a library helper that builds (part of) the buffer passed to it: inline its straight-line building
            if c.callee in tu.functions and any(a.path() == var for a in c.args):
                callee = tu.functions[c.callee]
                ps = [p for p in callee.children if p.kind == "ParmVarDecl"]
                idx = [i for i, a in enumerate(c.args) if a.path() == var][0]
                if idx >= len(ps) or ps[idx].type.replace("const ", "").strip() != "char *" or "const" in ps[idx].type:
                    continue
                # an early `if (p == NULL) return;` on a parameter that is NULL at this call ends the building there
                cut = None
                null_ps = {ps[i].name for i in range(min(len(ps), len(c.args))) if c.args[i].intval() == 0
                           and "*" in (ps[i].type or "")}
                cbody = [x for x in callee.children if x.kind == "CompoundStmt"]
                for st_ in (cbody[0].children if cbody else []):
                    if st_.kind == "IfStmt" and len(st_.children) >= 2:
                        cnd = st_.children[0].strip()
                        tested = None
                        if cnd.kind == "BinaryOperator" and cnd.opcode == "==" and cnd.children[1].intval() == 0:
                            tested = cnd.children[0].path()
                        elif cnd.kind == "UnaryOperator" and cnd.opcode == "!":
                            tested = cnd.children[0].path()
                        thn = st_.children[1]
                        returns = thn.kind == "ReturnStmt" or (thn.kind == "CompoundStmt" and len(thn.children) == 1 and thn.children[0].kind == "ReturnStmt")
                        if tested in null_ps and returns and len(st_.children) == 2:
                            cut = st_
                            break
                sub, sub_seen = build_string(callee, ps[idx].name, before=cut)
                if not sub_seen:
                    continue        # the callee only reads the buffer
                if c.parent is not body:
                    raise AnalysisError("%s: path buffer %s is passed to %s() under control flow at line %s" % (
                        fn.name, var, c.callee, c.line))
                seen_any = True
                binding = {ps[i].name: c.args[i] for i in range(min(len(ps), len(c.args)))}
                first_is_copy = any(x.callee in ("strcpy", "strncpy", "snprintf", "sprintf") and x.args and x.args[0].path() == ps[idx].name
                                    for x in callee.calls(prims))
                mapped = []
                for pc in sub:
                    if pc.kind == "var" and pc.val in binding:
                        mapped.append(_piece(binding[pc.val]))
                    else:
                        mapped.append(pc)
                pieces = mapped if first_is_copy else pieces + mapped
            continue
        if not c.args or c.args[0].path() != var:
            continue
        # must be a direct child statement of the top-level block
        if c.parent is not body:
            raise AnalysisError("%s: path buffer %s is built under control flow at line %s (strprov models "
                                "straight-line building only)" % (fn.name, var, c.line))
        seen_any = True
        if c.callee in ("strcpy", "strncpy"):
            pieces = [_piece(c.args[1])]
        elif c.callee in ("strcat", "strncat"):
            pieces = pieces + [_piece(c.args[1])]
        else:
            fi = 2 if c.callee == "snprintf" else 1
            fmt = c.args[fi].strval()
            # a format made of plain %s conversions and literal text is the concatenation of its arguments and that text
            import re as _re
            parts = _re.split(r"(%s)", fmt) if fmt is not None else None
            rest = c.args[fi + 1:]
            if parts is not None and "%" not in "".join(x for x in parts if x != "%s") and parts.count("%s") == len(rest) and rest:
                out, k_ = [], 0
                for x in parts:
                    if x == "%s":
                        out.append(_piece(rest[k_]))
                        k_ += 1
                    elif x:
                        out.append(Piece("lit", x, node=c))
                pieces = out
            else:
                pieces = [Piece("fmt", fmt, node=c)]
    return pieces, seen_any


def param_index(fn, name):
    ps = [c for c in fn.children if c.kind == "ParmVarDecl"]
    for i, p in enumerate(ps):
        if p.name == name:
            return i
    return None


def origins(tu, fname, var, depth=0, seen=None):
    """Set of Piece (lit / fmt / unknown) that buffer `var` of function fname may hold, following parameters to
    call sites and output arguments into callees."""
    seen = seen if seen is not None else set()
    key = (fname, var)
    if key in seen or depth > 8:
        return []
    seen.add(key)
    fn = tu.fn(fname)
    out = []
    pi = param_index(fn, var)
    wrote_here = False
    # writes in this function
    for c in fn.calls():
        if c.callee in ("strcpy", "strncpy", "strcat") and c.args and c.args[0].path() == var:
            wrote_here = True
            p = _piece(c.args[1])
            out.extend(resolve_piece(tu, fname, p, depth + 1, seen))
        elif c.callee in ("snprintf", "sprintf") and c.args and c.args[0].path() == var:
            wrote_here = True
            fmt = c.args[2 if c.callee == "snprintf" else 1].strval()
            out.append(Piece("fmt", fmt, node=c))
        elif c.callee in tu.functions:
            for i, a in enumerate(c.args):
                if a.path() == var:
                    callee = tu.functions[c.callee]
                    ps = [p for p in callee.children if p.kind == "ParmVarDecl"]
                    if i < len(ps) and ps[i].type.replace("const ", "").strip() in ("char *",):
                        sub = origins(tu, c.callee, ps[i].name, depth + 1, seen)
                        # only what the callee itself writes counts (not its other callers)
                        out.extend([p for p in sub if p.kind in ("fmt", "lit", "unknown")])
    if pi is None:
        for d in fn.find("VarDecl"):
            if d.name == var and d.children:
                iv = d.children[-1].strip(casts=True)
                if iv.kind == "StringLiteral":
                    out.append(Piece("lit", iv.strval(), node=iv))
    else:
        if not wrote_here:
            for cf, c in callers(tu, fname):
                if pi < len(c.args):
                    p = _piece(c.args[pi])
                    out.extend(resolve_piece(tu, cf, p, depth + 1, seen))
    return out


def resolve_piece(tu, fname, p, depth=0, seen=None):
    if p.kind in ("lit", "fmt", "unknown"):
        return [p]
    if p.kind == "var":
        return origins(tu, fname, p.val, depth, seen)
    if p.kind == "field":
        return field_origins(tu, p.val, depth, seen)
    if p.kind == "suffix":
        return [Piece("suffix", p.val, q) for q in resolve_piece(tu, fname, p.sub, depth, seen)]
    return [Piece("unknown", repr(p))]


def field_origins(tu, field, depth=0, seen=None):
    out = []
    for fname, node, rhs, kind in field_stores(tu, field):
        if kind in ("call:strcpy", "call:strncpy"):
            out.extend(resolve_piece(tu, fname, _piece(rhs), depth + 1, seen))
        elif kind in ("call:snprintf", "call:sprintf"):
            out.append(Piece("fmt", node.args[2 if node.callee == "snprintf" else 1].strval(), node=node))
        elif kind == "=":
            r = rhs.strip(casts=True)
            if r.kind == "CallExpr" and r.callee == "malloc":
                continue
            if r.intval() == 0 or r.nsrc == "NULL" or r.kind == "ParenExpr":
                # NULL initialisation
                continue
            if r.kind == "BinaryOperator" and r.opcode == "=":
                continue
            out.append(Piece("unknown", "%s = %s in %s" % (field, rhs.nsrc, fname), node=node))
        else:
            out.append(Piece("unknown", "%s %s in %s" % (field, kind, fname), node=node))
    return out


def shape(pieces):
    """Canonical tuple for a composed path: fields by name, literals by text."""
    out = []
    for p in pieces:
        if p.kind == "suffix":
            out.append("strstr(%s,%r)" % (shape([p.sub])[0], p.val))
        elif p.kind == "field":
            out.append("<" + p.val + ">")
        elif p.kind == "var":
            out.append("$" + p.val)
        elif p.kind == "lit":
            out.append(p.val)
        else:
            out.append("?" + str(p.val))
    return tuple(out)


# ---------------------------------------------------------------------------
# handle typestate
# ---------------------------------------------------------------------------

Z, NZ, CLOSED, TOP, INVALID = "ZERO", "NONZERO", "CLOSED", "ANY", "INVALID"
CLOSERS = {"H5Fclose": "hdf5_file", "H5Dclose": None, "H5Sclose": None, "H5Pclose": None}


def _join_val(a, b):
    if a == b:
        return a
    return TOP


_HS_MEMO = {}


def handle_states(fn, fields, obj=OBJ, init=None, alias=None, depth=0):
    """Forward typestate over the CFG of fn for the given handle fields of `obj`.

    Values: ZERO (no handle), NONZERO (open handle), CLOSED (its H5?close was called, field not yet
    zeroed), INVALID (a failed create: `f < 0` was true), ANY.  Returns (cfg, IN, events) where events
    lists ('zeroed-without-close', node, field, state) computed at the fixpoint.

    Calls of other functions of the translation unit that can touch the handles are followed (context-sensitive: the callee is
    analysed from the caller's current state, depth <= 3): a handle passed by address (`helper(obj, &obj->dataset)`) is known in
    the callee as `*<parameter>`; the caller continues from the join of the callee's states at its returns."""
    g = _cfg.build_c(fn)
    fields = tuple(fields)
    alias = dict(alias or {})
    tu = fn.tu

    def field_of(e):
        p = e.path() if e is not None else None
        if p in alias:
            return alias[p]
        if p and p.startswith(obj + "->"):
            f = p[len(obj) + 2:]
            if f in fields:
                return f
        return None

    def touches(callee, seen=()):
        """can `callee` (transitively) close or store one of the handle fields?"""
        key = ("touch", callee.name)
        if key in _HS_MEMO:
            return _HS_MEMO[key]
        res = False
        for n in callee.walk():
            if n.kind == "CallExpr" and n.callee in CLOSERS:
                res = True
            elif n.kind == "BinaryOperator" and n.opcode == "=":
                p = n.children[0].path() or ""
                if p.startswith("*") or any(p == obj + "->" + f for f in fields):
                    res = True
            elif n.kind == "CallExpr" and n.callee in tu.functions and n.callee not in seen and n.callee != callee.name:
                if touches(tu.functions[n.callee], seen + (callee.name,)):
                    res = True
        _HS_MEMO[key] = res
        return res

    def call_effect(n, st, events):
        callee = tu.functions.get(n.callee)
        if callee is None or depth >= 3 or callee.name == fn.name or not touches(callee):
            return st
        ps = [p.name for p in callee.children if p.kind == "ParmVarDecl"]
        al = {}
        for pn, a in zip(ps, n.args):
            t = a.strip(casts=True)
            if t.kind == "UnaryOperator" and t.opcode == "&":
                f = field_of(t.children[0])
                if f:
                    al["*" + pn] = f
        g2, IN2, ev2, tr2 = handle_states(callee, fields, obj, init=st, alias=al, depth=depth + 1)
        outs = []
        for x in g2.nodes:
            if x.kind == "return" and x.id in IN2:
                outs.append(tr2(x, IN2[x.id]))
        if g2.exit.id in IN2 and not outs:
            outs.append(IN2[g2.exit.id])
        elif g2.exit.id in IN2:
            # falling off the end of a void function
            preds_fall = [a_ for a_ in g2.nodes if any(b == g2.exit.id for b, _l in g2.succ[a_.id]) and a_.kind != "return" and a_.id in IN2]
            for a_ in preds_fall:
                outs.append(tr2(a_, IN2[a_.id]))
        if events is not None:
            events.extend(ev2)
        if not outs:
            return st
        out = outs[0]
        for o in outs[1:]:
            out = {k: _join_val(out.get(k, TOP), o.get(k, TOP)) for k in set(out) | set(o)}
        return out

    def transfer(node, st, events=None):
        if node.kind not in ("stmt", "return", "cond") or node.ast is None:
            return st
        st = dict(st)
        items = []
        for n in node.ast.walk():
            if n.kind == "CallExpr" and n.callee in CLOSERS:
                items.append((n.begin, "close", n))
            elif n.kind == "CallExpr" and n.callee in tu.functions:
                items.append((n.end, "call", n))
            elif n.kind == "BinaryOperator" and n.opcode == "=":
                items.append((n.end, "assign", n))
        for _, what, n in sorted(items, key=lambda x: x[0]):
            if what == "close":
                f = field_of(n.args[0]) if n.args else None
                if f:
                    st[f] = CLOSED
            elif what == "call":
                st = dict(call_effect(n, st, events))
            else:
                f = field_of(n.children[0])
                if f:
                    v = n.children[1].intval()
                    if v == 0:
                        if st.get(f, TOP) in (NZ, TOP) and events is not None:
                            events.append(("zeroed-without-close", n, f, st.get(f, TOP)))
                        st[f] = Z
                    else:
                        st[f] = TOP if n.children[1].strip(casts=True).kind == "CallExpr" else NZ
        return st

    def edge(node, lab, st):
        if node.kind != "cond" or lab not in ("T", "F") or node.ast is None:
            return st
        e = node.ast.strip()
        if e.kind == "BinaryOperator" and e.opcode in ("<", ">=") and e.children[1].intval() == 0:
            f = field_of(e.children[0])
            if f:
                st = dict(st)
                failed = lab == ("T" if e.opcode == "<" else "F")      # `f < 0` true, or `f >= 0` false: the create failed
                st[f] = INVALID if failed else (NZ if st.get(f, TOP) == TOP else st.get(f))
            return st
        f = None
        truth_nonzero = None
        if e.kind == "BinaryOperator" and e.opcode in ("!=", "==") and e.children[1].intval() == 0:
            f = field_of(e.children[0])
            truth_nonzero = e.opcode == "!="
        else:
            f = field_of(e)
            truth_nonzero = True
        if f:
            st = dict(st)
            nz = truth_nonzero if lab == "T" else not truth_nonzero
            cur = st.get(f, TOP)
            if nz:
                if cur == Z:
                    return None  # infeasible
                if cur == TOP:
                    st[f] = NZ
            else:
                if cur == NZ:
                    return None
                if cur == TOP:
                    st[f] = Z
        return st

    def join(a, b):
        out = {}
        for k in set(a) | set(b):
            out[k] = _join_val(a.get(k, TOP), b.get(k, TOP))
        return out

    # a handle whose address is stored (a table of pointers to the handles, a local alias) can be closed or set through that
    # pointer: the typestate below would not see it - not decided rather than "still open"
    for n in fn.walk():
        if n.kind == "UnaryOperator" and n.opcode == "&" and n.children and field_of(n.children[0]):
            par = n.parent
            while par is not None and par.kind in ("ParenExpr", "ImplicitCastExpr", "CStyleCastExpr"):
                par = par.parent
            if par is not None and par.kind == "UnaryOperator" and par.opcode == "*":
                continue        # `*&obj->field` (a helper's `*parameter` after inlining) is the field itself
            if not (par is not None and par.kind == "CallExpr"):
                raise AnalysisError("%s: the address of handle `%s` is stored (line %s): closes and stores through the pointer are not "
                                    "followed by the typestate analysis" % (fn.name, field_of(n.children[0]), n.line))
    init = dict(init) if init is not None else {f: TOP for f in fields}
    IN = g.solve(init, transfer, join, edge)
    events = []
    for nid, st in IN.items():
        transfer(g.nodes[nid], st, events)
    uniq = {}
    for ev in events:
        uniq[(ev[0], ev[1].begin, ev[2])] = ev
    return g, IN, sorted(uniq.values(), key=lambda e: e[1].begin), transfer


# ---------------------------------------------------------------------------
# status usage of I/O calls
# ---------------------------------------------------------------------------

def status_usage(call):
    """How the result of `call` is used: 'tested' (in a condition), 'returned', 'assigned:<var>', 'discarded',
    'argument', 'stored:<path>'."""
    n = call
    p = n.parent
    while p is not None and p.kind in ("ImplicitCastExpr", "ParenExpr", "CStyleCastExpr"):
        n, p = p, p.parent
    if p is None:
        return "discarded"
    k = p.kind
    if k == "CompoundStmt":
        return "discarded"
    if k in ("IfStmt", "WhileStmt", "ForStmt", "SwitchStmt", "ConditionalOperator"):
        if p.children and p.children[0] is n or (k == "ForStmt" and n in p.children[:4]):
            return "tested"
        return "discarded"  # the call is the (unbraced) body statement
    if k == "ReturnStmt":
        return "returned"
    if k == "BinaryOperator":
        if p.opcode == "=" and p.children[1] is n:
            return "assigned:" + (p.children[0].path() or "?")
        if p.opcode in ("<", ">", "<=", ">=", "==", "!=", "&&", "||"):
            return "tested"
        return "expr"
    if k == "UnaryOperator" and p.opcode == "!":
        return "tested"
    if k == "VarDecl":
        return "assigned:" + p.name
    if k == "CallExpr":
        return "argument"
    if k in ("CaseStmt", "DefaultStmt"):
        return "discarded"
    return "expr:" + k


def _reads(node, var):
    """Does AST `node` read variable / access path `var`?"""
    for x in node.walk():
        if x.kind == "DeclRefExpr" and x.ref == var:
            return True
        if x.kind == "MemberExpr" and "->" in var and x.path() == var:
            return True
    return False


def var_tested_after(fn, g, node_id, var):
    """Is `var` (a variable name or an access path such as obj->field) read in a condition/return on every
    path after CFG node node_id before being overwritten?  Returns (ok, offending path description)."""
    readers = set()
    writers = set()
    for n in g.nodes:
        if n.ast is None or n.id == node_id:
            continue
        if n.kind in ("cond", "return") and _reads(n.ast, var):
            readers.add(n.id)
            continue
        for path, st, rhs, kind in stores(n.ast):
            if path == var:
                # an assignment whose rhs reads var propagates the value, it does not kill it
                if rhs is not None and _reads(rhs, var):
                    readers.add(n.id)
                else:
                    writers.add(n.id)
    bad_targets = writers | {g.exit.id}
    reach = g.reach([node_id], avoid=readers)
    for b in bad_targets:
        if b in reach and b != node_id:
            p = g.path(node_id, b, avoid=readers)
            return False, g.describe(p or [b])
    return True, None


# ---------------------------------------------------------------------------
# reaching definitions / symbolic expansion of local scalars
# ---------------------------------------------------------------------------

def reaching_defs(fn, g, use_node_id, var):
    """Right-hand sides of the assignments to local `var` that can reach CFG node use_node_id (initialisers included)."""
    defs = []
    for n in g.nodes:
        if n.ast is None or n.kind not in ("stmt", "cond"):
            continue
        for path, node, rhs, kind in stores(n.ast):
            if path == var and kind == "=" and rhs is not None:
                defs.append((n.id, rhs))
        if n.ast.kind == "DeclStmt":
            for d in n.ast.children:
                if d.kind == "VarDecl" and d.name == var and d.children and d.children[-1].kind not in ("IntegerLiteral",):
                    defs.append((n.id, d.children[-1]))
    ids = [i for i, _ in defs]
    out = []
    for i, rhs in defs:
        others = [x for x in ids if x != i]
        if use_node_id in g.reach([i], avoid=others) and i != use_node_id:
            out.append(rhs)
    return out


def expand(fn, g, use_node_id, expr, depth=0, keep=()):
    """Set of whitespace-free source texts `expr` can stand for at use_node_id after substituting local scalar variables by
    their reaching definitions (depth-limited)."""
    import re as _re
    txt = _re.sub(r"\s", "", expr.src)
    if depth > 4:
        return {txt}
    # a conditional expression stands for either branch (the condition is not tracked): expand both alternatives, where the
    # text of the whole expression is re-assembled with the chosen branch in place of the `c ? a : b`
    conds = [x for x in expr.walk() if x.kind == "ConditionalOperator"]
    if conds and depth < 3:
        c0 = conds[0]
        ctext = _re.sub(r"\s", "", c0.src)
        if ctext in txt:
            out = set()
            for br in (c0.children[1], c0.children[2]):
                for sub in expand(fn, g, use_node_id, br, depth + 1, keep):
                    alt = txt.replace(ctext, "(" + sub + ")", 1)
                    # remaining names of the surrounding expression are expanded on the text level below
                    out.add(alt)
            res = set()
            for alt in out:
                res |= _expand_text(fn, g, use_node_id, expr, alt, depth, keep)
            return res
    names = []
    for x in expr.walk():
        if x.kind == "DeclRefExpr" and x.refkind == "VarDecl" and x.ref not in names:
            names.append(x.ref)
    results = {txt}
    counters = {p for p, n, rhs, k in stores(fn) if p and k in ("++", "--", "+=", "-=")}
    for v in names:
        if v in counters or v in keep:
            continue  # loop counters (and names the caller wants to keep) stay symbolic
        rds = reaching_defs(fn, g, use_node_id, v)
        if not rds:
            continue
        new = set()
        for t in results:
            for rhs in rds:
                for sub in expand(fn, g, use_node_id, rhs, depth + 1, keep):
                    new.add(_re.sub(r"(?<![A-Za-z0-9_>.])%s(?![A-Za-z0-9_])" % _re.escape(v), "(" + sub + ")", t))
        results = new or results
    return results


def _expand_text(fn, g, use_node_id, expr, txt, depth, keep):
    """the name-substitution step of expand() applied to an already assembled text"""
    import re as _re
    names = []
    for x in expr.walk():
        if x.kind == "DeclRefExpr" and x.refkind == "VarDecl" and x.ref not in names:
            names.append(x.ref)
    results = {txt}
    counters = {p for p, n, rhs, k in stores(fn) if p and k in ("++", "--", "+=", "-=")}
    for v in names:
        if v in counters or v in keep:
            continue
        rds = reaching_defs(fn, g, use_node_id, v)
        if not rds:
            continue
        new = set()
        for t in results:
            if not _re.search(r"(?<![A-Za-z0-9_>.])%s(?![A-Za-z0-9_])" % _re.escape(v), t):
                new.add(t)
                continue
            for rhs in rds:
                for sub in expand(fn, g, use_node_id, rhs, depth + 1, keep):
                    new.add(_re.sub(r"(?<![A-Za-z0-9_>.])%s(?![A-Za-z0-9_])" % _re.escape(v), "(" + sub + ")", t))
        results = new or results
    return results


def node_of(g, ast_node):
    best = None
    for n in g.nodes:
        if n.ast is None or n.kind not in ("stmt", "cond", "return"):
            continue
        if n.ast.begin <= ast_node.begin and ast_node.end <= n.ast.end:
            if best is None or (n.ast.end - n.ast.begin) < (best.ast.end - best.ast.begin):
                best = n
    return best


# ---------------------------------------------------------------------------
# primitive calls seen through small library helpers
# ---------------------------------------------------------------------------

def prim_sites(fn, prims, depth=2):
    """Calls to the primitives `prims` made by fn directly or through library helpers that forward their parameters.
    Returns a list of (primitive name, args, site, helper) in caller source order (helper-internal order preserved):
    args are caller-side CNodes where the helper passes a parameter straight through (possibly behind casts or `*p`/`&x`
    is NOT looked through), else the helper's own node; site is the call node in fn; helper is the helper FunctionDecl or None."""
    tu = fn.tu
    out = []
    for c in sorted(fn.calls(), key=lambda x: x.begin):
        if c.callee in prims:
            out.append((c.callee, list(c.args), c, None))
        elif c.callee in tu.functions and depth > 0 and c.callee != fn.name:
            callee = tu.functions[c.callee]
            inner = prim_sites(callee, prims, depth - 1)
            if not inner:
                continue
            ps = [p.name for p in callee.children if p.kind == "ParmVarDecl"]
            bind = {ps[i]: c.args[i] for i in range(min(len(ps), len(c.args)))}
            for name, args, site, helper in inner:
                mapped = []
                for a in args:
                    s = a.strip(casts=True)
                    if s.kind == "DeclRefExpr" and s.refkind == "ParmVarDecl" and s.ref in bind:
                        mapped.append(bind[s.ref])
                    else:
                        mapped.append(a)
                out.append((name, mapped, c, callee))
    return out


def alias_path(fn, node):
    """path of `node`, seen through a local that is a plain copy of an access path (const hid_t p = obj->field) and is
    never stored again"""
    s = node.strip(casts=True)
    p = s.path()
    if p is None or "->" in p or "[" in p or s.kind != "DeclRefExpr":
        return p
    ds = [d for d in fn.find("VarDecl") if d.name == p and d.children]
    if len(ds) == 1 and not any(path == p for path, n_, rhs, kind in stores(fn)):
        q = ds[0].children[-1].strip(casts=True).path()
        if q and "->" in q:
            return q
    return p


def linform(e):
    """Linear form {leaf path: coefficient, 1: constant} of a C integer expression built from + - and multiplication by
    literals over access paths; None if it is not of that form."""
    s = e.strip(casts=True)
    if s.kind == "IntegerLiteral":
        return {1: s.intval()}
    if s.kind == "UnaryOperator" and s.opcode == "-":
        a = linform(s.children[0])
        return None if a is None else {k: -v for k, v in a.items()}
    if s.kind == "BinaryOperator" and s.opcode in ("+", "-"):
        a, b = linform(s.children[0]), linform(s.children[1])
        if a is None or b is None:
            return None
        out = dict(a)
        for k, v in b.items():
            out[k] = out.get(k, 0) + (v if s.opcode == "+" else -v)
        return {k: v for k, v in out.items() if v != 0}
    if s.kind == "BinaryOperator" and s.opcode == "*":
        a, b = linform(s.children[0]), linform(s.children[1])
        if a is None or b is None:
            return None
        if set(a) <= {1}:
            return {k: v * a.get(1, 0) for k, v in b.items() if v * a.get(1, 0) != 0}
        if set(b) <= {1}:
            return {k: v * b.get(1, 0) for k, v in a.items() if v * b.get(1, 0) != 0}
        return None
    p = s.path()
    if p is not None:
        return {p: 1}
    return None


def nonzero_reach(g, starts, seeds):
    """Nodes reachable from `starts` when the variables in `seeds` are known to be non-zero: plain copies `x = v` of a non-zero
    variable are non-zero too, any other store forgets the fact, and condition nodes that test a known non-zero variable
    (`x`, `x != 0`, `x == 0`) only follow their feasible edge."""
    seen = set()
    work = [(s_, frozenset(seeds)) for s_ in starts]
    out = set()
    while work:
        nid, nz = work.pop()
        if (nid, nz) in seen:
            continue
        seen.add((nid, nz))
        out.add(nid)
        n = g.nodes[nid]
        nz2 = set(nz)
        feasible = None
        if n.ast is not None and n.kind == "stmt":
            for path, node, rhs, kind in stores(n.ast):
                if path is None:
                    continue
                if kind == "=" and rhs is not None and rhs.strip(casts=True).path() in nz2:
                    nz2.add(path)
                elif kind == "=" and rhs is not None and rhs.intval() not in (None, 0):
                    nz2.add(path)
                else:
                    nz2.discard(path)
            for d in ([n.ast] if n.ast.kind == "DeclStmt" else []):
                for v in d.children:
                    if v.kind == "VarDecl" and v.children:
                        iv = v.children[-1].strip(casts=True)
                        if iv.path() in nz2 or (iv.intval() not in (None, 0)):
                            nz2.add(v.name)
                        else:
                            nz2.discard(v.name)
        if n.kind == "cond" and n.ast is not None:
            e = n.ast.strip(casts=True)
            if e.path() in nz2:
                feasible = "T"
            elif e.kind == "BinaryOperator" and e.opcode in ("!=", "==") and e.children[1].intval() == 0 and e.children[0].path() in nz2:
                feasible = "T" if e.opcode == "!=" else "F"
        for b, lab in g.succ[nid]:
            if feasible is not None and lab in ("T", "F") and lab != feasible:
                continue
            work.append((b, frozenset(nz2)))
    return out
