"""Constant folder for module-level string constants (regexes, globs) of the package.

Evaluates: string literals, implicit concatenation, `+`, `str.join` over a tuple/list of foldable
items, `str.replace` with constant arguments, `re.escape(os.sep)` (os.sep = "/"), `re.compile(x)`
(-> the pattern text), names bound at module level (also through `from .list_drf import NAME` and
`list_drf.NAME`).  Anything else -> AnalysisError naming the expression.
"""
from __future__ import annotations

import ast
import re

from .core import AnalysisError
from . import pyfront


class Folder(object):
    def __init__(self, repo=None):
        self.repo = repo
        self.pkg = pyfront.package(repo)
        self.cache = {}
        self.aliases = {}     # (module, reference name) -> actual name of a renamed private constant

    def name(self, module, name):
        key = (module, name)
        if key in self.cache:
            if self.cache[key] is None:
                raise AnalysisError("cyclic constant %s.%s" % key)
            return self.cache[key]
        self.cache[key] = None
        m = self.pkg[module]
        val = m.module_assign(name)
        if val is None:
            # imported from a sibling module?
            for s in m.tree.body:
                if isinstance(s, ast.ImportFrom) and s.level == 1:
                    for a in s.names:
                        if (a.asname or a.name) == name and s.module in self.pkg:
                            r = self.name(s.module, a.name)
                            self.cache[key] = r
                            return r
            # a private compiled matcher asked for by its reference name (_RE_X = re.compile("^" + RE_X)): find the module-level
            # name that holds exactly that pattern, whatever it is called now
            if name.startswith("_RE_") and m.module_assign("RE_" + name[4:]) is not None:
                want = "^" + self.name(module, "RE_" + name[4:]) + ("$" if name == "_RE_SUBDIR" else "")
                for st in m.tree.body:
                    if isinstance(st, ast.Assign) and len(st.targets) == 1 and isinstance(st.targets[0], ast.Name) \
                            and isinstance(st.value, ast.Call):
                        try:
                            v = self.expr(module, st.value)
                        except AnalysisError:
                            continue
                        if v == want:
                            self.cache[key] = v
                            self.aliases[(module, name)] = st.targets[0].id
                            return v
            raise AnalysisError("constant %s not defined at module level of %s" % (name, m.rel))
        r = self.expr(module, val)
        self.cache[key] = r
        return r

    def _with_env(self, module, e, env):
        """fold `e` with some local names bound to already folded values"""
        saved = getattr(self, "_env", None)
        self._env = dict(env)
        try:
            return self.expr(module, e)
        finally:
            self._env = saved

    def expr(self, module, e):
        env = getattr(self, "_env", None)
        if env and isinstance(e, ast.Name) and e.id in env:
            return env[e.id]
        if isinstance(e, ast.BinOp) and isinstance(e.op, ast.Add):
            l_, r_ = self.expr(module, e.left), self.expr(module, e.right)
            if isinstance(l_, (list, tuple)) or isinstance(r_, (list, tuple)):
                return list(l_) + list(r_)
            return l_ + r_
        if isinstance(e, ast.Constant) and isinstance(e.value, str):
            return e.value
        if isinstance(e, ast.Constant) and isinstance(e.value, int):
            return e.value
        if isinstance(e, ast.BinOp) and isinstance(e.op, ast.Add):
            return self.expr(module, e.left) + self.expr(module, e.right)
        if isinstance(e, ast.BinOp) and isinstance(e.op, ast.Mult):
            # "x" * 3, 3 * "x", small integer products
            l_, r_ = self.expr(module, e.left), self.expr(module, e.right)
            if (isinstance(l_, (str, list)) and isinstance(r_, int) and 0 <= r_ <= 64) or (isinstance(r_, (str, list)) and isinstance(l_, int) and 0 <= l_ <= 64) \
                    or (isinstance(l_, int) and isinstance(r_, int)):
                return l_ * r_
            raise AnalysisError("cannot fold constant expression: %s" % ast.unparse(e))
        if isinstance(e, ast.Name):
            return self.name(module, e.id)
        if isinstance(e, ast.Attribute):
            d = pyfront.dotted(e)
            if d == "os.sep":
                return "/"
            if d and d.count(".") == 1:
                mod, nm = d.split(".")
                if mod in self.pkg:
                    return self.name(mod, nm)
        if isinstance(e, ast.BinOp) and isinstance(e.op, ast.Mod):
            # "...%s..." % value / % (v1, v2): printf-style formatting of folded strings and integers
            l_ = self.expr(module, e.left)
            r_ = self.expr(module, e.right)
            if isinstance(l_, str):
                try:
                    return l_ % (tuple(r_) if isinstance(r_, (list, tuple)) else r_)
                except (TypeError, ValueError) as ex:
                    raise AnalysisError("cannot fold %s: %s" % (ast.unparse(e), ex))
        if isinstance(e, ast.JoinedStr):
            out = []
            for v in e.values:
                if isinstance(v, ast.Constant):
                    out.append(str(v.value))
                elif isinstance(v, ast.FormattedValue) and v.conversion == -1 and v.format_spec is None:
                    out.append(str(self.expr(module, v.value)))
                else:
                    raise AnalysisError("cannot fold f-string part: %s" % ast.unparse(e))
            return "".join(out)
        if isinstance(e, ast.Call) and isinstance(e.func, ast.Attribute) and e.func.attr == "format" and not e.keywords \
                and isinstance(e.func.value, (ast.Constant, ast.Name)):
            base = self.expr(module, e.func.value)
            if isinstance(base, str):
                try:
                    return base.format(*[self.expr(module, a) for a in e.args])
                except (IndexError, KeyError, ValueError) as ex:
                    raise AnalysisError("cannot fold %s: %s" % (ast.unparse(e), ex))
        if isinstance(e, (ast.Tuple, ast.List)):
            return [self.expr(module, x) for x in e.elts]
        if isinstance(e, ast.Call):
            d = pyfront.dotted(e.func)
            if d == "re.escape" and len(e.args) == 1:
                return re.escape(self.expr(module, e.args[0]))
            if d == "re.compile" and len(e.args) >= 1:
                if len(e.args) > 1 or e.keywords:
                    raise AnalysisError("re.compile with flags is not supported: %s" % ast.unparse(e))
                return self.expr(module, e.args[0])
            if isinstance(e.func, ast.Attribute) and e.func.attr == "join" and len(e.args) == 1:
                sep = self.expr(module, e.func.value)
                items = self.expr(module, e.args[0])
                return sep.join(items)
            # module-level helper with a single return expression: substitute the arguments
            if isinstance(e.func, ast.Name) and e.func.id in self.pkg[module].functions:
                f = self.pkg[module].functions[e.func.id]
                body = [x for x in f.body if not (isinstance(x, ast.Expr) and isinstance(x.value, ast.Constant))]
                if len(body) == 1 and isinstance(body[0], ast.Return) and body[0].value is not None and not e.keywords:
                    params = [a.arg for a in f.args.args]
                    vals = [self.expr(module, a) for a in e.args]
                    env = dict(zip(params, vals[:len(params)]))
                    if f.args.vararg is not None:
                        env[f.args.vararg.arg] = list(vals[len(params):])
                    elif len(vals) != len(params):
                        raise AnalysisError("cannot fold call %s" % ast.unparse(e))
                    return self._with_env(module, body[0].value, env)
            if isinstance(e.func, ast.Attribute) and e.func.attr == "replace":
                base = self.expr(module, e.func.value)
                args = [self.expr(module, a) for a in e.args]
                return base.replace(*args)
        raise AnalysisError("cannot fold constant expression: %s" % ast.unparse(e))
