"""AST-level inlining of static helper functions of a C translation unit (program normalisation before analysis).

A library refactoring that extracts code into `static` helpers leaves the behaviour unchanged but moves the constructs the
rules reason about (HDF5 calls, field stores, path building) out of the public functions.  `normalise(tu)` rewrites every
non-static function so that calls of static helpers in statement position

    helper(a, b);                         x = helper(a, b);                 T x = helper(a, b);
    return helper(a, b);                  if (helper(a, b)) ... / if (!helper(..)) / if (helper(..) <op> <constant>) ...

are replaced by a copy of the helper's body: parameters are substituted by the (side-effect free) argument expressions,
clashing locals are renamed, `return e;` becomes the corresponding assignment / return / branch (with `goto` to a label after
the inlined block where needed).  Helpers are left as calls when they cannot be inlined soundly: arguments with side effects,
parameters that are assigned or whose address is taken, variadic or recursive helpers, helpers taking `void *` (memory
manipulation, analysed on their own).  Static helpers whose every call was inlined disappear from `tu.functions`.

The result is a tree of FNode (CNode subclass): `begin`/`end` are renumbered so that ordering and containment relations hold
inside the flattened function, while `src`/`line` still refer to the original source text.  Nothing is compiled or executed.
"""
from __future__ import annotations

import itertools

from .cfront import CNode
from .core import AnalysisError

_ids = itertools.count(1)


class FNode(CNode):
    __slots__ = ("_sb", "_se", "_text", "origin", "_tsub", "_dirty")

    def __init__(self, d, tu, parent=None):
        # do not build children from d["inner"]: they are attached explicitly
        self.d = d
        self.kind = d.get("kind")
        self.parent = parent
        self.tu = tu
        self.children = []
        self._b = self._e = -1
        self._sb = self._se = -1
        self._text = None
        self.origin = None
        self._tsub = None     # identifier -> replacement text (parameters substituted by arguments, renamed locals)
        self._dirty = False   # a descendant was replaced: the text is re-assembled from the children

    @property
    def begin(self):
        return self._b

    @property
    def end(self):
        return self._e

    @property
    def line(self):
        return self.tu.line_of(self._sb) if self._sb >= 0 else None

    @property
    def src(self):
        if self._text is not None:
            return self._text
        if self._sb < 0 or self._se < 0:
            return " ".join(c.src for c in self.children)
        if self._dirty:
            # splice the current text of the children into the original text of this node
            kids = sorted([c for c in self.children if isinstance(c, FNode) and c._sb >= self._sb and c._se <= self._se and c._sb >= 0],
                          key=lambda c: c._sb)
            out = []
            pos = self._sb
            for c in kids:
                if c._sb < pos:
                    continue
                seg = self.tu.text[pos:c._sb]
                out.append(self._sub_text(seg))
                out.append(c.src)
                pos = c._se
            out.append(self._sub_text(self.tu.text[pos:self._se]))
            return "".join(out)
        t = self.tu.text[self._sb:self._se]
        return self._sub_text(t)

    def _sub_text(self, t):
        if self._tsub:
            import re
            sub = self._tsub
            t = re.sub(r"(?<![A-Za-z0-9_>.])[A-Za-z_][A-Za-z0-9_]*", lambda m_: sub.get(m_.group(0), m_.group(0)), t)
        return t


def _orig_span(n):
    if isinstance(n, FNode):
        return n._sb, n._se
    return n.begin, n.end


def clone(n, tu, subst=None, rename=None, parent=None, _tsub=None):
    """deep copy of a CNode/FNode tree as FNodes; DeclRefExprs to names in `subst` are replaced by clones of the mapped
    expressions, declarations/references of names in `rename` are renamed"""
    subst = subst or {}
    rename = rename or {}
    if _tsub is None and (subst or rename):
        _tsub = {}
        for k_, a_ in subst.items():
            t_ = a_.src
            _tsub[k_] = t_ if t_.replace("_", "").replace("->", "").replace(".", "").isalnum() else "(" + t_ + ")"
        _tsub.update(rename)
    if n.kind == "DeclRefExpr" and n.ref in subst and n.refkind in ("ParmVarDecl", "VarDecl"):
        c = clone(subst[n.ref], tu, None, None, parent)
        # keep the spelled text of the argument; wrap nothing: analyses strip casts/parens anyway
        return c
    d = {k: v for k, v in n.d.items() if k != "inner"}
    if rename:
        if n.kind in ("VarDecl",) and d.get("name") in rename:
            d["name"] = rename[d["name"]]
        if n.kind == "DeclRefExpr" and n.ref in rename:
            rd = dict(d.get("referencedDecl") or {})
            rd["name"] = rename[n.ref]
            d["referencedDecl"] = rd
    f = FNode(d, tu, parent)
    f._sb, f._se = _orig_span(n)
    if isinstance(n, FNode):
        f._text = n._text
        f.origin = n.origin
        f._tsub = dict(n._tsub) if n._tsub else None
    if _tsub:
        # compose: text of an already substituted node is substituted again
        if f._tsub:
            comp = {k_: v_ for k_, v_ in f._tsub.items()}
            comp.update({k_: v_ for k_, v_ in _tsub.items() if k_ not in comp})
            f._tsub = comp
        else:
            f._tsub = _tsub
    f.children = [clone(c, tu, subst, rename, f, _tsub) for c in n.children]
    return f


def mk(tu, kind, children=(), text=None, like=None, **attrs):
    d = {"kind": kind}
    d.update(attrs)
    f = FNode(d, tu, None)
    f.children = list(children)
    for c in f.children:
        c.parent = f
    f._text = text
    if like is not None:
        f._sb, f._se = _orig_span(like)
        if text is None:
            f._text = None
    return f


def _renumber(root):
    counter = [0]

    def visit(n):
        counter[0] += 1
        n._b = counter[0]
        for c in n.children:
            visit(c)
        counter[0] += 1
        n._e = counter[0]
    visit(root)


def _is_static(fn):
    return fn.d.get("storageClass") == "static"


def _params(fn):
    return [c for c in fn.children if c.kind == "ParmVarDecl"]


def _body(fn):
    b = [c for c in fn.children if c.kind == "CompoundStmt"]
    return b[0] if b else None


def _pure(e):
    """argument expression without side effects (no calls, assignments, ++/--)"""
    for x in e.walk():
        if x.kind in ("CallExpr", "CompoundAssignOperator"):
            return False
        if x.kind == "BinaryOperator" and x.opcode == "=":
            return False
        if x.kind == "UnaryOperator" and x.opcode in ("++", "--"):
            return False
    return True


def _param_modified(fn, name):
    for x in fn.walk():
        if x.kind == "BinaryOperator" and x.opcode == "=" and x.children[0].path() == name:
            return True
        if x.kind == "CompoundAssignOperator" and x.children[0].path() == name:
            return True
        if x.kind == "UnaryOperator" and x.opcode in ("++", "--", "&") and x.children and x.children[0].path() == name:
            return True
    return False


def inlinable(tu, name, stack):
    fn = tu.functions.get(name)
    if fn is None or not _is_static(fn) or name in stack or _body(fn) is None:
        return False
    if fn.d.get("variadic"):
        return False
    # raw-memory manipulation (a local pointer made from a cast of a void* parameter, then indexed/dereferenced) is analysed on
    # its own, not inlined
    voids = {p.name for p in _params(fn) if p.type.replace("const ", "").strip() in ("void *", "void*")}
    if voids:
        for d in fn.find("VarDecl"):
            if d.children and any(x.kind == "DeclRefExpr" and x.ref in voids for x in d.children[-1].walk()):
                return False
    # no labels/gotos/switch-returns complications: returns inside a switch are fine (goto), own gotos are not renamed -> refuse
    if any(x.kind in ("GotoStmt", "LabelStmt", "IndirectGotoStmt") for x in fn.walk()):
        return False
    return True


class Flattener(object):
    def __init__(self, tu, fn, depth=4):
        self.tu = tu
        self.fn = fn
        self.depth = depth
        self.names = {x.name for x in fn.walk() if x.kind in ("VarDecl", "ParmVarDecl") and x.name}
        self.inlined = []

    # ---- helpers --------------------------------------------------------
    def call_of(self, e):
        """(CallExpr, name) if e (through casts/parens) is a call of an inlinable static helper"""
        s = e.strip(casts=True)
        if s.kind == "CallExpr" and s.callee in self.tu.functions:
            return s
        return None

    def prepare(self, call, stack):
        name = call.callee
        if not inlinable(self.tu, name, stack) or len(stack) > self.depth:
            return None
        callee = self.tu.functions[name]
        ps = _params(callee)
        if len(ps) != len(call.args):
            return None
        subst = {}
        for p, a in zip(ps, call.args):
            if not _pure_arg(a) or _param_modified(callee, p.name):
                return None
            subst[p.name] = a
        k = next(_ids)
        rename = {}
        for x in callee.walk():
            if x.kind == "VarDecl" and x.name and x.name in self.names and x.name not in subst:
                rename[x.name] = "%s__h%d" % (x.name, k)
        for x in callee.walk():
            if x.kind == "VarDecl" and x.name:
                self.names.add(rename.get(x.name, x.name))
        body = clone(_body(callee), self.tu, subst, rename)
        for x in body.walk():
            if x.origin is None:
                x.origin = name
        holder0 = mk(self.tu, "FunctionDecl", [body], name=self.fn.name)
        unroll_constant_loops(self.tu, holder0)
        fold_constant_switches(self.tu, holder0)
        self.inlined.extend(inline_expressions(self.tu, holder0))
        body = holder0.children[0]
        body.parent = None
        return name, callee, body, k

    def label(self, k, what, like):
        lid = "inl%d_%s" % (k, what)
        lab = mk(self.tu, "LabelStmt", [mk(self.tu, "NullStmt", text=";", like=like)], text="%s: ;" % lid, like=like, name=lid, declId=lid)
        return lid, lab

    def goto(self, lid, like):
        return mk(self.tu, "GotoStmt", text="goto %s;" % lid, like=like, targetLabelDeclId=lid)

    def returns_of(self, body):
        return [x for x in body.walk() if x.kind == "ReturnStmt"]

    def replace(self, node, new_nodes):
        """replace statement `node` in its parent's child list by new_nodes"""
        p = node.parent
        i = [j for j, c in enumerate(p.children) if c is node][0]
        # a return that is the sole body of an if/else/loop needs a compound to hold several statements
        if p.kind != "CompoundStmt" and len(new_nodes) != 1:
            comp = mk(self.tu, "CompoundStmt", new_nodes, like=node)
            new_nodes = [comp]
        for nn in new_nodes:
            nn.parent = p
        p.children[i:i + 1] = new_nodes

    # ---- the four statement forms ---------------------------------------
    def expand(self, call, mode, stack, target=None, cond=None, then_lab=None, else_lab=None, like=None):
        prep = self.prepare(call, stack)
        if prep is None:
            return None
        name, callee, body, k = prep
        rets = self.returns_of(body)
        end_id, end_lab = self.label(k, "end", like or call)
        need_end = False
        tail = body.children[-1] if body.children else None
        for r in rets:
            val = r.children[0] if r.children else None
            new = []
            if mode == "return":
                continue
            if mode == "stmt":
                if val is not None and val.calls():
                    new.append(val)
            elif mode == "assign":
                if val is None:
                    return None
                lhs = clone(target, self.tu)
                asg = mk(self.tu, "BinaryOperator", [lhs, val], like=r, opcode="=", type={"qualType": target.type})
                new.append(asg)
            elif mode == "cond":
                if val is None:
                    return None
                v = val.intval()
                if v is not None:
                    t = cond(v)
                    new.append(self.goto(then_lab if t else else_lab, r))
                else:
                    test = cond(val)
                    new.append(mk(self.tu, "IfStmt", [test, self.goto(then_lab, r), self.goto(else_lab, r)], like=r))
            if mode in ("stmt", "assign"):
                if not (r is tail):
                    new.append(self.goto(end_id, r))
                    need_end = True
            self.replace(r, new or [mk(self.tu, "NullStmt", text=";", like=r)])
        if mode == "cond":
            # falling off the end of a helper that should return a value: treat as unknown -> both labels (else first)
            pass
        out = list(body.children)
        if need_end:
            out.append(end_lab)
        self.inlined.append(name)
        # nested helper calls inside the inlined statements
        holder = mk(self.tu, "CompoundStmt", out, like=like or call)
        # array initialisers of the helper's own locals that use its parameters: read like the in-line stores they replace
        lower_array_initialisers(self.tu, holder)
        self.block(holder, stack + [name])
        return holder.children

    def block(self, comp, stack):
        """flatten the statements of a CompoundStmt (or any statement container) in place"""
        i = 0
        while i < len(comp.children):
            s = comp.children[i]
            new = self.stmt(s, stack)
            if new is not None:
                for nn in new:
                    nn.parent = comp
                comp.children[i:i + 1] = new
                i += len(new)
            else:
                i += 1

    def stmt(self, s, stack):
        k = s.kind
        if k == "CompoundStmt":
            self.block(s, stack)
            return None
        if k in ("CallExpr",) or (k in ("ImplicitCastExpr", "ParenExpr", "CStyleCastExpr") and self.call_of(s) is not None):
            call = self.call_of(s)
            if call is not None:
                return self.expand(call, "stmt", stack, like=s)
            return None
        if k == "BinaryOperator" and s.opcode == "=":
            call = self.call_of(s.children[1])
            if call is not None and _pure(s.children[0]):
                return self.expand(call, "assign", stack, target=s.children[0], like=s)
            return None
        if k == "ReturnStmt" and s.children:
            call = self.call_of(s.children[0])
            if call is not None:
                return self.expand(call, "return", stack, like=s)
            return None
        if k == "DeclStmt" and len(s.children) == 1 and s.children[0].kind == "VarDecl" and s.children[0].children:
            vd = s.children[0]
            init = vd.children[-1]
            call = self.call_of(init)
            if call is not None and init.kind not in ("InitListExpr",):
                ref = mk(self.tu, "DeclRefExpr", text=vd.name, like=vd, type={"qualType": vd.type},
                         referencedDecl={"kind": "VarDecl", "name": vd.name})
                got = self.expand(call, "assign", stack, target=ref, like=s)
                if got is not None:
                    vd.children = vd.children[:-1]
                    return [s] + got
            return None
        if k == "IfStmt":
            got = self.if_stmt(s, stack)
            if got is not None:
                return got
            for c in s.children[1:]:
                self.nested(c, s, stack)
            return None
        if k in ("ForStmt", "WhileStmt", "SwitchStmt", "CaseStmt", "DefaultStmt", "LabelStmt") and s.children:
            self.nested(s.children[-1], s, stack)
            return None
        if k == "DoStmt" and s.children:
            self.nested(s.children[0], s, stack)
            return None
        return None

    def nested(self, c, parent, stack):
        """flatten statement c that is a direct child of a non-compound parent"""
        new = self.stmt(c, stack)
        if new is not None:
            i = [j for j, x in enumerate(parent.children) if x is c][0]
            comp = mk(self.tu, "CompoundStmt", new, like=c)
            comp.parent = parent
            parent.children[i] = comp

    def if_stmt(self, s, stack):
        cond = s.children[0]
        e = cond.strip(casts=True)
        neg = False
        while e.kind == "UnaryOperator" and e.opcode == "!":
            neg = not neg
            e = e.children[0].strip(casts=True)
        call = None
        cmp_ = None
        if e.kind == "CallExpr":
            call = self.call_of(e)
        elif e.kind == "BinaryOperator" and e.opcode in ("==", "!=", "<", ">", "<=", ">="):
            l, r = e.children[0], e.children[1]
            if self.call_of(l) is not None and r.intval() is not None:
                call, cmp_ = self.call_of(l), (e.opcode, r.intval(), False)
            elif self.call_of(r) is not None and l.intval() is not None:
                call, cmp_ = self.call_of(r), (e.opcode, l.intval(), True)
        if call is None:
            # `if (A && helper(..)) S;` without an else is `if (A) { if (helper(..)) S; }`: split so that the inner test is in a
            # position handled above (C evaluates helper(..) only when A holds, as the nested form does)
            if not neg and e.kind == "BinaryOperator" and e.opcode == "&&" and len(s.children) == 2 \
                    and any(self.call_of(x) is not None for x in e.children[1].walk() if x.kind == "CallExpr") \
                    and not any(self.call_of(x) is not None for x in e.children[0].walk() if x.kind == "CallExpr"):
                a_, b_ = e.children
                inner = mk(self.tu, "IfStmt", [b_, s.children[1]], like=s)
                body = mk(self.tu, "CompoundStmt", [inner], like=s)
                outer = mk(self.tu, "IfStmt", [a_, body], like=s)
                self.block(body, stack)
                if len(body.children) == 1 and body.children[0] is inner:
                    # the inner call was not inlined after all: keep the statement as it was
                    s.children = [cond, inner.children[1]]
                    for c_ in s.children:
                        c_.parent = s
                    return None
                return [outer]
            return None
        import operator
        ops = {"==": operator.eq, "!=": operator.ne, "<": operator.lt, ">": operator.gt, "<=": operator.le, ">=": operator.ge}
        tu = self.tu

        def cond_fn(v):
            if isinstance(v, int):
                if cmp_ is None:
                    t = v != 0
                else:
                    op, k, flipped = cmp_
                    t = ops[op](k, v) if flipped else ops[op](v, k)
                return (not t) if neg else t
            # expression node: build the test `v`, `v <op> k`, negated as needed
            test = v
            if cmp_ is not None:
                op, k, flipped = cmp_
                lit = mk(tu, "IntegerLiteral", text=str(k), value=str(k), type={"qualType": "int"})
                kids = [lit, v] if flipped else [v, lit]
                test = mk(tu, "BinaryOperator", kids, like=v, opcode=op, type={"qualType": "int"})
            if neg:
                test = mk(tu, "UnaryOperator", [test], like=v, opcode="!", type={"qualType": "int"})
            return test
        k = next(_ids)
        then_id, then_lab = self.label(k, "then", s)
        else_id, else_lab = self.label(k, "else", s)
        end_id, end_lab = self.label(k, "fi", s)
        got = self.expand(call, "cond", stack, cond=cond_fn, then_lab=then_id, else_lab=else_id, like=s)
        if got is None:
            return None
        then_s = s.children[1]
        else_s = s.children[2] if len(s.children) > 2 else None
        out = list(got)
        # a helper that falls off its end without returning: cannot happen for int helpers that compile without warnings
        out.append(then_lab)
        out.append(then_s)
        out.append(self.goto(end_id, s))
        out.append(else_lab)
        if else_s is not None:
            out.append(else_s)
        out.append(end_lab)
        holder = mk(self.tu, "CompoundStmt", out, like=s)
        # flatten inside the branches
        self.block(holder, stack)
        return holder.children


PURE_LIBC = ("strlen", "sizeof", "abs", "labs")


def _pure_arg(e):
    for x in e.walk():
        if x.kind == "CallExpr" and x.callee not in PURE_LIBC:
            return False
        if x.kind == "CompoundAssignOperator":
            return False
        if x.kind == "BinaryOperator" and x.opcode == "=":
            return False
        if x.kind == "UnaryOperator" and x.opcode in ("++", "--"):
            return False
    return True


def _single_return_expr(fn, call=None):
    b = _body(fn)
    if b is None:
        return None
    st = [c for c in b.children if c.kind != "NullStmt"]
    if len(st) == 1 and st[0].kind == "ReturnStmt" and st[0].children:
        return st[0].children[0]
    # `switch (param) { case K: return E; ... default: return E; }` called with a constant argument: the selected return
    if len(st) == 1 and st[0].kind == "SwitchStmt" and call is not None:
        sw = st[0]
        ps = [p.name for p in _params(fn)]
        sel = sw.children[0].strip(casts=True).path()
        if sel in ps and ps.index(sel) < len(call.args):
            v = call.args[ps.index(sel)].intval()
            bodyc = sw.children[-1]
            items = bodyc.children if bodyc.kind == "CompoundStmt" else [bodyc]
            chosen = default = None
            ok = True
            for c in items:
                labels = []
                while c.kind in ("CaseStmt", "DefaultStmt"):
                    labels.append(c.children[0].intval() if c.kind == "CaseStmt" else "default")
                    c = c.children[-1]
                if c.kind != "ReturnStmt" or not c.children or not labels:
                    ok = False
                    break
                if None in labels:
                    ok = False
                    break
                if v is not None and v in labels:
                    chosen = c.children[0]
                if "default" in labels:
                    default = c.children[0]
            if ok and v is not None:
                return chosen if chosen is not None else default
    return None


def inline_expressions(tu, root, depth=3):
    """replace calls of static helpers whose body is a single `return <expr>;` by that expression (parameters substituted), in
    any expression position"""
    changed = True
    rounds = 0
    inl = []
    while changed and rounds < depth:
        changed = False
        rounds += 1
        for x in list(root.walk()):
            if x.kind != "CallExpr" or x.callee not in tu.functions or x.parent is None:
                continue
            callee = tu.functions[x.callee]
            if not _is_static(callee) or callee.name == root.name:
                continue
            e = _single_return_expr(callee, x)
            if e is None:
                continue
            ps = _params(callee)
            if len(ps) != len(x.args) or not all(_pure_arg(a) for a in x.args) or any(_param_modified(callee, p.name) for p in ps):
                continue
            sub = clone(e, tu, {p.name: a for p, a in zip(ps, x.args)}, None)
            for y in sub.walk():
                if y.origin is None:
                    y.origin = callee.name
            par = mk(tu, "ParenExpr", [sub], like=x, type={"qualType": x.type})
            par._text = "(" + sub.src + ")"
            a_ = x.parent
            while a_ is not None and isinstance(a_, FNode):
                a_._dirty = True
                a_ = a_.parent
            par.parent = x.parent
            i = [j for j, c in enumerate(x.parent.children) if c is x][0]
            x.parent.children[i] = par
            inl.append(callee.name)
            changed = True
    return inl


def _literal(tu, value, like):
    return mk(tu, "IntegerLiteral", text=str(value), like=None, value=str(value), type={"qualType": "int"})


def _mark_dirty(n):
    a_ = n
    while a_ is not None and isinstance(a_, FNode):
        a_._dirty = True
        a_ = a_.parent


def unroll_constant_loops(tu, root, limit=16):
    """`for (i = 0; i < K; i++) body` where the body indexes a file-scope constant table with i: replaced by K copies of the
    body with i replaced by 0..K-1 and table[k] by the k-th initialiser.  K is an integer literal or the table's length."""
    done = []
    for loop in [x for x in root.walk() if x.kind == "ForStmt"]:
        if len(loop.children) < 5 or loop.parent is None:
            continue
        init, _cv, cond, inc, body = loop.children[0], loop.children[1], loop.children[2], loop.children[3], loop.children[4]
        ivar = None
        i0 = init.strip(casts=True) if init.kind is not None else None
        if i0 is not None and i0.kind == "BinaryOperator" and i0.opcode == "=" and i0.children[1].intval() == 0:
            ivar = i0.children[0].path()
        elif i0 is not None and i0.kind == "DeclStmt" and len(i0.children) == 1 and i0.children[0].children \
                and i0.children[0].children[-1].intval() == 0:
            ivar = i0.children[0].name
        if not ivar or cond.kind is None or inc.kind is None:
            continue
        c0 = cond.strip(casts=True)
        if not (c0.kind == "BinaryOperator" and c0.opcode == "<" and c0.children[0].path() == ivar):
            continue
        inc0 = inc.strip(casts=True)
        if not (inc0.kind == "UnaryOperator" and inc0.opcode == "++" and inc0.children[0].path() == ivar):
            continue
        if any(p_ == ivar for x in [body] for p_, n_, rhs, k_ in _stores(x)):
            continue
        tables = {}
        fields = {}
        local_tables = {}
        for d in root.walk():
            if d.kind == "VarDecl" and d.children and d.children[-1].kind == "InitListExpr" and "const" in d.type \
                    and not any(p_ and p_.split("[")[0].split(".")[0] == d.name for p_, n_, r_, k_ in _stores(root)):
                local_tables[d.name] = d
        for x in body.walk():
            if x.kind == "ArraySubscriptExpr" and x.children[1].strip(casts=True).path() == ivar:
                base = x.children[0].strip(casts=True)
                vd = None
                if base.kind == "DeclRefExpr" and base.ref in tu.vars:
                    vd = tu.vars[base.ref]
                elif base.kind == "DeclRefExpr" and base.ref in local_tables:
                    vd = local_tables[base.ref]
                if vd is not None:
                    il = vd.children[-1] if vd.children else None
                    if il is not None and il.kind == "InitListExpr":
                        tables[base.ref] = il.children
                        # element type is an (anonymous) struct declared next to the variable: field order from its RecordDecl
                        par = vd.parent
                        recs = [c for c in (par.children if par is not None else []) if c.kind == "RecordDecl"]
                        if recs:
                            fields[base.ref] = [f.name for f in recs[-1].children if f.kind == "FieldDecl"]
        if not tables:
            continue
        K = c0.children[1].intval()
        if K is None:
            lens = {len(v) for v in tables.values()}
            rhs_txt = c0.children[1].src.replace(" ", "")
            bound_ok = c0.children[1].strip(casts=True).kind == "DeclRefExpr" or any(
                rhs_txt.startswith("sizeof(%s)/sizeof(%s[0])" % (t_, t_)) for t_ in tables)
            K = list(lens)[0] if len(lens) == 1 and bound_ok else None
        if K is None or K > limit or any(len(v) < K for v in tables.values()):
            continue
        if any(x.kind in ("BreakStmt", "ContinueStmt") for x in body.walk()):
            continue
        copies = []
        for k in range(K):
            b = clone(body, tu)
            # table[i].field -> the field's initialiser of element k
            for x in list(b.walk()):
                if x.kind == "MemberExpr" and x.children and x.parent is not None:
                    sub_ = x.children[0].strip(casts=True)
                    if sub_.kind == "ArraySubscriptExpr" and sub_.children[1].strip(casts=True).path() == ivar:
                        base = sub_.children[0].strip(casts=True)
                        if base.kind == "DeclRefExpr" and base.ref in tables and base.ref in fields and x.name in fields[base.ref]:
                            elem = tables[base.ref][k]
                            fi = fields[base.ref].index(x.name)
                            if elem.kind == "InitListExpr" and fi < len(elem.children):
                                el = clone(elem.children[fi], tu)
                                el.parent = x.parent
                                el._text = el.src
                                j = [q for q, c in enumerate(x.parent.children) if c is x][0]
                                x.parent.children[j] = el
                                _mark_dirty(x.parent)
            for x in list(b.walk()):
                if x.kind == "ArraySubscriptExpr" and x.children[1].strip(casts=True).path() == ivar:
                    base = x.children[0].strip(casts=True)
                    if base.kind == "DeclRefExpr" and base.ref in tables and x.parent is not None:
                        el = clone(tables[base.ref][k], tu)
                        el.parent = x.parent
                        el._text = el.src
                        j = [q for q, c in enumerate(x.parent.children) if c is x][0]
                        x.parent.children[j] = el
                        _mark_dirty(x.parent)
            for x in list(b.walk()):
                if x.kind == "DeclRefExpr" and x.ref == ivar and x.parent is not None:
                    lit = _literal(tu, k, x)
                    lit.parent = x.parent
                    j = [q for q, c in enumerate(x.parent.children) if c is x][0]
                    x.parent.children[j] = lit
                    _mark_dirty(x.parent)
            copies.append(b)
        comp = mk(tu, "CompoundStmt", copies, like=loop)
        comp._dirty = True
        comp.parent = loop.parent
        j = [q for q, c in enumerate(loop.parent.children) if c is loop][0]
        loop.parent.children[j] = comp
        done.append(ivar)
    return done


def _stores(node):
    out = []
    for n in node.walk():
        if n.kind == "BinaryOperator" and n.opcode == "=":
            out.append((n.children[0].path(), n, n.children[1], "="))
        elif n.kind == "CompoundAssignOperator":
            out.append((n.children[0].path(), n, n.children[1], n.opcode))
        elif n.kind == "UnaryOperator" and n.opcode in ("++", "--"):
            out.append((n.children[0].path(), n, None, n.opcode))
    return out


def fold_constant_switches(tu, root):
    """`switch (<integer constant>) { case ...}`: replaced by the statements of the selected case (up to its break/return)"""
    n_f = 0
    for sw in [x for x in root.walk() if x.kind == "SwitchStmt"]:
        if sw.parent is None or not sw.children:
            continue
        v = sw.children[0].intval()
        if v is None:
            continue
        bodyc = sw.children[-1]
        items = bodyc.children if bodyc.kind == "CompoundStmt" else [bodyc]
        # linearise: (labels, statement)
        seq = []
        for c in items:
            labels = []
            while c.kind in ("CaseStmt", "DefaultStmt"):
                if c.kind == "CaseStmt":
                    lv = c.children[0].intval()
                    if lv is None:
                        val = c.children[0].d.get("value")
                        lv = int(val) if val is not None and str(val).lstrip("-").isdigit() else None
                    labels.append(("case", lv))
                else:
                    labels.append(("default", None))
                c = c.children[-1]
            seq.append((labels, c))
        if any(l[0] == "case" and l[1] is None for ls, c in seq for l in ls):
            continue
        start = None
        for i, (ls, c) in enumerate(seq):
            if ("case", v) in ls:
                start = i
        if start is None:
            for i, (ls, c) in enumerate(seq):
                if any(l[0] == "default" for l in ls):
                    start = i
        chosen = []
        if start is not None:
            for ls, c in seq[start:]:
                if c.kind == "BreakStmt":
                    break
                chosen.append(c)
                if c.kind == "ReturnStmt":
                    break
        if any(x.kind == "BreakStmt" for c in chosen for x in c.walk() if not any(
                a.kind in ("ForStmt", "WhileStmt", "DoStmt", "SwitchStmt") for a in x.ancestors() if a is not sw and any(a is y for y in c.walk()))):
            continue
        comp = mk(tu, "CompoundStmt", chosen, like=sw)
        comp._dirty = True
        comp.parent = sw.parent
        j = [q for q, c in enumerate(sw.parent.children) if c is sw][0]
        sw.parent.children[j] = comp
        n_f += 1
    return n_f


CANON_OBJ = "hdf5_data_object"


def _canonical_object_rename(fn):
    """{name: CANON_OBJ} when the function has exactly one variable of type `Digital_rf_write_object *` and it is called
    something else (program normalisation: the rules refer to the writer object by its canonical name)"""
    objs = [x for x in fn.walk() if x.kind in ("ParmVarDecl", "VarDecl") and x.name
            and x.type.replace("const ", "").replace(" ", "") in ("Digital_rf_write_object*", "structdigital_rf_write_object*")]
    names = {x.name for x in objs}
    all_names = {x.name for x in fn.walk() if x.kind in ("ParmVarDecl", "VarDecl") and x.name}
    if len(names) == 1 and CANON_OBJ not in all_names:
        return {list(names)[0]: CANON_OBJ}
    return {}


_REF_PARAMS = None


def _canonical_param_rename(fn):
    """{name: reference name} for the parameters of a function of the reference tree (vp/cparams_ref.json: name and type of
    every parameter of every function, by position) that are called something else today.  Parameter names are not part of a C
    function's meaning; the rules name parameters the way the reference tree does, so the program is normalised to those names.
    Only applied when the number and the types of the parameters are unchanged and no other variable of the function already
    carries a reference name; otherwise nothing is renamed and the rules report what they cannot find (exit 2)."""
    global _REF_PARAMS
    if _REF_PARAMS is None:
        import json
        import os
        with open(os.path.join(os.path.dirname(os.path.abspath(__file__)), "cparams_ref.json")) as f:
            _REF_PARAMS = json.load(f)
    ref = _REF_PARAMS.get(fn.name)
    ps = [p for p in fn.children if p.kind == "ParmVarDecl"]
    if not ref or len(ref) != len(ps):
        return {}

    def ty(t):
        return t.replace("const ", "").replace(" ", "")
    if any(ty(p.type) != ty(t) for p, (_n, t) in zip(ps, ref)):
        return {}
    ren = {p.name: n for p, (n, _t) in zip(ps, ref) if p.name and p.name != n}
    if not ren:
        return {}
    others = {x.name for x in fn.walk() if x.kind in ("ParmVarDecl", "VarDecl") and x.name} - set(ren)
    if set(ren.values()) & others:
        return {}
    return ren


def lower_array_initialisers(tu, root):
    """`T a[n] = {e0, e1};` in a block becomes `T a[n]; a[0] = e0; a[1] = e1;` when an element is not a constant: a helper that
    takes the sizes as parameters and puts them into its own array by the initialiser is read like the in-line code that assigns
    them (rules look for the stores `a[i] = ...`).  Constant initialisers stay as they are."""
    n_low = 0
    for comp in [x for x in root.walk() if x.kind == "CompoundStmt"]:
        i = 0
        while i < len(comp.children):
            st = comp.children[i]
            new = []
            if st.kind == "DeclStmt":
                for vd in st.children:
                    if vd.kind != "VarDecl" or not vd.children or "[" not in (vd.type or ""):
                        continue
                    init = vd.children[-1]
                    if init.kind != "InitListExpr" or not init.children or len(init.children) > 4:
                        continue
                    elems = list(init.children)
                    if not any(x.kind in ("DeclRefExpr", "MemberExpr") and not (x.kind == "DeclRefExpr" and (x.d.get("referencedDecl") or {}).get("kind") == "EnumConstantDecl")
                               for e in elems for x in e.walk()):
                        continue        # constants (literals, macros, enumerators) only
                    if any(e.kind in ("ImplicitValueInitExpr", "InitListExpr") for e in elems):
                        continue
                    et = (vd.type or "").split("[")[0].strip()
                    vd.children = vd.children[:-1]
                    for k, e in enumerate(elems):
                        if not any(x.kind in ("DeclRefExpr", "MemberExpr") for x in e.walk()):
                            continue        # a constant element: its initial value is nothing a rule looks for
                        ref = mk(tu, "DeclRefExpr", text=vd.name, like=vd, type={"qualType": vd.type},
                                 referencedDecl={"kind": "VarDecl", "name": vd.name})
                        lit = mk(tu, "IntegerLiteral", text=str(k), value=str(k), type={"qualType": "int"})
                        sub = mk(tu, "ArraySubscriptExpr", [ref, lit], text="%s[%d]" % (vd.name, k), like=vd, type={"qualType": et})
                        new.append(mk(tu, "BinaryOperator", [sub, e], like=e, opcode="=", type={"qualType": et}))
                    n_low += 1
            if new:
                for nn in new:
                    nn.parent = comp
                comp.children[i + 1:i + 1] = new
                i += len(new)
            i += 1
    return n_low


def flatten(tu, fn):
    ren = _canonical_param_rename(fn)
    obj = _canonical_object_rename(fn)
    if obj and not (set(obj) & set(ren)) and not (set(obj.values()) & set(ren.values())):
        ren = dict(ren, **obj)
    root = clone(fn, tu, None, ren) if ren else clone(fn, tu)
    if ren:
        for x in root.walk():
            if x.kind == "ParmVarDecl" and x.d.get("name") in ren:
                x.d["name"] = ren[x.d["name"]]
    unroll_constant_loops(tu, root)
    pre = inline_expressions(tu, root)
    fl = Flattener(tu, root)
    fl.inlined.extend(pre)
    body = _body(root)
    if body is not None:
        fl.block(body, [fn.name])
    _renumber(root)
    return root, sorted(set(fl.inlined))


def normalise(tu):
    """replace every non-static function of tu by its flattened copy; drop static helpers that were inlined everywhere"""
    if getattr(tu, "_normalised", False):
        return tu
    statics = {n for n, f in tu.functions.items() if _is_static(f)}
    if not statics:
        tu._normalised = True
        tu.inlined = {}
        return tu
    called = {c.callee for f in tu.functions.values() for c in f.calls()}
    roots = [n for n in tu.functions if n not in statics or n not in called]   # static functions reached only through tables are roots too
    new = {}
    inlined_into = {}
    for name in roots:
        root, inl = flatten(tu, tu.functions[name])
        new[name] = root
        inlined_into[name] = inl
    # static helpers that are still called somewhere (could not be inlined there) stay, flattened themselves
    work = [c.callee for f in new.values() for c in f.calls() if c.callee in statics and c.callee not in new]
    while work:
        n = work.pop()
        if n in new:
            continue
        root, inl = flatten(tu, tu.functions[n])
        new[n] = root
        inlined_into[n] = inl
        work.extend(c.callee for c in root.calls() if c.callee in statics and c.callee not in new)
    tu.original_functions = dict(tu.functions)
    tu.functions = new
    tu.inlined = inlined_into
    tu._normalised = True
    return tu
