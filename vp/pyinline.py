"""AST-level inlining of private same-module helpers (Python), so that rules see through 'extract method' refactorings.

flatten(m, qualname, keep=(), depth=3) returns a FlatView whose .fn is a copy of the function in which statement-level
calls of private helpers (names starting with '_', methods of the same class called on `self`, or module-level functions
of the same module) are replaced by the helper's body:

    self._h(a, b)                 ->  <params bound>; <body>
    x = self._h(a, b)             ->  <params bound>; <body with `return e` -> `x = e`>
    return self._h(a, b)          ->  ... ; return __inl_k
    if self._h(a): / if not ...   ->  __inl_k = <inlined>; if __inl_k:
    f(u, self._h(a), v)           ->  __inl_k = <inlined>; f(u, __inl_k, v)     (only when the earlier arguments are plain names,
                                                                                  attributes or constants)
    for x in self._h(a):          ->  __inl_k = <inlined>; for x in __inl_k:    (not for generators)

A helper with several `return`s is wrapped in `for __once_k in (None,):` with `return e` -> `x = e; break`; helpers whose
`return` sits inside one of their own loops, generators, helpers with *args (or with **kwargs used other than forwarded as **kwargs), decorators other than staticmethod,
nested functions or global/nonlocal are left as calls (the rule then sees the call, as before).  Callee locals that clash
with names of the caller are renamed (suffix __hN); a parameter whose argument is the identically named caller variable is
left alone.  Names listed in `keep` are never inlined (anchors a rule reasons about separately).  Line numbers of inlined
statements are the helper's own, so reports point at the code that is really there.

This is a syntactic transformation used only to *read* the code; nothing is executed.
"""
from __future__ import annotations

import ast
import copy

from . import cfg as _cfg


class FlatView(object):
    """duck-types the parts of pyfront.Module that rules use on one function"""

    def __init__(self, m, qualname, fn, inlined):
        self.module = m
        self.rel = m.rel
        self.name = m.name
        self.qualname = qualname
        self.fn_node = fn
        self.inlined = inlined            # names of the helpers that were inlined
        self.parents = {}
        for n in ast.walk(fn):
            for c in ast.iter_child_nodes(n):
                self.parents[c] = n
        self._cfg = None
        self.functions = m.functions
        self.classes = m.classes

    def fn(self, qualname=None):
        return self.fn_node

    def cfg(self, qualname=None):
        if self._cfg is None:
            self._cfg = _cfg.build_py(self.fn_node)
        return self._cfg

    def dealiased(self):
        """the same function with the plain copies of names that inlining leaves behind (`x = x__h1`, parameter bindings
        `p = <constant>`) substituted and dropped: a name assigned exactly once from a constant, or from a name that is itself
        bound at most once (and not by a loop), is replaced by that value"""
        if getattr(self, "_dealiased", None) is None:
            from . import pysym
            f = self.fn_node
            count, val = {}, {}
            for n in ast.walk(f):
                if isinstance(n, ast.Name) and isinstance(n.ctx, (ast.Store, ast.Del)):
                    count[n.id] = count.get(n.id, 0) + 1
                elif isinstance(n, ast.ExceptHandler) and n.name:
                    count[n.name] = count.get(n.name, 0) + 2
                if isinstance(n, (ast.For, ast.comprehension)):
                    for x in ast.walk(n.target):
                        if isinstance(x, ast.Name):
                            count[x.id] = count.get(x.id, 0) + 1
                if isinstance(n, (ast.AugAssign,)) and isinstance(n.target, ast.Name):
                    count[n.target.id] = count.get(n.target.id, 0) + 1
                if isinstance(n, ast.Assign) and len(n.targets) == 1 and isinstance(n.targets[0], ast.Name):
                    val[n.targets[0].id] = n.value
            params = {a.arg for a in f.args.args + f.args.kwonlyargs}
            env = {}
            for k, v in val.items():
                if count.get(k) != 1 or k in params:
                    continue
                if isinstance(v, ast.Constant):
                    env[k] = v
                elif isinstance(v, ast.Name) and count.get(v.id, 0) <= 1 and v.id != k:
                    env[k] = v
            for _ in range(4):
                for k, v in list(env.items()):
                    if isinstance(v, ast.Name) and v.id in env:
                        env[k] = env[v.id]
            f2 = pysym.subst(f, env)
            # a local bound once to a record built with keywords (`t = _Paths(directory=d, final=p, staging=s)`, a module-level
            # collections.namedtuple) and only ever read field by field stands for its fields: `t.staging` is `s`
            recs = {}
            for k, v in val.items():
                if count.get(k) != 1 or k in params or not isinstance(v, ast.Call) or not isinstance(v.func, ast.Name) or v.args or not v.keywords:
                    continue
                mod = getattr(self.module, "module", self.module)
                mv = mod.module_assign(v.func.id) if hasattr(mod, "module_assign") else None
                if not (isinstance(mv, ast.Call) and (pyfront_dotted(mv.func) or "").endswith("namedtuple")):
                    continue
                if any(kw.arg is None or not isinstance(kw.value, (ast.Name, ast.Constant)) for kw in v.keywords):
                    continue
                # every field value is a name bound at most once (or a constant), and the record is used only as `k.<field>`
                if any(isinstance(kw.value, ast.Name) and count.get(kw.value.id, 0) > 1 for kw in v.keywords):
                    continue
                uses = [x for x in ast.walk(f2) if isinstance(x, ast.Name) and x.id == k and isinstance(x.ctx, ast.Load)]
                attr_uses = [x for x in ast.walk(f2) if isinstance(x, ast.Attribute) and isinstance(x.value, ast.Name) and x.value.id == k]
                if len(uses) == len(attr_uses) and all(a.attr in {kw.arg for kw in v.keywords} for a in attr_uses):
                    recs[k] = {kw.arg: kw.value for kw in v.keywords}
            if recs:
                class Scalar(ast.NodeTransformer):
                    def visit_Attribute(self_, node):
                        self_.generic_visit(node)
                        if isinstance(node.value, ast.Name) and node.value.id in recs and isinstance(node.ctx, ast.Load):
                            return ast.copy_location(copy.deepcopy(recs[node.value.id][node.attr]), node)
                        return node

                    def visit_Assign(self_, node):
                        if len(node.targets) == 1 and isinstance(node.targets[0], ast.Name) and node.targets[0].id in recs:
                            return ast.copy_location(ast.Pass(), node)
                        self_.generic_visit(node)
                        return node
                f2 = Scalar().visit(f2)

            class Drop(ast.NodeTransformer):
                def visit_Assign(self_, node):
                    if len(node.targets) == 1 and isinstance(node.targets[0], ast.Name) and node.targets[0].id in env:
                        return ast.copy_location(ast.Pass(), node)
                    return node
            f2 = Drop().visit(f2)

            class FoldIfExp(ast.NodeTransformer):
                def visit_IfExp(self_, node):
                    self_.generic_visit(node)
                    if isinstance(node.test, ast.Constant):
                        return node.body if node.test.value else node.orelse
                    return node

                def visit_If(self_, node):
                    # the statement form of the same (pynorm lowers `x = A if c else B` into it): a constant test selects an arm
                    self_.generic_visit(node)
                    if isinstance(node.test, ast.Constant):
                        arm = node.body if node.test.value else node.orelse
                        return arm if arm else ast.copy_location(ast.Pass(), node)
                    return node
            f2 = FoldIfExp().visit(f2)
            ast.fix_missing_locations(f2)
            self._dealiased = FlatView(self.module, self.qualname, f2, self.inlined)
            self._dealiased._dealiased = self._dealiased
        return self._dealiased

    def enclosing(self, node, kinds):
        p = self.parents.get(node)
        while p is not None:
            if isinstance(p, kinds):
                return p
            p = self.parents.get(p)
        return None

    def qualname_of(self, node):
        return self.qualname

    def methods(self, clsname):
        return self.module.methods(clsname)

    def module_assign(self, name):
        return self.module.module_assign(name)


def pyfront_dotted(node):
    parts = []
    while isinstance(node, ast.Attribute):
        parts.append(node.attr)
        node = node.value
    if isinstance(node, ast.Name):
        parts.append(node.id)
        return ".".join(reversed(parts))
    return None


def _assigned_names(fn):
    out = set()
    for n in ast.walk(fn):
        if isinstance(n, ast.Name) and isinstance(n.ctx, (ast.Store, ast.Del)):
            out.add(n.id)
        elif isinstance(n, ast.ExceptHandler) and n.name:
            out.add(n.name)
        elif isinstance(n, ast.arg):
            out.add(n.arg)
    return out


def _all_names(fn):
    return {n.id for n in ast.walk(fn) if isinstance(n, ast.Name)} | {a.arg for a in ast.walk(fn) if isinstance(a, ast.arg)}


def _return_in_loop(fn):
    def visit(node, in_loop):
        for c in ast.iter_child_nodes(node):
            if isinstance(c, (ast.FunctionDef, ast.AsyncFunctionDef, ast.Lambda, ast.ClassDef)):
                continue
            if isinstance(c, ast.Return) and in_loop:
                return True
            if visit(c, in_loop or isinstance(c, (ast.For, ast.While, ast.AsyncFor))):
                return True
        return False
    return visit(fn, False)


def _generator_inlinable(h):
    """a generator whose only yields are `yield <value>` statements and that has no `return`: iterating over it runs its body
    with the loop body in place of every yield"""
    if isinstance(h, ast.AsyncFunctionDef) or h.args.vararg or h.args.kwarg or h.args.posonlyargs:
        return False
    for d in h.decorator_list:
        if not (isinstance(d, ast.Name) and d.id == "staticmethod"):
            return False
    stmt_yields = {id(n.value) for n in ast.walk(h) if isinstance(n, ast.Expr) and isinstance(n.value, ast.Yield) and n.value.value is not None}
    if not stmt_yields:
        return False
    for n in ast.walk(h):
        if n is h:
            continue
        if isinstance(n, (ast.YieldFrom, ast.Global, ast.Nonlocal, ast.FunctionDef, ast.AsyncFunctionDef, ast.ClassDef, ast.Await, ast.Return, ast.Lambda)):
            return False
        if isinstance(n, ast.Yield) and id(n) not in stmt_yields:
            return False
    return True


def _yield_in_loop_tail(h):
    """the generator has a single `yield`, and it is the last thing an iteration of its innermost enclosing loop does (reached
    through `if`s only): a `continue` of the consumer's loop body is then a `continue` of that loop"""
    ys = [n for n in ast.walk(h) if isinstance(n, ast.Expr) and isinstance(n.value, ast.Yield)]
    if len(ys) != 1:
        return False
    y = ys[0]
    loops = [n for n in ast.walk(h) if isinstance(n, (ast.For, ast.While)) and any(y is x for b in n.body for x in ast.walk(b))]
    if not loops:
        return False
    inner = [lp for lp in loops if not any(o is not lp and any(o is x for x in ast.walk(lp)) for o in loops)]
    if len(inner) != 1:
        return False

    def tail(stmts):
        if not stmts:
            return False
        last = stmts[-1]
        if last is y:
            return True
        if isinstance(last, ast.If):
            if any(y is x for b in last.body for x in ast.walk(b)):
                return tail(last.body)
            if any(y is x for b in last.orelse for x in ast.walk(b)):
                return tail(last.orelse)
        return False
    return tail(inner[0].body)


def _leaves_loop(body, kinds=(ast.Break, ast.Continue)):
    """break / continue that belong to the loop whose body this is"""
    def visit(stmts):
        for st in stmts:
            if isinstance(st, kinds):
                return True
            if isinstance(st, (ast.For, ast.AsyncFor, ast.While)):
                if visit(st.orelse):
                    return True
                continue
            if isinstance(st, (ast.FunctionDef, ast.AsyncFunctionDef, ast.ClassDef)):
                continue
            for f in ("body", "orelse", "finalbody"):
                if visit(getattr(st, f, []) or []):
                    return True
            for h in getattr(st, "handlers", []) or []:
                if visit(h.body):
                    return True
        return False
    return visit(body)


def _kwarg_forwarded_only(h):
    """the **kwargs parameter of h is used only as `**kwargs` in calls (forwarded): its keywords can be written out at the call"""
    kw = h.args.kwarg.arg
    fwd = {id(k.value) for c in ast.walk(h) if isinstance(c, ast.Call) for k in c.keywords if k.arg is None and isinstance(k.value, ast.Name)
           and k.value.id == kw}
    return all(id(n) in fwd for n in ast.walk(h) if isinstance(n, ast.Name) and n.id == kw) and not any(
        isinstance(n, ast.Name) and n.id == kw and isinstance(n.ctx, (ast.Store, ast.Del)) for n in ast.walk(h))


def _vararg_forwarded_only(h):
    """the *args parameter of h is used only as `*args` in the positional arguments of calls (forwarded)"""
    va = h.args.vararg.arg
    fwd = {id(a.value) for c in ast.walk(h) if isinstance(c, ast.Call) for a in c.args if isinstance(a, ast.Starred)
           and isinstance(a.value, ast.Name) and a.value.id == va}
    return all(id(n) in fwd for n in ast.walk(h) if isinstance(n, ast.Name) and n.id == va)


def _inlinable(h):
    if isinstance(h, ast.AsyncFunctionDef):
        return False
    if h.args.posonlyargs or h.args.kwonlyargs and (h.args.kwarg or h.args.vararg):
        return False
    if h.args.vararg and not _vararg_forwarded_only(h):
        return False
    if h.args.kwarg and not _kwarg_forwarded_only(h):
        return False
    for d in h.decorator_list:
        if not (isinstance(d, ast.Name) and d.id == "staticmethod"):
            return False
    for n in ast.walk(h):
        if n is h:
            continue
        if isinstance(n, (ast.Yield, ast.YieldFrom, ast.Global, ast.Nonlocal, ast.FunctionDef, ast.AsyncFunctionDef, ast.ClassDef, ast.Await)):
            return False
    if _return_in_loop(h):
        return False
    return True


class _Renamer(ast.NodeTransformer):
    def __init__(self, mapping):
        self.mapping = mapping

    def visit_Name(self, node):
        if node.id in self.mapping:
            return ast.copy_location(ast.Name(self.mapping[node.id], node.ctx), node)
        return node

    def visit_ExceptHandler(self, node):
        self.generic_visit(node)
        if node.name in self.mapping:
            node.name = self.mapping[node.name]
        return node


class _Flattener(object):
    def __init__(self, m, qualname, keep, depth):
        self.m = m
        self.qualname = qualname
        self.cls = qualname.split(".")[0] if "." in qualname else None
        self.keep = set(keep)
        self.depth = depth
        self.counter = 0
        self.inlined = []
        self.caller_names = set()
        self.gen_locals = {}

    # -- resolution ------------------------------------------------------
    def target(self, call, stack, generator=False):
        f = call.func
        name = None
        is_method = False
        if isinstance(f, ast.Attribute) and isinstance(f.value, ast.Name) and f.value.id == "self" and self.cls:
            name, is_method = f.attr, True
            h = self.m.functions.get("%s.%s" % (self.cls, name))
        elif isinstance(f, ast.Name):
            name = f.id
            h = self.m.functions.get(name)
        else:
            return None
        if h is None or not name.startswith("_") or name.startswith("__") or name in self.keep or name in stack:
            return None
        if not (_generator_inlinable(h) if generator else _inlinable(h)):
            return None
        static = any(isinstance(d, ast.Name) and d.id == "staticmethod" for d in h.decorator_list)
        params = [a.arg for a in h.args.args]
        if is_method and not static:
            if not params or params[0] != "self":
                return None
            params = params[1:]
        if any(isinstance(a, ast.Starred) for a in call.args):
            return None
        if any(k.arg is None for k in call.keywords) and not (h.args.kwarg is not None and all(
                isinstance(k.value, ast.Name) for k in call.keywords if k.arg is None)):
            return None
        if len(call.args) > len(params) and h.args.vararg is None:
            return None
        return name, h, params

    # -- one call --------------------------------------------------------
    def expand(self, call, result, stack, gen_for=None):
        """statements replacing `result = call` (result may be None); None if the call is not inlined.
        gen_for = (target, body): statements replacing `for target in call: body` for a generator helper"""
        t = self.target(call, stack, generator=gen_for is not None)
        if t is None:
            return None
        name, h, params = t
        if gen_for is not None and _leaves_loop(gen_for[1]) and not _yield_in_loop_tail(h):
            return None
        self.counter += 1
        k = self.counter
        binding = {}
        for p, a in zip(params, call.args):
            binding[p] = a
        extra_pos = list(call.args[len(params):])
        extra = []
        stars = []
        for kw in call.keywords:
            if kw.arg is None:
                stars.append(kw.value)       # the caller's own **kwargs, forwarded as they are
                continue
            if kw.arg in binding:
                return None
            if kw.arg not in params:
                if h.args.kwarg is None:
                    return None
                extra.append(kw)
                continue
            binding[kw.arg] = kw.value
        defaults = h.args.defaults
        dparams = [a.arg for a in h.args.args][len(h.args.args) - len(defaults):]
        for p, d in zip(dparams, defaults):
            if p in params and p not in binding:
                binding[p] = d
        if any(p not in binding for p in params):
            return None
        body = copy.deepcopy([s for s in h.body])
        if body and isinstance(body[0], ast.Expr) and isinstance(body[0].value, ast.Constant) and isinstance(body[0].value.value, str):
            body = body[1:]
        # renaming of clashing locals
        same = {p for p in params if isinstance(binding[p], ast.Name) and binding[p].id == p}
        local = _assigned_names(h) - {"self"}
        mapping = {}
        for n in local:
            if n in same:
                continue
            if n in self.caller_names or n in params:
                if n in params and n not in self.caller_names:
                    continue
                mapping[n] = "%s__h%d" % (n, k)
        holder = ast.Module(body=body, type_ignores=[])
        _Renamer(mapping).visit(holder)
        body = holder.body
        pre = []
        line = getattr(call, "lineno", 1)
        if h.args.vararg is not None:
            # the positional arguments collected by *args are bound to locals at the call and written out wherever the helper forwards them
            vaname = mapping.get(h.args.vararg.arg, h.args.vararg.arg)
            locs = []
            for i_, av in enumerate(extra_pos):
                loc = "%s__%d__h%d" % (vaname, i_, k)
                pre.append(ast.copy_location(ast.Assign([ast.Name(loc, ast.Store())], copy.deepcopy(av)), call))
                self.caller_names.add(loc)
                locs.append(loc)
            for c in ast.walk(holder):
                if isinstance(c, ast.Call):
                    out = []
                    for ax in c.args:
                        if isinstance(ax, ast.Starred) and isinstance(ax.value, ast.Name) and ax.value.id == vaname:
                            out.extend(ast.Name(l_, ast.Load()) for l_ in locs)
                        else:
                            out.append(ax)
                    c.args = out
            ast.fix_missing_locations(holder)
        # a parameter that receives a function of an imported module (`helper(_ext.rf_write, ...)`) and is never stored in the helper
        # stands for that function: written out, so that `f(x)` in the helper is the call `_ext.rf_write(x)`
        imported = {(a_.asname or a_.name).split(".")[0] for st_ in getattr(getattr(self.m, "module", self.m), "tree", ast.Module(body=[], type_ignores=[])).body if isinstance(st_, (ast.Import, ast.ImportFrom)) for a_ in st_.names}
        direct = {}
        for p_ in params:
            v_ = binding.get(p_)
            root = v_
            while isinstance(root, ast.Attribute):
                root = root.value
            if isinstance(v_, ast.Attribute) and isinstance(root, ast.Name) and root.id in imported and p_ not in same \
                    and not any(isinstance(x, ast.Name) and x.id == mapping.get(p_, p_) and isinstance(x.ctx, (ast.Store, ast.Del)) for x in ast.walk(holder)):
                direct[mapping.get(p_, p_)] = v_
        if direct:
            class _Sub(ast.NodeTransformer):
                def visit_Name(self_, node):
                    if node.id in direct and isinstance(node.ctx, ast.Load):
                        return ast.copy_location(copy.deepcopy(direct[node.id]), node)
                    return node
            _Sub().visit(holder)
            body = holder.body
        if h.args.kwarg is not None:
            # the keywords collected by **kwargs are bound to locals at the call and written out wherever the helper forwards them
            kwname = mapping.get(h.args.kwarg.arg, h.args.kwarg.arg)
            names = []
            for kw in extra:
                loc = "%s__%s__h%d" % (kwname, kw.arg, k)
                pre.append(ast.copy_location(ast.Assign([ast.Name(loc, ast.Store())], copy.deepcopy(kw.value)), call))
                self.caller_names.add(loc)
                names.append((kw.arg, loc))
            for c in ast.walk(holder):
                if isinstance(c, ast.Call):
                    out = []
                    for kx in c.keywords:
                        if kx.arg is None and isinstance(kx.value, ast.Name) and kx.value.id == kwname:
                            out.extend(ast.keyword(arg=a_, value=ast.Name(l_, ast.Load())) for a_, l_ in names)
                            out.extend(ast.keyword(arg=None, value=copy.deepcopy(sv)) for sv in stars)
                        else:
                            out.append(kx)
                    c.keywords = out
            ast.fix_missing_locations(holder)
        for p in params:
            if p in same or mapping.get(p, p) in direct:
                continue
            tgt = ast.Name(mapping.get(p, p), ast.Store())
            pre.append(ast.copy_location(ast.Assign([tgt], copy.deepcopy(binding[p])), call))
            self.caller_names.add(mapping.get(p, p))
        self.caller_names |= {mapping.get(n, n) for n in local}
        if gen_for is not None:
            tgt, loop_body = gen_for

            class Y(ast.NodeTransformer):
                def visit_Expr(self_, node):
                    if isinstance(node.value, ast.Yield):
                        val = node.value.value
                        if isinstance(tgt, ast.Tuple) and isinstance(val, ast.Tuple) and len(tgt.elts) == len(val.elts) \
                                and all(isinstance(t_, ast.Name) for t_ in tgt.elts) \
                                and not ({t_.id for t_ in tgt.elts} & {x.id for x in ast.walk(val) if isinstance(x, ast.Name)}):
                            asg = [ast.copy_location(ast.Assign([copy.deepcopy(t_)], v_), node) for t_, v_ in zip(tgt.elts, val.elts)]
                        else:
                            asg = [ast.copy_location(ast.Assign([copy.deepcopy(tgt)], val), node)]
                        return asg + copy.deepcopy(loop_body)
                    return node
            holder = ast.Module(body=body, type_ignores=[])
            Y().visit(holder)
            out = list(pre) + holder.body
            for st in out:
                ast.fix_missing_locations(st)
            self.inlined.append(name)
            return self.block(out, stack + [name])
        rets = [n for st in body for n in ast.walk(st) if isinstance(n, ast.Return)]
        single_tail = len(rets) == 1 and body and body[-1] is rets[0]
        out = list(pre)

        def ret_stmts(r):
            if result is None:
                if r.value is not None and not isinstance(r.value, (ast.Constant, ast.Name)):
                    return [ast.copy_location(ast.Expr(r.value), r)]
                return []
            val = r.value if r.value is not None else ast.Constant(None)
            if isinstance(result, ast.Tuple) and isinstance(val, ast.Tuple) and len(result.elts) == len(val.elts) \
                    and all(isinstance(t_, ast.Name) for t_ in result.elts) \
                    and not ({t_.id for t_ in result.elts} & {x.id for x in ast.walk(val) if isinstance(x, ast.Name)}):
                # `a, b = helper()` with `return x, y`: element-wise, so that each name keeps its own definition
                return [ast.copy_location(ast.Assign([copy.deepcopy(t_)], v_), r) for t_, v_ in zip(result.elts, val.elts)]
            return [ast.copy_location(ast.Assign([copy.deepcopy(result)], val), r)]
        if not rets:
            out += body
            if result is not None:
                out.append(ast.copy_location(ast.Assign([copy.deepcopy(result)], ast.Constant(None)), call))
        elif single_tail:
            out += body[:-1] + ret_stmts(rets[0])
        else:
            class R(ast.NodeTransformer):
                def visit_Return(self_, node):
                    return ret_stmts(node) + [ast.copy_location(ast.Break(), node)]
            tail_leaves = bool(body) and isinstance(body[-1], (ast.Return, ast.Raise))
            holder = ast.Module(body=body, type_ignores=[])
            R().visit(holder)
            # falling off the end of the helper returns None: the for-else runs exactly when no `break` (= return) happened
            orelse = []
            if result is not None and not tail_leaves:
                orelse = [ast.copy_location(ast.Assign([copy.deepcopy(result)], ast.Constant(None)), call)]
            loop = ast.For(target=ast.Name("__once_%d" % k, ast.Store()), iter=ast.Tuple([ast.Constant(None)], ast.Load()),
                           body=holder.body or [ast.Pass()], orelse=orelse)
            out.append(ast.copy_location(loop, call))
        if not out:
            out = [ast.copy_location(ast.Pass(), call)]
        for st in out:
            ast.fix_missing_locations(st)
        self.inlined.append(name)
        # recurse into the inlined statements
        return self.block(out, stack + [name])

    # -- statements ------------------------------------------------------
    def temp(self):
        self.counter += 1
        n = "__inl_%d" % self.counter
        self.caller_names.add(n)
        return n

    def hoist_expr(self, e, stack):
        """(pre-statements, new expression) with helper calls at 'first evaluated' positions hoisted"""
        if isinstance(e, ast.Call):
            if self.target(e, stack) is not None:
                t = self.temp()
                st = self.expand(e, ast.Name(t, ast.Store()), stack)
                if st is not None:
                    return st, ast.copy_location(ast.Name(t, ast.Load()), e)
            # arguments: hoist helper calls as long as everything evaluated before them is inert
            pre = []
            e2 = copy.copy(e)
            e2.args = list(e.args)
            if isinstance(e.func, (ast.Name, ast.Attribute)) and self._inert(e.func):
                for i, a in enumerate(e2.args):
                    if isinstance(a, ast.Call) and self.target(a, stack) is not None:
                        t = self.temp()
                        st = self.expand(a, ast.Name(t, ast.Store()), stack)
                        if st is not None:
                            pre += st
                            e2.args[i] = ast.copy_location(ast.Name(t, ast.Load()), a)
                            continue
                    if not self._inert(a):
                        break
            return pre, e2
        if isinstance(e, (ast.Tuple, ast.List)) and isinstance(getattr(e, "ctx", None), ast.Load):
            # elements: hoist helper calls as long as everything evaluated before them is inert
            pre = []
            e2 = copy.copy(e)
            e2.elts = list(e.elts)
            for i, a in enumerate(e2.elts):
                if isinstance(a, ast.Call) and self.target(a, stack) is not None:
                    t = self.temp()
                    st = self.expand(a, ast.Name(t, ast.Store()), stack)
                    if st is not None:
                        pre += st
                        e2.elts[i] = ast.copy_location(ast.Name(t, ast.Load()), a)
                        continue
                if not self._inert(a):
                    break
            return pre, e2
        if isinstance(e, ast.UnaryOp) and isinstance(e.op, ast.Not):
            pre, v = self.hoist_expr(e.operand, stack)
            return pre, ast.copy_location(ast.UnaryOp(ast.Not(), v), e)
        if isinstance(e, ast.Compare):
            pre, v = self.hoist_expr(e.left, stack)
            e2 = copy.copy(e)
            e2.left = v
            return pre, e2
        if isinstance(e, ast.BoolOp):
            pre, v = self.hoist_expr(e.values[0], stack)
            e2 = copy.copy(e)
            e2.values = [v] + list(e.values[1:])
            return pre, e2
        return [], e

    @staticmethod
    def _inert(e):
        if isinstance(e, (ast.Name, ast.Constant)):
            return True
        if isinstance(e, ast.Attribute):
            return _Flattener._inert(e.value)
        if isinstance(e, ast.Subscript):
            return _Flattener._inert(e.value) and _Flattener._inert(e.slice)
        if isinstance(e, (ast.Tuple, ast.List)):
            return all(_Flattener._inert(x) for x in e.elts)
        if isinstance(e, ast.UnaryOp):
            return _Flattener._inert(e.operand)
        if isinstance(e, ast.BinOp):
            return _Flattener._inert(e.left) and _Flattener._inert(e.right)
        return False

    def block(self, stmts, stack):
        out = []
        for st in stmts:
            out += self.stmt(st, stack)
        return out

    def stmt(self, st, stack):
        if len(stack) > self.depth:
            return [st]
        if isinstance(st, ast.Expr) and isinstance(st.value, ast.Call):
            r = self.expand(st.value, None, stack)
            if r is not None:
                return r
            pre, v = self.hoist_expr(st.value, stack)
            st2 = copy.copy(st)
            st2.value = v
            return pre + [st2]
        if isinstance(st, ast.Expr) and isinstance(st.value, ast.Yield) and st.value.value is not None:
            # `yield helper(...)`: the helper runs before the value is handed out
            pre, v = self.hoist_expr(st.value.value, stack)
            st2 = copy.copy(st)
            st2.value = ast.copy_location(ast.Yield(v), st.value)
            return pre + [st2]
        if isinstance(st, ast.Assign) and len(st.targets) == 1:
            if isinstance(st.value, ast.Call):
                r = self.expand(st.value, st.targets[0], stack) if isinstance(st.targets[0], (ast.Name, ast.Attribute, ast.Subscript, ast.Tuple)) else None
                if r is not None:
                    return r
            pre, v = self.hoist_expr(st.value, stack)
            st2 = copy.copy(st)
            st2.value = v
            return pre + [st2]
        if isinstance(st, ast.Return) and st.value is not None:
            pre, v = self.hoist_expr(st.value, stack)
            st2 = copy.copy(st)
            st2.value = v
            return pre + [st2]
        if isinstance(st, ast.If):
            pre, v = self.hoist_expr(st.test, stack)
            st2 = copy.copy(st)
            st2.test = v
            st2.body = self.block(st.body, stack)
            st2.orelse = self.block(st.orelse, stack)
            return pre + [st2]
        # `g = _generator_helper(..)` ... `for x in g:` with g bound once and used once: creating a generator runs nothing, so the
        # call can be moved to the loop
        if isinstance(st, ast.Assign) and len(st.targets) == 1 and isinstance(st.targets[0], ast.Name) and st.targets[0].id in self.gen_locals \
                and (st.value is self.gen_locals[st.targets[0].id] or (
                    isinstance(st.value, ast.Call) and isinstance(st.value.func, ast.Name) and st.value.func.id in ("list", "tuple")
                    and len(st.value.args) == 1 and isinstance(st.value.args[0], ast.Name) and st.value.args[0].id == st.targets[0].id)):
            return []
        if isinstance(st, ast.For) and isinstance(st.iter, ast.Name) and st.iter.id in self.gen_locals:
            st = copy.copy(st)
            st.iter = self.gen_locals[st.iter.id]
        if isinstance(st, ast.For) and isinstance(st.iter, ast.Call) and not st.orelse and not _leaves_loop(st.body, (ast.Break,)):
            # `for x in _generator_helper(...)`: the helper's body with the loop body at every yield.  `list(gen(..))` / `tuple(..)`
            # materialise the items first; for what is done with each item (the view the rules take) the order of the two
            # activities does not matter, so the wrapper is looked through
            it = st.iter
            if isinstance(it.func, ast.Name) and it.func.id in ("list", "tuple") and len(it.args) == 1 and not it.keywords \
                    and isinstance(it.args[0], ast.Call):
                it = it.args[0]
            r = self.expand(it, None, stack, gen_for=(st.target, st.body))
            if r is not None:
                return r
        if isinstance(st, (ast.For, ast.AsyncFor)):
            pre, v = self.hoist_expr(st.iter, stack)
            st2 = copy.copy(st)
            st2.iter = v
            st2.body = self.block(st.body, stack)
            st2.orelse = self.block(st.orelse, stack)
            return pre + [st2]
        if isinstance(st, ast.While):
            st2 = copy.copy(st)
            st2.body = self.block(st.body, stack)
            st2.orelse = self.block(st.orelse, stack)
            return [st2]
        if isinstance(st, (ast.With, ast.AsyncWith)):
            st2 = copy.copy(st)
            st2.body = self.block(st.body, stack)
            return [st2]
        if isinstance(st, ast.Try):
            st2 = copy.copy(st)
            st2.body = self.block(st.body, stack)
            st2.orelse = self.block(st.orelse, stack)
            st2.finalbody = self.block(st.finalbody, stack)
            hs = []
            for h in st.handlers:
                h2 = copy.copy(h)
                h2.body = self.block(h.body, stack)
                hs.append(h2)
            st2.handlers = hs
            return [st2]
        return [st]


_CACHE = {}


def flatten(m, qualname, keep=(), depth=3):
    key = (id(m), qualname, tuple(sorted(keep)), depth)
    if key in _CACHE:
        return _CACHE[key]
    fn = m.fn(qualname)
    fl = _Flattener(m, qualname, keep, depth)
    fl.caller_names = _all_names(fn)
    # locals bound exactly once to a call of a private generator helper and read exactly once, as the iterable of a for loop
    stores, loads = {}, {}
    for n in ast.walk(fn):
        if isinstance(n, ast.Name):
            (stores if isinstance(n.ctx, (ast.Store, ast.Del)) else loads).setdefault(n.id, []).append(n)
    for a in ast.walk(fn):
        if isinstance(a, ast.Assign) and len(a.targets) == 1 and isinstance(a.targets[0], ast.Name) and isinstance(a.value, ast.Call):
            nm = a.targets[0].id
            if len(stores.get(nm, [])) == 1 and len(loads.get(nm, [])) == 1 and fl.target(a.value, [fn.name], generator=True) is not None \
                    and any(isinstance(lp, ast.For) and lp.iter is loads[nm][0] for lp in ast.walk(fn)):
                fl.gen_locals[nm] = a.value
    f2 = copy.copy(fn)
    f2.body = fl.block(copy.deepcopy(fn.body), [fn.name])
    ast.fix_missing_locations(f2)
    # second stage, only when it can pay: after inlining, a loop may run over a local that holds a generator helper's result
    # through a switch bound to a constant by the inlined call (`g = _gen(..); if select_first: g = list(g); for x in g:`).  The
    # constants are propagated and constant `if`s folded (FlatView.dealiased), `g = list(g)` of a generator local is looked
    # through (materialising first does not change what is done with each item), and the generator is inlined.
    if _generator_loop_candidates(fl, f2):
        f3 = FlatView(m, qualname, f2, []).dealiased().fn()
        f3 = _fold_constant_ifs(copy.deepcopy(f3))
        cands = _generator_loop_candidates(fl, f3)
        if cands:
            fl.gen_locals = cands
            f4 = copy.copy(f3)
            f4.body = fl.block(f3.body, [fn.name])
            ast.fix_missing_locations(f4)
            if any(n_ in fl.inlined for n_ in {pyc.func.id for pyc in cands.values() if isinstance(pyc.func, ast.Name)}):
                f2 = f4
    v = FlatView(m, qualname, f2, sorted(set(fl.inlined)))
    _CACHE[key] = v
    return v


def _generator_loop_candidates(fl, f):
    """{local: generator-helper call} for locals of f that are the iterable of exactly one for loop and whose definitions are one
    call of a private generator helper plus, possibly, re-bindings `g = list(g)` / `g = tuple(g)`"""
    defs, loads = {}, {}
    for n in ast.walk(f):
        if isinstance(n, ast.Assign) and len(n.targets) == 1 and isinstance(n.targets[0], ast.Name):
            defs.setdefault(n.targets[0].id, []).append(n)
        elif isinstance(n, ast.Name) and isinstance(n.ctx, ast.Load):
            loads.setdefault(n.id, []).append(n)
    out = {}
    for nm, ds in defs.items():
        gen = [d for d in ds if isinstance(d.value, ast.Call) and fl.target(d.value, [f.name], generator=True) is not None]
        wraps = [d for d in ds if isinstance(d.value, ast.Call) and isinstance(d.value.func, ast.Name) and d.value.func.id in ("list", "tuple")
                 and len(d.value.args) == 1 and isinstance(d.value.args[0], ast.Name) and d.value.args[0].id == nm]
        if len(gen) != 1 or len(gen) + len(wraps) != len(ds):
            continue
        loops = [lp for lp in ast.walk(f) if isinstance(lp, ast.For) and isinstance(lp.iter, ast.Name) and lp.iter.id == nm]
        other = [x for x in loads.get(nm, []) if not any(x is lp.iter for lp in loops) and not any(x is w.value.args[0] for w in wraps)]
        if len(loops) == 1 and not other:
            out[nm] = gen[0].value
    return out


def _fold_constant_ifs(f):
    class F(ast.NodeTransformer):
        def visit_If(self, node):
            self.generic_visit(node)
            t = node.test
            if isinstance(t, ast.UnaryOp) and isinstance(t.op, ast.Not) and isinstance(t.operand, ast.Constant):
                t = ast.Constant(not t.operand.value)
            if isinstance(t, ast.Constant):
                return (node.body if t.value else node.orelse) or [ast.copy_location(ast.Pass(), node)]
            return node
    f = F().visit(f)
    ast.fix_missing_locations(f)
    return f
