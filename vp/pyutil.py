"""Helpers that make Python rules insensitive to renaming and to helper extraction."""
from __future__ import annotations

import ast
import copy

from .core import norm
from . import pyfront


class _Alpha(ast.NodeTransformer):
    def __init__(self, keep):
        self.map = {}
        self.keep = set(keep)

    def _n(self, name):
        if name in self.keep:
            return name
        if name not in self.map:
            self.map[name] = "v%d" % len(self.map)
        return self.map[name]

    def visit_Name(self, node):
        if node.id in self.map:
            return ast.copy_location(ast.Name(id=self.map[node.id], ctx=node.ctx), node)
        return node


def alpha(node, keep=()):
    """Source of `node` with the names it binds (assignment / for / comprehension / with / lambda targets) renamed to
    v0, v1, ... in order of first binding; free names are kept.  Two fragments that differ only in the names of their
    locals have the same alpha()."""
    node = copy.deepcopy(node)
    a = _Alpha(keep)
    # first pass: collect bound names in source order
    bound = []
    for n in ast.walk(node):
        if isinstance(n, ast.Name) and isinstance(n.ctx, ast.Store):
            bound.append((getattr(n, "lineno", 0), getattr(n, "col_offset", 0), n.id))
        elif isinstance(n, ast.arg):
            bound.append((getattr(n, "lineno", 0), getattr(n, "col_offset", 0), n.arg))
    for _, _, name in sorted(bound):
        a._n(name)
    for n in ast.walk(node):
        if isinstance(n, ast.arg) and n.arg in a.map:
            n.arg = a.map[n.arg]
    node = a.visit(node)
    return norm(ast.unparse(node))


def local_helpers(m, fn, depth=1):
    """(helper FunctionDef, call node, {param: argument expr}) for the same-module functions / same-class methods that
    `fn` calls directly (and, up to `depth`, that those call)."""
    out = []
    seen = set()

    def visit(f, d):
        for c in pyfront.walk_no_nested(f):
            if not isinstance(c, ast.Call):
                continue
            name = pyfront.call_name(c) or ""
            target = None
            if name in m.functions and "." not in name:
                target = m.functions[name]
            elif name.startswith("self."):
                cls = m.qualname_of(f).rsplit(".", 1)[0] if "." in m.qualname_of(f) + "." else ""
                q = m.qualname_of(c)
                cls = q.split(".")[0] if q else ""
                cand = "%s.%s" % (cls, name[5:])
                target = m.functions.get(cand)
            if target is None or id(target) in seen or target is fn:
                continue
            seen.add(id(target))
            params = [a.arg for a in target.args.args if a.arg != "self"]
            binding = {}
            for p, a in zip(params, c.args):
                binding[p] = a
            for k in c.keywords:
                if k.arg:
                    binding[k.arg] = k.value
            out.append((target, c, binding))
            if d < depth:
                visit(target, d + 1)

    visit(fn, 0)
    return out


def functions_with(m, pred):
    """(qualname, FunctionDef) of module functions for which pred(fn) holds."""
    return [(q, f) for q, f in m.functions.items() if "<locals>" not in q and pred(f)]


def truth_guarded(g, target_id, var, want_true=True, skip=("exc",)):
    """Is CFG node target_id reachable only through the `want_true` outcome of a truth test on local `var`?
    (forms: `if var`, `if not var: continue/return`, `var is None`, `var is not None`)"""
    tests = []
    for n in g.nodes:
        if n.kind != "cond" or n.ast is None:
            continue
        a = n.ast
        if isinstance(a, ast.Name) and a.id == var:
            tests.append((n.id, "T"))
        elif isinstance(a, ast.Compare) and len(a.ops) == 1 and isinstance(a.left, ast.Name) and a.left.id == var \
                and isinstance(a.comparators[0], ast.Constant) and a.comparators[0].value is None:
            tests.append((n.id, "T" if isinstance(a.ops[0], ast.IsNot) else "F"))
    if not tests:
        return False
    good = {(i, lab if want_true else ("F" if lab == "T" else "T")) for i, lab in tests}
    ids = {i for i, _ in tests}

    def filt(a, b, lab):
        # forbid the edges that mean "var is truthy" (resp. falsy): then the target must be unreachable from the definition
        return not (a in ids and (a, lab) in good)

    defs = [n.id for n in g.nodes if isinstance(n.ast, ast.Assign) and any(
        isinstance(t, ast.Name) and t.id == var for t in n.ast.targets)]
    if not defs:
        defs = [g.entry.id]
    reach = g.reach(defs, skip_labels=skip, edge_filter=filt)
    return target_id not in reach


def flag_states(g, flags, skip=("exc",)):
    """Path-sensitive analysis of Boolean locals that are only assigned the constants True/False: for every CFG node the
    set of possible valuations (tuple of True/False/None per flag, None = not assigned yet) on entry to the node.
    Condition nodes that test a flag (`f`, `not f`, after the builder's short-circuit decomposition) filter the valuations."""
    flags = list(flags)
    idx = {f: i for i, f in enumerate(flags)}

    def step(node, st):
        a = node.ast
        if isinstance(a, ast.Assign) and len(a.targets) == 1 and isinstance(a.targets[0], ast.Name) and a.targets[0].id in idx \
                and isinstance(a.value, ast.Constant) and isinstance(a.value.value, bool):
            st = list(st)
            st[idx[a.targets[0].id]] = a.value.value
            return tuple(st)
        return st

    def ok(node, lab, st):
        if node.kind == "cond" and isinstance(node.ast, ast.Name) and node.ast.id in idx and lab in ("T", "F"):
            v = st[idx[node.ast.id]]
            if v is None:
                return True
            return (lab == "T") == bool(v)
        return True

    IN = {g.entry.id: {tuple([None] * len(flags))}}
    work = [g.entry.id]
    while work:
        a = work.pop()
        for st in list(IN[a]):
            out = step(g.nodes[a], st)
            for b, lab in g.succ[a]:
                if lab in skip or not ok(g.nodes[a], lab, out):
                    continue
                cur = IN.setdefault(b, set())
                if out not in cur:
                    cur.add(out)
                    work.append(b)
    return IN, idx


def expand_aliases(fn, expr, keep=()):
    """Source of `expr` after replacing local names that have exactly one plain assignment `name = <call/attr/name>` in fn by
    that value (e.g. num_blocks -> len(data_dict)); returns normalised text."""
    count = {}
    val = {}
    for n in pyfront.walk_no_nested(fn):
        if isinstance(n, ast.Assign) and len(n.targets) == 1 and isinstance(n.targets[0], ast.Name):
            count[n.targets[0].id] = count.get(n.targets[0].id, 0) + 1
            val[n.targets[0].id] = n.value
        elif isinstance(n, (ast.AugAssign,)) and isinstance(n.target, ast.Name):
            count[n.target.id] = count.get(n.target.id, 0) + 2
        elif isinstance(n, (ast.For, ast.comprehension)):
            for t in ast.walk(n.target):
                if isinstance(t, ast.Name):
                    count[t.id] = count.get(t.id, 0) + 2
    params = {a.arg for a in fn.args.args}

    class T(ast.NodeTransformer):
        def visit_Name(self, node):
            if isinstance(node.ctx, ast.Load) and count.get(node.id) == 1 and node.id not in keep and node.id not in params:
                v = val[node.id]
                if isinstance(v, ast.Call) and pyfront.call_name(v) in ("len", "int"):
                    return copy.deepcopy(v)
            return node

    return norm(ast.unparse(T().visit(copy.deepcopy(expr))))


def specialise(fn, flag, value):
    """Copy of fn's body with every `if flag` / `if not flag` / `a if flag else b` resolved for flag == value."""
    def truth(test):
        if isinstance(test, ast.Name) and test.id == flag:
            return value
        if isinstance(test, ast.UnaryOp) and isinstance(test.op, ast.Not) and isinstance(test.operand, ast.Name) and test.operand.id == flag:
            return not value
        return None

    class T(ast.NodeTransformer):
        def visit_If(self, node):
            self.generic_visit(node)
            t = truth(node.test)
            if t is None:
                return node
            body = node.body if t else node.orelse
            return body or [ast.Pass()]

        def visit_IfExp(self, node):
            self.generic_visit(node)
            t = truth(node.test)
            if t is None:
                return node
            return node.body if t else node.orelse

    f2 = copy.deepcopy(fn)
    f2 = T().visit(f2)
    ast.fix_missing_locations(f2)
    # merge `else: if ...` produced by the substitution back into elif form is not needed: unparse is canonical
    return f2


def single_alias_env(fn):
    """{name: value} for locals of fn assigned exactly once from a plain name, attribute path or constant (aliases)"""
    count, val = {}, {}
    for n in pyfront.walk_no_nested(fn):
        if isinstance(n, ast.Assign):
            for t in n.targets:
                for x in ast.walk(t):
                    if isinstance(x, ast.Name):
                        count[x.id] = count.get(x.id, 0) + 1
                        if len(n.targets) == 1 and isinstance(t, ast.Name):
                            val[x.id] = n.value
        elif isinstance(n, (ast.AugAssign, ast.AnnAssign)) and isinstance(n.target, ast.Name):
            count[n.target.id] = count.get(n.target.id, 0) + 2
        elif isinstance(n, (ast.For, ast.comprehension)):
            for x in ast.walk(n.target):
                if isinstance(x, ast.Name):
                    count[x.id] = count.get(x.id, 0) + 2
        elif isinstance(n, ast.ExceptHandler) and n.name:
            count[n.name] = count.get(n.name, 0) + 2
    params = {a.arg for a in fn.args.args + fn.args.kwonlyargs}
    out = {}
    for k, c in count.items():
        if c == 1 and k in val and k not in params:
            v = val[k]
            if isinstance(v, (ast.Name, ast.Constant)) or (isinstance(v, ast.Attribute) and pyfront.dotted(v)):
                out[k] = v
    # resolve chains
    for _ in range(4):
        for k, v in list(out.items()):
            if isinstance(v, ast.Name) and v.id in out and v.id != k:
                out[k] = out[v.id]
    return out


def dealias(expr, env):
    from . import pysym
    return pysym.subst(expr, env)


def truth_states(g, names, skip=("exc",), ghost=None):
    """Path-sensitive truthiness analysis of simple locals.  Abstract values: None (not assigned yet), "T" (truthy), "F" (falsy,
    including None/False), "U" (unknown).  Transfer: `x = <constant>` sets T/F, `x = y` copies, anything else sets U, a `for`
    target becomes U.  Condition nodes `x`, `not x` (decomposed by the CFG builder), `x is None`, `x is not None` filter the
    states and refine U on their outgoing edges (`x is not None` refines to T: intended for locals that hold None or an object).
    Returns ({node id: set of state tuples on entry}, {name: index})."""
    names = list(names)
    ghost_nodes = set(ghost[1]) if ghost else set()
    if ghost:
        names.append(ghost[0])      # ghost[0]: name; ghost[1]: node ids whose normal exit sets it T and whose exceptional exit sets it F
    idx = {f: i for i, f in enumerate(names)}

    def assign(st, name, v):
        st = list(st)
        st[idx[name]] = v
        return tuple(st)

    def step(node, st):
        a = node.ast
        if isinstance(a, ast.Assign) and len(a.targets) == 1 and isinstance(a.targets[0], ast.Name) and a.targets[0].id in idx:
            v = a.value
            if isinstance(v, ast.Constant):
                return assign(st, a.targets[0].id, "T" if v.value else "F")
            if isinstance(v, ast.Name) and v.id in idx:
                return assign(st, a.targets[0].id, st[idx[v.id]] or "U")
            return assign(st, a.targets[0].id, "U")
        if isinstance(a, ast.Assign):
            for t in a.targets:
                for x in ast.walk(t):
                    if isinstance(x, ast.Name) and x.id in idx:
                        st = assign(st, x.id, "U")
            return st
        if isinstance(a, (ast.For, ast.AsyncFor)) and node.kind == "cond":
            for x in ast.walk(a.target):
                if isinstance(x, ast.Name) and x.id in idx:
                    st = assign(st, x.id, "U")
        return st

    def test_of(node):
        """(name, label on which the name is truthy) for a condition node testing one tracked name"""
        e = node.ast
        if isinstance(e, ast.Name) and e.id in idx:
            return e.id, "T"
        if isinstance(e, ast.Compare) and len(e.ops) == 1 and isinstance(e.left, ast.Name) and e.left.id in idx \
                and isinstance(e.comparators[0], ast.Constant) and e.comparators[0].value is None:
            if isinstance(e.ops[0], ast.IsNot):
                return e.left.id, "T"
            if isinstance(e.ops[0], ast.Is):
                return e.left.id, "F"
        return None, None

    init = [None] * len(names)
    if ghost:
        init[idx[ghost[0]]] = "F"
    IN = {g.entry.id: {tuple(init)}}
    work = [g.entry.id]
    while work:
        a = work.pop()
        node = g.nodes[a]
        for st in list(IN[a]):
            out = step(node, st)
            nm, truthy_lab = test_of(node) if node.kind == "cond" and not isinstance(node.ast, (ast.For, ast.While)) else (None, None)
            for b, lab in g.succ[a]:
                if lab in skip and not (a in ghost_nodes and lab == "exc"):
                    continue
                o2 = out
                if a in ghost_nodes:
                    o2 = assign(o2, ghost[0], "F" if lab == "exc" else "T")
                    out_ = o2
                if nm is not None and lab in ("T", "F"):
                    v = out[idx[nm]]
                    want = "T" if lab == truthy_lab else "F"
                    if v in ("T", "F") and v != want:
                        continue
                    o2 = assign(o2, nm, want)
                cur = IN.setdefault(b, set())
                if o2 not in cur:
                    cur.add(o2)
                    work.append(b)
    return IN, idx


class NotConstant(Exception):
    pass


def const_value(m, e, env=None, depth=0):
    """Value of a module-level constant expression of module m: literals, tuples / lists, names bound once at module level,
    `+` of strings / sequences, `%` formatting, tuple() / list() / sorted(), comprehensions over such values with one loop
    variable.  Raises NotConstant for anything else (nothing is executed: the expression is interpreted node by node)."""
    env = env or {}
    if depth > 12:
        raise NotConstant("too deep")
    if isinstance(e, ast.Constant):
        return e.value
    if isinstance(e, (ast.Tuple, ast.List)):
        return tuple(const_value(m, x, env, depth + 1) for x in e.elts)
    if isinstance(e, ast.Name):
        if e.id in env:
            return env[e.id]
        v = m.module_assign(e.id)
        if v is None:
            raise NotConstant(e.id)
        return const_value(m, v, {}, depth + 1)
    if isinstance(e, ast.BinOp) and isinstance(e.op, ast.Add):
        a, b = const_value(m, e.left, env, depth + 1), const_value(m, e.right, env, depth + 1)
        if isinstance(a, str) and isinstance(b, str):
            return a + b
        if isinstance(a, tuple) and isinstance(b, tuple):
            return a + b
        raise NotConstant(ast.unparse(e))
    if isinstance(e, ast.BinOp) and isinstance(e.op, ast.Mod):
        a, b = const_value(m, e.left, env, depth + 1), const_value(m, e.right, env, depth + 1)
        if isinstance(a, str):
            try:
                return a % b
            except (TypeError, ValueError):
                raise NotConstant(ast.unparse(e))
    if isinstance(e, ast.Call) and isinstance(e.func, ast.Name) and e.func.id in ("tuple", "list", "sorted") and len(e.args) == 1 and not e.keywords:
        v = const_value(m, e.args[0], env, depth + 1)
        if isinstance(v, tuple):
            return tuple(sorted(v)) if e.func.id == "sorted" else v
    if isinstance(e, (ast.GeneratorExp, ast.ListComp)) and len(e.generators) == 1 and isinstance(e.generators[0].target, ast.Name) \
            and not e.generators[0].ifs:
        it = const_value(m, e.generators[0].iter, env, depth + 1)
        if isinstance(it, tuple):
            out = []
            for x in it:
                env2 = dict(env)
                env2[e.generators[0].target.id] = x
                out.append(const_value(m, e.elt, env2, depth + 1))
            return tuple(out)
    raise NotConstant(ast.unparse(e)[:60])
