"""Generates /verif/MANIFEST.json from the property modules present (python -m vp.manifest)."""
from __future__ import annotations

import importlib
import json
import os

from .core import VERIF

ALL = ["C%02d" % i for i in range(1, 21)]
NA = {
    "C03": "Arithmetic identity over ~2^63 x 2^32 x 10^9 inputs (exact floor/ceil of a hand-written split division, "
           "no 64-bit overflow, monotonicity, round trip): value-level, invisible in the shape of the code; interval "
           "abstract interpretation was evaluated and is too weak (needs relational facts = solver family). The one "
           "shape clause (integer-only dataflow in the conversion helpers) is decided under C04.R1. See DESIGN.md section 6.",
}


def build():
    checks = []
    na = []
    for pid in ALL:
        if pid in NA:
            na.append({"property_id": pid, "reason": NA[pid]})
            continue
        try:
            mod = importlib.import_module("vp.props." + pid.lower())
        except ImportError:
            na.append({"property_id": pid, "reason": "check not built yet in this snapshot of /verif (static rules designed in "
                                                     "DESIGN.md section 4; listed here so that nothing unbuilt is claimed)"})
            continue
        checks.append({
            "property_id": pid,
            "quick_cmd": "bin/check %s --tier quick" % pid,
            "thorough_cmd": "bin/check %s --tier thorough" % pid,
            "evidence_file": "/verif/evidence/%s.json" % pid,
            "replay_cmd_template": "bin/check %s --replay {path}" % pid,
            "engine": "vp",
            "level_claimed": {
                "category": "other",
                "text": getattr(mod, "LEVEL_TEXT", None) or (
                    "Static analysis of the current /repo sources (no execution): " + mod.EXPLANATION),
                "design_ref": "DESIGN.md section 4, %s" % pid,
            },
            "level_note": "Decides the named structural clauses on every path / table row of the current sources; does "
                          "NOT decide value-level behaviour. Trusted base: " + "; ".join(mod.ASSUMPTIONS),
            "technique": getattr(mod, "TECHNIQUE", "repository-specific static analysis (clang JSON AST / Python ast: "
                                                    "CFG must-pass, typestate, effects, string provenance, regular-language algebra)"),
        })
    man = {
        "version": 1,
        "setup_cmd": "bin/setup",
        "hooks": {
            "guard": "MITHAYSTACK_DIGITAL_RF_VERIF",
            "enable": "none needed: the checks never execute digital_rf code, they parse /repo's current sources",
            "baseline_off_cmd": "cd /repo && /venv/bin/python -m pytest -ra -q -p no:cacheprovider --timeout=900 --continue-on-collection-errors",
            "source_commits": [],
            "add_only": True,
        },
        "engines": [{
            "name": "vp",
            "path": "/verif/vp",
            "serves_properties": [c["property_id"] for c in checks],
            "kind_free_text": "repository-specific static analyser: C via clang -ast-dump=json (type-resolved), Python via ast, "
                              "regexes via re._parser; statement-level CFGs, must-pass / dominance queries, handle typestate, "
                              "effect summaries over the call graph, string provenance, table extraction, regular-language algebra",
        }],
        "checks": checks,
        "not_applicable": na,
        "notes": "Family of technique: static analysis only. Exit codes of every check: 0 ok / 1 VIOLATION / 2 ANALYSIS-ERROR "
                 "(vanished anchor, front-end failure, instance count below the hand-confirmed guard). Known findings: "
                 "/verif/known_findings.json. Seeded breaking changes: /verif/seeded/.",
    }
    return man


if __name__ == "__main__":
    m = build()
    with open(os.path.join(VERIF, "MANIFEST.json"), "w") as f:
        json.dump(m, f, indent=1)
    print("claimed:", [c["property_id"] for c in m["checks"]])
    print("not_applicable:", [c["property_id"] for c in m["not_applicable"]])
