"""Rule engine plumbing: findings, known findings, evidence, exit codes.

Exit codes: 0 = no unlisted violation, 1 = violation (a line
"VIOLATION property=<id> replay=<path>" is printed for each), 2 = analysis error
(front-end failure, vanished anchor, instance count below the hand-confirmed
guard) -- never a silent pass.
"""
from __future__ import annotations

import hashlib
import json
import os
import re
import sys
import time
import traceback

VERIF = os.path.dirname(os.path.dirname(os.path.abspath(__file__)))
REPO = os.environ.get("VP_REPO", "/repo")

C_LIB = "c/lib/rf_write_hdf5.c"
C_HDR = "c/include/digital_rf.h"
C_EXT = "python/lib/py_rf_write_hdf5.c"
PY_PKG = "python/digital_rf"


class AnalysisError(Exception):
    """The analysis itself cannot give a verdict (anchor vanished, idiom
    changed, front-end failed).  Mapped to exit code 2."""


def repo_path(rel, repo=None):
    return os.path.join(repo or REPO, rel)


def norm(text):
    """Normalised source text of a construct (whitespace-insensitive)."""
    return re.sub(r"\s+", " ", text or "").strip()


class Finding(object):
    """A construct that violates a rule."""

    def __init__(self, rule, file, function, construct, message, line=None, path=None):
        self.rule = rule
        self.file = file
        self.function = function
        self.construct = norm(construct)
        self.message = message
        self.line = line
        self.path = path  # optional CFG path / extra diagnosis

    def key(self, prop):
        # never a line number: reformatting does not move findings
        return "|".join((prop, self.rule, self.file, self.function or "-", self.construct))

    def to_json(self, prop):
        d = {
            "property": prop,
            "rule": self.rule,
            "file": self.file,
            "function": self.function,
            "construct": self.construct,
            "line": self.line,
            "message": self.message,
            "key": self.key(prop),
        }
        if self.path:
            d["path"] = self.path
        return d


class Rule(object):
    """Result container for one rule of one property on one run."""

    live = []            # every Rule made during the current run_property call (so that findings survive an analysis error)

    def __init__(self, rid, title):
        Rule.live.append(self)
        self.rid = rid
        self.title = title
        self.instances = []  # (site, what was established)
        self.findings = []
        self.imprecise = []
        self.notes = []
        self.allow = []  # allow-listed constructs with reason
        self.min_instances = 0

    # an obligation that was checked and holds
    def ok(self, site, what):
        self.instances.append({"site": site, "established": what, "verdict": "ok"})

    def bad(self, finding):
        self.instances.append(
            {
                "site": "%s:%s %s" % (finding.file, finding.line, finding.function),
                "established": finding.message,
                "verdict": "violation",
                "construct": finding.construct,
            }
        )
        self.findings.append(finding)

    def violation(self, file, function, construct, message, line=None, path=None):
        self.bad(Finding(self.rid, file, function, construct, message, line, path))

    def allowed(self, construct, reason):
        self.allow.append({"construct": norm(construct), "reason": reason})

    def note(self, text):
        self.notes.append(text)

    def guard(self, n):
        """Vacuity guard: fewer than n instances means the anchor idiom changed."""
        self.min_instances = n

    def check_guard(self):
        if self.findings:
            return  # a rule that reports a construct is not vacuous
        # tolerate small edits around the anchors (a removed call, a merged branch): the guard is there to catch
        # vacuity -- an anchor idiom that vanished so that the rule matches (almost) nothing
        if len(self.instances) < max(1, -(-self.min_instances * 6 // 10)):
            raise AnalysisError(
                "%s: only %d rule instances found, %d were confirmed by hand on the "
                "reference tree (anchor vanished or idiom changed; a human must look)"
                % (self.rid, len(self.instances), self.min_instances)
            )


def load_known():
    p = os.path.join(VERIF, "known_findings.json")
    if not os.path.exists(p):
        return {"known": [], "fixed": []}
    with open(p) as f:
        return json.load(f)


def sha(path):
    try:
        with open(path, "rb") as f:
            return hashlib.sha256(f.read()).hexdigest()[:16]
    except OSError:
        return None


def run_property(prop, rule_fns, tier="quick", explanation="", assumptions=(), files=(), level="other",
                 extra_cov=None, thorough_fn=None):
    """Run the rules of one property, print the report, write evidence, return exit code."""
    t0 = time.time()
    seed = int(os.environ.get("VERIF_SEED", "0") or 0)
    rules = []
    errors = []
    def salvage(mark):
        # a rule that stopped with "not decided" after it had already reported a construct: the report stands (a violation is
        # positive evidence and outranks the analysis error), the error is recorded as well
        for r_ in Rule.live[mark:]:
            if r_.findings and not any(r_ is x for x in rules):
                rules.append(r_)
    for fn in rule_fns:
        mark = len(Rule.live)
        try:
            res = fn()
            if isinstance(res, Rule):
                res = [res]
            for r in res:
                r.check_guard()
                rules.append(r)
        except AnalysisError as e:
            errors.append("%s: %s" % (getattr(fn, "__name__", "?"), e))
            salvage(mark)
        except Exception as e:  # a traceback is an analysis error, not a violation
            errors.append("%s: internal error %s: %s\n%s" % (getattr(fn, "__name__", "?"), type(e).__name__, e,
                                                            traceback.format_exc()))
            salvage(mark)
    del Rule.live[:]
    thorough_info = None
    if tier == "thorough" and thorough_fn is not None and not errors:
        try:
            thorough_info = thorough_fn()
        except AnalysisError as e:
            errors.append("thorough: %s" % e)
        except Exception as e:
            errors.append("thorough: internal error %s: %s\n%s" % (type(e).__name__, e, traceback.format_exc()))

    known = load_known()
    known_keys = {k["key"]: k for k in known.get("known", []) if k.get("property") == prop}
    n_inst = 0
    violations = []
    known_hits = []
    samples = []
    distinct = set()
    for r in rules:
        print("== %s  %s" % (r.rid, r.title))
        for inst in r.instances:
            n_inst += 1
            distinct.add((r.rid, inst["site"], inst.get("construct", inst["established"])))
            print("   [%s] %s: %s" % (inst["verdict"], inst["site"], inst["established"]))
        for a in r.allow:
            print("   [allow-listed] %s -- %s" % (a["construct"], a["reason"]))
        for n in r.notes:
            print("   note: %s" % n)
        for f in r.findings:
            k = f.key(prop)
            if k in known_keys:
                known_hits.append((f, known_keys[k]))
            else:
                violations.append(f)
        for inst in r.instances[:3]:
            samples.append({"rule": r.rid, "site": inst["site"], "established": inst["established"],
                            "verdict": inst["verdict"]})
    for f, k in known_hits:
        print("KNOWN-FINDING: property=%s %s [%s %s:%s %s: %s]" % (
            prop, k.get("what", f.message), f.rule, f.file, f.line, f.function, f.construct))
    # a listed finding that no longer fires is reported as information (never suppresses anything)
    hit_keys = {f.key(prop) for f, _ in known_hits}
    for k in known_keys:
        if k not in hit_keys:
            print("note: listed known finding no longer reported by its rule: %s" % k)

    replay_dir = os.path.join(VERIF, "replay")
    os.makedirs(replay_dir, exist_ok=True)
    for i, f in enumerate(violations):
        rp = os.path.join(replay_dir, "%s-%s-%d.json" % (prop, f.rule.replace(".", "_"), i))
        with open(rp, "w") as fo:
            json.dump(f.to_json(prop), fo, indent=1)
        print("   violation: %s:%s %s [%s] %s -- %s" % (f.file, f.line, f.function, f.rule, f.construct, f.message))
        print("VIOLATION property=%s replay=%s" % (prop, rp))
    for e in errors:
        print("ANALYSIS-ERROR property=%s %s" % (prop, e))

    wall = time.time() - t0
    cov = {
        "explanation": explanation,
        "evaluations": max(n_inst, 1),
        "distinct_nontrivial": len(distinct),
        "rule": "one evaluation = one rule instance (rule template with its slots filled from the repository: "
                "a call site, a field, a table row, a CFG path query); distinct = distinct (rule, site, construct); "
                "non-trivial = the anchor construct was found in the current tree and the verdict needed the analysis",
        "obligations": n_inst,
        "discharged": n_inst - sum(len(r.findings) for r in rules),
        "samples": samples[:12] or [{"note": "no instance evaluated"}],
        "rules": [{"id": r.rid, "title": r.title, "instances": len(r.instances), "violations": len(r.findings),
                   "min_instances_guard": r.min_instances, "allow_listed": r.allow, "notes": r.notes} for r in rules],
        "known_findings_reported": [f.key(prop) for f, _ in known_hits],
        "analysis_errors": errors,
        "files_digest": {p: sha(repo_path(p)) for p in files},
        "repo": REPO,
        "exhaustive": True,
    }
    if extra_cov:
        cov.update(extra_cov)
    if thorough_info is not None:
        cov["thorough"] = thorough_info
    ev = {
        "property_id": prop,
        "tier": tier,
        "seed": seed,
        "level": level,
        "coverage": cov,
        "assumptions": list(assumptions),
        "wall_s": round(wall, 3),
        "violations": len(violations),
    }
    evdir = os.environ.get("VP_EVIDENCE_DIR", os.path.join(VERIF, "evidence"))
    os.makedirs(evdir, exist_ok=True)
    with open(os.path.join(evdir, "%s.json" % prop), "w") as fo:
        json.dump(ev, fo, indent=1, default=str)
    print("-- %s: %d rules, %d instances, %d violation(s), %d known finding(s), %d analysis error(s), %.2fs" % (
        prop, len(rules), n_inst, len(violations), len(known_hits), len(errors), wall))
    if violations:
        return 1        # positive evidence from a rule that could analyse its part stands, whatever another rule could not analyse
    if errors:
        return 2
    if thorough_info is not None and thorough_info.get("failed"):
        for m in thorough_info["failed"]:
            print("ANALYSIS-ERROR property=%s self-test: %s" % (prop, m))
        return 2
    return 0
