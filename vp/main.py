"""CLI: python -m vp.main <ID> [--tier quick|thorough] [--repo PATH] [--replay FILE]"""
from __future__ import annotations

import argparse
import importlib
import json
import os
import sys
import traceback


def main(argv=None):
    ap = argparse.ArgumentParser()
    ap.add_argument("prop")
    ap.add_argument("--tier", default=os.environ.get("VERIF_TIER", "quick"), choices=["quick", "thorough"])
    ap.add_argument("--repo", default=None)
    ap.add_argument("--replay", default=None)
    ap.add_argument("--evidence-dir", default=None)
    a = ap.parse_args(argv)
    if a.repo:
        os.environ["VP_REPO"] = a.repo
    if a.evidence_dir:
        os.environ["VP_EVIDENCE_DIR"] = a.evidence_dir
    from . import core
    prop = a.prop.upper()
    try:
        mod = importlib.import_module("vp.props." + prop.lower())
    except ImportError as e:
        print("ANALYSIS-ERROR property=%s no check module: %s" % (prop, e))
        return 2
    try:
        rule_fns = mod.rules(a.repo)
        if a.replay:
            # re-run just the rule instance recorded in the replay file on the current tree
            with open(a.replay) as f:
                rp = json.load(f)
            print("replaying rule %s construct %r (%s:%s %s)" % (rp.get("rule"), rp.get("construct"), rp.get("file"),
                                                              rp.get("line"), rp.get("function")))
            still = []
            for fn in rule_fns:
                try:
                    res = fn()
                except core.AnalysisError as e:
                    print("ANALYSIS-ERROR property=%s %s" % (prop, e))
                    return 2
                for r in ([res] if isinstance(res, core.Rule) else res):
                    if r.rid != rp.get("rule"):
                        continue
                    for f_ in r.findings:
                        if f_.key(prop) == rp.get("key"):
                            still.append(f_)
            if still:
                f_ = still[0]
                print("   violation: %s:%s %s [%s] %s -- %s" % (f_.file, f_.line, f_.function, f_.rule, f_.construct, f_.message))
                for step in (f_.path or []):
                    print("      path: %s" % (step,))
                print("VIOLATION property=%s replay=%s" % (prop, a.replay))
                return 1
            print("the recorded construct is no longer reported by %s on this tree" % rp.get("rule"))
            return 0
        thorough_fn = None
        if a.tier == "thorough":
            from . import selftest
            thorough_fn = lambda: selftest.run(prop)
        return core.run_property(prop, rule_fns, tier=a.tier, explanation=mod.EXPLANATION,
                                 assumptions=mod.ASSUMPTIONS, files=mod.FILES, thorough_fn=thorough_fn)
    except Exception as e:
        print("ANALYSIS-ERROR property=%s %s: %s" % (prop, type(e).__name__, e))
        traceback.print_exc()
        return 2


if __name__ == "__main__":
    sys.exit(main())
