"""CLI: python -m vp.main <ID> [--tier quick|thorough] [--repo PATH] [--replay FILE]"""
from __future__ import annotations

import argparse
import importlib
import json
import os
import sys
import traceback


def main(argv=None):
    ap = argparse.ArgumentParser()
    ap.add_argument("prop")
    ap.add_argument("--tier", default=os.environ.get("VERIF_TIER", "quick"), choices=["quick", "thorough"])
    ap.add_argument("--repo", default=None)
    ap.add_argument("--replay", default=None)
    ap.add_argument("--evidence-dir", default=None)
    a = ap.parse_args(argv)
    if a.repo:
        os.environ["VP_REPO"] = a.repo
    if a.evidence_dir:
        os.environ["VP_EVIDENCE_DIR"] = a.evidence_dir
    from . import core
    prop = a.prop.upper()
    try:
        mod = importlib.import_module("vp.props." + prop.lower())
    except ImportError as e:
        print("ANALYSIS-ERROR property=%s no check module: %s" % (prop, e))
        return 2
    try:
        rule_fns = mod.rules(a.repo)
        if a.replay:
            with open(a.replay) as f:
                rp = json.load(f)
            print("replaying rule %s construct %r" % (rp.get("rule"), rp.get("construct")))
        thorough_fn = None
        if a.tier == "thorough":
            from . import selftest
            thorough_fn = lambda: selftest.run(prop)
        return core.run_property(prop, rule_fns, tier=a.tier, explanation=mod.EXPLANATION,
                                 assumptions=mod.ASSUMPTIONS, files=mod.FILES, thorough_fn=thorough_fn)
    except Exception as e:
        print("ANALYSIS-ERROR property=%s %s: %s" % (prop, type(e).__name__, e))
        traceback.print_exc()
        return 2


if __name__ == "__main__":
    sys.exit(main())
