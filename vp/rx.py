"""Regular-language algebra for the regexes, printf/strftime formats and globs the
repository defines.  re._parser gives the syntax tree; we compile it to an NFA
and, by subset construction over a partitioned alphabet (intervals of code
points delimited by every boundary mentioned in any pattern under comparison),
to a DFA.  Queries: emptiness of an intersection, inclusion, equivalence, each
with a shortest witness.  This is a decision procedure on syntactic objects
taken from the source; nothing is matched against sample paths.

Language convention: L(p) = { s : re.compile(p).match(s) is not None }, i.e.
anchored at the start; a pattern that does not end in `$` accepts any suffix; a
trailing `$` also accepts one final newline (Python semantics).
"""
from __future__ import annotations

import re
import re._parser as sre_parse
import re._constants as C

from .core import AnalysisError

MAXCP = 0x110000


# ---------------------------------------------------------------------------
# alphabet
# ---------------------------------------------------------------------------

class Alphabet(object):
    def __init__(self):
        self.bounds = {0, MAXCP, 10, 11, 48, 58, 65, 91, 97, 123, 95, 96, 47, 48, 32, 33, 9, 14}
        self.frozen = False

    def add_range(self, lo, hi):
        if self.frozen:
            raise AnalysisError("alphabet already frozen")
        self.bounds.add(lo)
        self.bounds.add(hi + 1)

    def add_text(self, s):
        for ch in s:
            self.add_range(ord(ch), ord(ch))

    def freeze(self):
        self.frozen = True
        self.cuts = sorted(self.bounds)
        self.n = len(self.cuts) - 1
        self.index = {self.cuts[i]: i for i in range(self.n)}

    def syms(self, lo, hi):
        """symbol indices covering [lo, hi]"""
        import bisect
        a = bisect.bisect_right(self.cuts, lo) - 1
        b = bisect.bisect_right(self.cuts, hi) - 1
        if self.cuts[a] != lo or self.cuts[b + 1] != hi + 1:
            raise AnalysisError("range %r-%r not aligned with alphabet partition" % (lo, hi))
        return set(range(a, b + 1))

    def all(self):
        return set(range(self.n))

    def rep(self, sym):
        lo, hi = self.cuts[sym], self.cuts[sym + 1] - 1
        for pref in ("x", "X", "7", "_"):
            if lo <= ord(pref) <= hi:
                return pref
        for cp in range(lo, min(hi, lo + 200) + 1):
            ch = chr(cp)
            if ch.isprintable() and not ch.isspace():
                return ch
        return chr(lo)


CATS = {
    C.CATEGORY_DIGIT: [(48, 57)],
    C.CATEGORY_SPACE: [(9, 13), (32, 32)],
    C.CATEGORY_WORD: [(48, 57), (65, 90), (97, 122), (95, 95)],
}
NEGCATS = {C.CATEGORY_NOT_DIGIT: C.CATEGORY_DIGIT, C.CATEGORY_NOT_SPACE: C.CATEGORY_SPACE,
           C.CATEGORY_NOT_WORD: C.CATEGORY_WORD}


def _collect(tree, al):
    for op, av in tree:
        if op is C.LITERAL or op is C.NOT_LITERAL:
            al.add_range(av, av)
        elif op is C.IN:
            for o2, a2 in av:
                if o2 is C.LITERAL:
                    al.add_range(a2, a2)
                elif o2 is C.RANGE:
                    al.add_range(a2[0], a2[1])
        elif op is C.BRANCH:
            for t in av[1]:
                _collect(t, al)
        elif op is C.SUBPATTERN:
            _collect(av[3], al)
        elif op in (C.MAX_REPEAT, C.MIN_REPEAT):
            _collect(av[2], al)
        elif op in (C.ASSERT, C.ASSERT_NOT):
            _collect(av[1], al)


# ---------------------------------------------------------------------------
# NFA
# ---------------------------------------------------------------------------

class NFA(object):
    def __init__(self, al):
        self.al = al
        self.eps = []
        self.tr = []  # list of list of (symset, target)

    def state(self):
        self.eps.append([])
        self.tr.append([])
        return len(self.eps) - 1

    def e(self, a, b):
        self.eps[a].append(b)

    def t(self, a, syms, b):
        self.tr[a].append((frozenset(syms), b))

    def closure(self, states):
        seen = set(states)
        st = list(states)
        while st:
            a = st.pop()
            for b in self.eps[a]:
                if b not in seen:
                    seen.add(b)
                    st.append(b)
        return frozenset(seen)


class DFA(object):
    """Complete DFA: trans[state][sym] -> state."""

    def __init__(self, al, trans, accept, start=0):
        self.al = al
        self.trans = trans
        self.accept = accept
        self.start = start

    def complement(self):
        return DFA(self.al, self.trans, set(range(len(self.trans))) - set(self.accept), self.start)

    def product(self, other, mode):
        al = self.al
        idx = {(self.start, other.start): 0}
        order = [(self.start, other.start)]
        trans = []
        i = 0
        while i < len(order):
            a, b = order[i]
            row = []
            for s in range(al.n):
                p = (self.trans[a][s], other.trans[b][s])
                if p not in idx:
                    idx[p] = len(order)
                    order.append(p)
                row.append(idx[p])
            trans.append(row)
            i += 1
        acc = set()
        for (a, b), k in idx.items():
            x, y = a in self.accept, b in other.accept
            if (mode == "and" and x and y) or (mode == "or" and (x or y)) or (mode == "diff" and x and not y):
                acc.add(k)
        return DFA(al, trans, acc, 0)

    def witness(self):
        """Shortest accepted string or None if the language is empty."""
        prev = {self.start: None}
        q = [self.start]
        if self.start in self.accept:
            return ""
        while q:
            nq = []
            for a in q:
                for s in range(self.al.n):
                    b = self.trans[a][s]
                    if b not in prev:
                        prev[b] = (a, s)
                        if b in self.accept:
                            out = []
                            x = b
                            while prev[x] is not None:
                                x, sy = prev[x][0], prev[x][1]
                                out.append(self.al.rep(sy))
                            return "".join(reversed(out))
                        nq.append(b)
            q = nq
        return None

    def empty(self):
        return self.witness() is None

    def size(self):
        return len(self.trans)


def determinize(nfa, start, final):
    al = nfa.al
    s0 = nfa.closure([start])
    idx = {s0: 0}
    order = [s0]
    trans = []
    i = 0
    while i < len(order):
        S = order[i]
        row = []
        moves = {}
        for a in S:
            for syms, b in nfa.tr[a]:
                for s in syms:
                    moves.setdefault(s, set()).add(b)
        cache = {}
        for s in range(al.n):
            tgt = frozenset(moves.get(s, ()))
            if tgt not in cache:
                cache[tgt] = nfa.closure(tgt) if tgt else frozenset()
            T = cache[tgt]
            if T not in idx:
                idx[T] = len(order)
                order.append(T)
                if len(order) > 20000:
                    raise AnalysisError("DFA too large")
            row.append(idx[T])
        trans.append(row)
        i += 1
    acc = {k for S, k in idx.items() if final in S}
    return DFA(al, trans, acc, 0)


# ---------------------------------------------------------------------------
# regex -> NFA
# ---------------------------------------------------------------------------

class Compiler(object):
    def __init__(self, al):
        self.al = al
        self.nfa = NFA(al)
        self.groups = set()
        self.notes = []

    def charset(self, items, negate=False):
        syms = set()
        for op, av in items:
            if op is C.NEGATE:
                negate = True
            elif op is C.LITERAL:
                syms |= self.al.syms(av, av)
            elif op is C.RANGE:
                syms |= self.al.syms(av[0], av[1])
            elif op is C.CATEGORY:
                if av in CATS:
                    self.notes.append("category %s approximated by its ASCII members" % av)
                    for lo, hi in CATS[av]:
                        syms |= self.al.syms(lo, hi)
                elif av in NEGCATS:
                    s2 = set()
                    for lo, hi in CATS[NEGCATS[av]]:
                        s2 |= self.al.syms(lo, hi)
                    syms |= self.al.all() - s2
                else:
                    raise AnalysisError("unsupported regex category %s" % av)
            else:
                raise AnalysisError("unsupported charset item %s" % op)
        return (self.al.all() - syms) if negate else syms

    def flatten(self, tree):
        """Inline capturing/non-capturing groups whose content is a plain sequence."""
        out = []
        for op, av in tree:
            if op is C.SUBPATTERN:
                gid, add, dele, sub = av
                if add or dele:
                    raise AnalysisError("inline regex flags are not supported")
                out.extend(self.flatten(sub))
            else:
                out.append((op, av))
        return out

    def seq(self, items, a):
        """Compile item list starting at state a; returns end state.  Handles a negative look-ahead
        exactly: L(items[i:]) = L(items[i+1:]) & ~(L(X).Sigma*)."""
        items = self.flatten(items)
        for i, (op, av) in enumerate(items):
            if op is C.ASSERT_NOT:
                direction, sub = av
                if direction != 1:
                    raise AnalysisError("look-behind is not supported")
                rest = Compiler(self.al)
                rs = rest.nfa.state()
                re_ = rest.seq(items[i + 1:], rs)
                d_rest = determinize(rest.nfa, rs, re_)
                xs = Compiler(self.al)
                x0 = xs.nfa.state()
                x1 = xs.seq(list(sub), x0)
                xs.nfa.t(x1, self.al.all(), x1)
                d_x = determinize(xs.nfa, x0, x1)
                prod = d_rest.product(d_x, "diff")
                return self.embed(prod, a)
            if op is C.ASSERT:
                raise AnalysisError("positive look-ahead is not supported")
            a = self.item(op, av, a)
        return a

    def embed(self, dfa, a):
        base = [self.nfa.state() for _ in range(dfa.size())]
        end = self.nfa.state()
        self.nfa.e(a, base[dfa.start])
        for s, row in enumerate(dfa.trans):
            by = {}
            for sym, t in enumerate(row):
                by.setdefault(t, set()).add(sym)
            for t, syms in by.items():
                self.nfa.t(base[s], syms, base[t])
            if s in dfa.accept:
                self.nfa.e(base[s], end)
        return end

    def item(self, op, av, a):
        n = self.nfa
        al = self.al
        if op is C.LITERAL:
            b = n.state()
            n.t(a, al.syms(av, av), b)
            return b
        if op is C.NOT_LITERAL:
            b = n.state()
            n.t(a, al.all() - al.syms(av, av), b)
            return b
        if op is C.ANY:
            b = n.state()
            n.t(a, al.all() - al.syms(10, 10), b)
            return b
        if op is C.IN:
            b = n.state()
            n.t(a, self.charset(av), b)
            return b
        if op is C.BRANCH:
            end = n.state()
            for t in av[1]:
                s = n.state()
                n.e(a, s)
                e = self.seq(list(t), s)
                n.e(e, end)
            return end
        if op is C.SUBPATTERN:
            return self.seq(list(av[3]), a)
        if op in (C.MAX_REPEAT, C.MIN_REPEAT):
            lo, hi, sub = av
            cur = a
            for _ in range(lo):
                cur = self.seq(list(sub), cur)
            if hi is C.MAXREPEAT:
                loop = n.state()
                n.e(cur, loop)
                e = self.seq(list(sub), loop)
                n.e(e, loop)
                return loop
            end = n.state()
            n.e(cur, end)
            for _ in range(hi - lo):
                cur = self.seq(list(sub), cur)
                n.e(cur, end)
            return end
        if op is C.AT:
            if av is C.AT_BEGINNING or av is C.AT_BEGINNING_STRING:
                # only valid where nothing has been consumed; we accept it at position 0 of the pattern
                return a
            raise AnalysisError("anchor %s in unsupported position" % av)
        raise AnalysisError("unsupported regex construct %s" % op)


def _strip_end(tree):
    items = list(tree)
    ends = False
    while items and items[-1][0] is C.AT and items[-1][1] in (C.AT_END, C.AT_END_STRING):
        ends = True
        items.pop()
    for op, av in items:
        if op is C.AT and av in (C.AT_END, C.AT_END_STRING):
            raise AnalysisError("`$` in a non-final position is not supported")
    return items, ends


class Lang(object):
    """A regular language over a shared alphabet."""

    def __init__(self, dfa, desc):
        self.dfa = dfa
        self.desc = desc

    def __and__(self, o):
        return Lang(self.dfa.product(o.dfa, "and"), "(%s & %s)" % (self.desc, o.desc))

    def __or__(self, o):
        return Lang(self.dfa.product(o.dfa, "or"), "(%s | %s)" % (self.desc, o.desc))

    def __sub__(self, o):
        return Lang(self.dfa.product(o.dfa, "diff"), "(%s - %s)" % (self.desc, o.desc))

    def witness(self):
        return self.dfa.witness()

    def empty(self):
        return self.dfa.empty()

    def subset_of(self, o):
        """(True, None) or (False, witness in self but not in o)"""
        w = (self - o).witness()
        return (w is None, w)

    def equals(self, o):
        w1 = (self - o).witness()
        w2 = (o - self).witness()
        return (w1 is None and w2 is None, w1, w2)


class Space(object):
    """A set of patterns compiled over one shared alphabet."""

    def __init__(self, patterns, texts=()):
        """patterns: dict name -> regex source (str)"""
        self.al = Alphabet()
        self.trees = {}
        for name, p in patterns.items():
            try:
                t = sre_parse.parse(p)
            except re.error as e:
                raise AnalysisError("regex %s does not parse: %s" % (name, e))
            self.trees[name] = t
            _collect(t, self.al)
        for t in texts:
            self.al.add_text(t)
        self.al.freeze()
        self.langs = {}
        self.groups = {}
        for name, t in self.trees.items():
            self.langs[name] = self._compile(t, name)
            self.groups[name] = dict(t.state.groupdict)

    def _compile(self, tree, name, fullmatch=False):
        items, ends = _strip_end(tree)
        c = Compiler(self.al)
        s = c.nfa.state()
        tail = []
        # tail: `$` -> optional final newline; no `$` -> any suffix (match semantics)
        if ends:
            tail = [(C.MAX_REPEAT, (0, 1, [(C.LITERAL, 10)]))]
        elif not fullmatch:
            tail = [(C.MAX_REPEAT, (0, C.MAXREPEAT, [(C.IN, [(C.NEGATE, None)])]))]
        e = c.seq(items + tail, s)
        return Lang(determinize(c.nfa, s, e), name)

    def __getitem__(self, name):
        return self.langs[name]

    def regex(self, name, pattern, fullmatch=False):
        """Compile an additional pattern over the frozen alphabet (its literals must already be known)."""
        t = sre_parse.parse(pattern)
        l = self._compile(t, name, fullmatch)
        self.langs[name] = l
        return l

    def any(self):
        return self._any()

    def _any(self):
        c = Compiler(self.al)
        s = c.nfa.state()
        c.nfa.t(s, self.al.all(), s)
        return Lang(determinize(c.nfa, s, s), "<any>")


# ---------------------------------------------------------------------------
# formats and globs -> regex source
# ---------------------------------------------------------------------------

def _esc(s):
    return re.escape(s)


def printf_to_regex(fmt, bounded=None):
    """Translate a printf / Python %-format into a regex source.  `bounded` maps directive index ->
    number of digits N when the argument is syntactically bounded below 10**N (then a zero-padded
    width-N directive is exactly [0-9]{N}); unbounded zero-padded width-N is [0-9]{N,}; plain integer
    directives are 0|[1-9][0-9]*.  %s is `.*` restricted to no '/' and no newline... (returned as
    [^/\\n]*).  Returns (regex, directives)."""
    bounded = bounded or {}
    out = []
    i = 0
    k = 0
    dirs = []
    pat = re.compile(r"%(?P<flags>[0 #+-]*)(?P<width>\d+)?(?:\.(?P<prec>\d+))?(?P<len>hh|h|ll|l|L|z|j|t)?(?P<conv>[diuxXsfc%])")
    while i < len(fmt):
        if fmt[i] == "%":
            m = pat.match(fmt, i)
            if not m:
                raise AnalysisError("unsupported format directive in %r" % fmt)
            conv = m.group("conv")
            if conv == "%":
                out.append(_esc("%"))
            elif conv in "diu":
                width = int(m.group("width") or 0)
                zero = "0" in (m.group("flags") or "")
                if width and zero:
                    if bounded.get(k) == width:
                        out.append("[0-9]{%d}" % width)
                    else:
                        out.append("[0-9]{%d,}" % width)
                elif width:
                    raise AnalysisError("space-padded integer directive in %r" % fmt)
                else:
                    out.append("(?:0|[1-9][0-9]*)")
                dirs.append((k, m.group(0)))
                k += 1
            elif conv == "s":
                out.append("[^/\\n]*")
                dirs.append((k, m.group(0)))
                k += 1
            else:
                raise AnalysisError("unsupported conversion %%%s in %r" % (conv, fmt))
            i = m.end()
        else:
            out.append(_esc(fmt[i]))
            i += 1
    return "".join(out) + "$", dirs


STRFTIME = {"Y": "[0-9]{4}", "m": "[0-9]{2}", "d": "[0-9]{2}", "H": "[0-9]{2}", "M": "[0-9]{2}", "S": "[0-9]{2}"}


def strftime_to_regex(fmt):
    out = []
    i = 0
    while i < len(fmt):
        if fmt[i] == "%":
            c = fmt[i + 1]
            if c not in STRFTIME:
                raise AnalysisError("unsupported strftime directive %%%s" % c)
            out.append(STRFTIME[c])
            i += 2
        else:
            out.append(_esc(fmt[i]))
            i += 1
    return "".join(out) + "$"


def glob_to_regex(g):
    """fnmatch semantics on one path component (no separators)."""
    out = []
    i = 0
    while i < len(g):
        ch = g[i]
        if ch == "*":
            out.append("[^/\\n]*")
        elif ch == "?":
            out.append("[^/\\n]")
        elif ch == "[":
            j = g.index("]", i)
            out.append(g[i:j + 1])
            i = j
        else:
            out.append(_esc(ch))
        i += 1
    return "".join(out) + "$"
