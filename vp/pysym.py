"""Symbolic straight-line evaluation of Python integer expressions and a canonical form for nested floor divisions.

`seq_env` walks statements in source order (entering compound statements) and keeps, for every local name, its
latest value with earlier locals substituted; `canon` turns such an expression into a structural normal form over
leaves in which
    a * b            -> ('mul', sorted factors)          (flattened)
    (a // b) // c    -> ('fdiv', a, sorted(b, c))        (valid for positive integer divisors)
    int(x), np.uint64(x), np.int64(x) -> x
    self._name / self.name -> leaf 'name'
Anything else is an opaque leaf with its normalised source, so two expressions have the same canonical form only if
they are the same function of the same leaves.
"""
from __future__ import annotations

import ast
import copy

from .core import norm
from . import pyfront


class _Subst(ast.NodeTransformer):
    def __init__(self, env):
        self.env = env

    def visit_Name(self, node):
        if isinstance(node.ctx, ast.Load) and node.id in self.env:
            return copy.deepcopy(self.env[node.id])
        return node


class Env(dict):
    """environment of seq_env; `branch_dependent` = names whose value at the end depends on which branch ran (assigned under an
    if / loop / try and also elsewhere, or only under one).  Straight-line substitution of such a name would silently pick the
    textually last assignment, so `subst` refuses (AnalysisError) - the caller's rule is then not decided instead of wrong."""
    branch_dependent = frozenset()


def subst(expr, env):
    bd = getattr(env, "branch_dependent", None)
    if bd:
        used = {n.id for n in ast.walk(expr) if isinstance(n, ast.Name) and isinstance(n.ctx, ast.Load)} & set(bd)
        if used:
            from .core import AnalysisError
            raise AnalysisError("the value of `%s` depends on which branch ran; straight-line symbolic evaluation does not decide `%s`" % (
                sorted(used)[0], norm(ast.unparse(expr))[:60]))
    return _Subst(env).visit(copy.deepcopy(expr))


def seq_env(stmts, env=None, stop=None, conditional=None, _depth=0, track=True):
    """Process `stmts` in order; returns env {name: expression over leaves}.  `stop`: an ast node at which evaluation ends
    (raises StopIteration internally).  `conditional`: optional set collecting names assigned under a branch or loop.
    The returned Env records the names whose value depends on which branch ran; `subst` refuses to substitute them.  A caller
    that compares the *same* expression under two modes and treats the dependence on branches by other means passes
    track=False (then the textually last assignment stands for the name, as the comparison only needs the same text twice)."""
    if env is None:
        env = Env()
    elif not isinstance(env, Env):
        env = Env(env)          # callers must use the returned environment
    bd = set(env.branch_dependent)

    class Done(Exception):
        pass

    def run(sts, cond):
        for st in sts:
            if st is stop:
                raise Done()
            if isinstance(st, ast.Assign) and len(st.targets) == 1 and isinstance(st.targets[0], ast.Name):
                dep = bool({n.id for n in ast.walk(st.value) if isinstance(n, ast.Name)} & bd)
                env[st.targets[0].id] = _Subst(env).visit(copy.deepcopy(st.value))
                if cond or dep:
                    bd.add(st.targets[0].id)
                    if conditional is not None:
                        conditional.add(st.targets[0].id)
                else:
                    bd.discard(st.targets[0].id)      # an unconditional assignment fixes the value again
            elif isinstance(st, ast.AugAssign) and isinstance(st.target, ast.Name):
                old = env.get(st.target.id, ast.Name(st.target.id, ast.Load()))
                dep = bool(({n.id for n in ast.walk(st.value) if isinstance(n, ast.Name)} | {st.target.id}) & bd)
                env[st.target.id] = ast.BinOp(copy.deepcopy(old), st.op, _Subst(env).visit(copy.deepcopy(st.value)))
                if cond or dep:
                    bd.add(st.target.id)
                    if conditional is not None:
                        conditional.add(st.target.id)
            elif isinstance(st, (ast.FunctionDef, ast.ClassDef)):
                continue
            else:
                if stop is not None and any(x is stop for x in ast.walk(st)) and not hasattr(st, "body"):
                    raise Done()
                if isinstance(st, (ast.For,)):
                    for t in ast.walk(st.target):
                        if isinstance(t, ast.Name):
                            env.pop(t.id, None)
                # the body of a try whose every handler leaves (continue / break / return / raise) runs to its end whenever the
                # code after it is reached: its assignments are not branch-dependent there
                leaves = isinstance(st, ast.Try) and st.handlers and all(
                    h.body and isinstance(h.body[-1], (ast.Continue, ast.Break, ast.Return, ast.Raise)) for h in st.handlers)
                for fld in ("body", "orelse", "finalbody"):
                    sub = getattr(st, fld, None)
                    if sub:
                        run(sub, cond or (isinstance(st, (ast.If, ast.For, ast.While, ast.Try)) and not (leaves and fld == "body")))
                for h in getattr(st, "handlers", []) or []:
                    run(h.body, True)

    try:
        run(stmts, False)
    except Done:
        pass
    env.branch_dependent = frozenset(bd) if track else frozenset()
    return env


CASTS = ("int", "np.uint64", "np.int64", "numpy.uint64", "numpy.int64", "long")


def canon(e):
    """canonical nested tuple (see module docstring)"""
    if isinstance(e, ast.Call) and pyfront.call_name(e) in CASTS and len(e.args) == 1 and not e.keywords:
        return canon(e.args[0])
    if isinstance(e, ast.BinOp) and isinstance(e.op, ast.Mult):
        fs = []
        for side in (e.left, e.right):
            c = canon(side)
            if c[0] == "mul":
                fs.extend(c[1])
            else:
                fs.append(c)
        return ("mul", tuple(sorted(fs, key=repr)))
    if isinstance(e, ast.BinOp) and isinstance(e.op, ast.FloorDiv):
        num = canon(e.left)
        den = canon(e.right)
        dens = list(den[1]) if den[0] == "mul" else [den]
        if num[0] == "fdiv":
            return ("fdiv", num[1], tuple(sorted(list(num[2]) + dens, key=repr)))
        return ("fdiv", num, tuple(sorted(dens, key=repr)))
    if isinstance(e, ast.BinOp) and isinstance(e.op, (ast.Add, ast.Sub)):
        return ("add" if isinstance(e.op, ast.Add) else "sub", canon(e.left), canon(e.right))
    if isinstance(e, ast.Constant):
        return ("const", e.value)
    d = pyfront.dotted(e)
    if d is not None:
        if d.startswith("self."):
            d = d[5:].lstrip("_")
        return ("leaf", d)
    return ("opaque", norm(ast.unparse(e)))


def show(c):
    if c[0] == "mul":
        return " * ".join(show(x) for x in c[1])
    if c[0] == "fdiv":
        return "floor(%s / (%s))" % (show(c[1]), " * ".join(show(x) for x in c[2]))
    if c[0] in ("add", "sub"):
        return "(%s %s %s)" % (show(c[1]), "+" if c[0] == "add" else "-", show(c[2]))
    return str(c[1])


def rename_leaf(c, frm, to):
    if c[0] == "leaf":
        return ("leaf", to) if c[1] == frm else c
    if c[0] == "mul":
        return ("mul", tuple(sorted((rename_leaf(x, frm, to) for x in c[1]), key=repr)))
    if c[0] == "fdiv":
        return ("fdiv", rename_leaf(c[1], frm, to), tuple(sorted((rename_leaf(x, frm, to) for x in c[2]), key=repr)))
    if c[0] in ("add", "sub"):
        return (c[0], rename_leaf(c[1], frm, to), rename_leaf(c[2], frm, to))
    return c


def leaves(c):
    if c[0] == "leaf":
        return {c[1]}
    out = set()
    for x in c[1:]:
        if isinstance(x, tuple) and x and isinstance(x[0], str) and x[0] in ("leaf", "mul", "fdiv", "add", "sub", "const", "opaque"):
            out |= leaves(x)
        elif isinstance(x, tuple):
            for y in x:
                if isinstance(y, tuple):
                    out |= leaves(y)
    return out


def linform(e, env=None):
    """Linear form {leaf name: coefficient, 1: constant} of an integer expression built from + - and multiplication by
    constants over leaves (names, self attributes); None if not linear.  Locals in env are substituted first."""
    if env:
        e = subst(e, env)

    def go(x):
        if isinstance(x, ast.Constant) and isinstance(x.value, int) and not isinstance(x.value, bool):
            return {1: x.value}
        if isinstance(x, ast.BinOp) and isinstance(x.op, (ast.Add, ast.Sub)):
            a, b = go(x.left), go(x.right)
            if a is None or b is None:
                return None
            out = dict(a)
            for k, v in b.items():
                out[k] = out.get(k, 0) + (v if isinstance(x.op, ast.Add) else -v)
            return out
        if isinstance(x, ast.UnaryOp) and isinstance(x.op, ast.USub):
            a = go(x.operand)
            return None if a is None else {k: -v for k, v in a.items()}
        if isinstance(x, ast.BinOp) and isinstance(x.op, ast.Mult):
            a, b = go(x.left), go(x.right)
            if a is None or b is None:
                return None
            if set(a) <= {1}:
                return {k: v * a.get(1, 0) for k, v in b.items()}
            if set(b) <= {1}:
                return {k: v * b.get(1, 0) for k, v in a.items()}
            return None
        if isinstance(x, ast.Call) and pyfront.call_name(x) in CASTS and len(x.args) == 1:
            return go(x.args[0])
        c = canon(x)
        if c[0] == "leaf":
            return {c[1]: 1}
        return None
    out = go(e)
    if out is None:
        return None
    return {k: v for k, v in out.items() if v != 0 or k == 1}
