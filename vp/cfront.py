"""C front-end: clang's type-resolved JSON AST, wrapped in a light node class.

    clang -fsyntax-only -Xclang -ast-dump=json -Xclang -ast-dump-filter=<prefix> ...

The filtered dump is a sequence of JSON documents (one per matching
declaration).  Every expression carries its C type, callees are resolved
(referencedDecl), implicit conversions are explicit nodes, and byte offsets let
us recover the *spelled* source of any node (so macro names such as
H5F_ACC_EXCL are available by name).
"""
from __future__ import annotations

import bisect
import hashlib
import json
import os
import pickle
import re
import subprocess
import sysconfig

from .core import AnalysisError, REPO, VERIF, norm

HDF5_INC = "/usr/include/hdf5/serial"
TRANSPARENT = ("ImplicitCastExpr", "ParenExpr", "ConstantExpr")


class CNode(object):
    __slots__ = ("d", "kind", "children", "parent", "tu", "_b", "_e")

    def __init__(self, d, tu, parent=None):
        self.d = d
        self.kind = d.get("kind")
        self.parent = parent
        self.tu = tu
        self.children = [CNode(c, tu, self) for c in d.get("inner", [])]
        self._b = self._e = None

    # -- basic attributes -------------------------------------------------
    @property
    def type(self):
        return (self.d.get("type") or {}).get("qualType", "")

    @property
    def name(self):
        return self.d.get("name")

    @property
    def opcode(self):
        return self.d.get("opcode")

    @property
    def value(self):
        return self.d.get("value")

    @property
    def ref(self):
        r = self.d.get("referencedDecl")
        return r.get("name") if r else None

    @property
    def refkind(self):
        r = self.d.get("referencedDecl")
        return r.get("kind") if r else None

    def _loc(self, which):
        r = self.d.get("range") or {}
        x = r.get(which) or {}
        if "expansionLoc" in x:
            x = x["expansionLoc"]
        return x

    @property
    def begin(self):
        if self._b is None:
            b = self._loc("begin").get("offset")
            if b is None:
                b = -1
            self._b = b
        return self._b

    @property
    def end(self):
        if self._e is None:
            raw = (self.d.get("range") or {}).get("end") or {}
            x = self._loc("end")
            off = x.get("offset")
            e = -1 if off is None else off + x.get("tokLen", 0)
            if e >= 0 and "expansionLoc" in raw and x.get("isMacroArgExpansion") is None:
                # function-like macro invocation: the expansion location covers only the macro name;
                # extend to the matching parenthesis so that .src is the spelled invocation
                t = self.tu.text
                j = e
                while j < len(t) and t[j] in " \t":
                    j += 1
                if j < len(t) and t[j] == "(" and t[off:e].isidentifier():
                    depth = 0
                    k = j
                    while k < len(t):
                        if t[k] == "(":
                            depth += 1
                        elif t[k] == ")":
                            depth -= 1
                            if depth == 0:
                                e = k + 1
                                break
                        k += 1
            self._e = e
        return self._e

    @property
    def line(self):
        return self.tu.line_of(self.begin) if self.begin >= 0 else None

    @property
    def src_begin(self):
        """offset of the node in the source text (differs from `begin` only for nodes of a normalised function)"""
        return getattr(self, "_sb", self.begin) if type(self) is not CNode else self.begin

    @property
    def src_end(self):
        return getattr(self, "_se", self.end) if type(self) is not CNode else self.end

    @property
    def src(self):
        if self.begin < 0 or self.end < 0:
            return ""
        return self.tu.text[self.begin:self.end]

    @property
    def nsrc(self):
        return norm(self.src)

    # -- navigation -------------------------------------------------------
    def walk(self):
        stack = [self]
        while stack:
            n = stack.pop()
            yield n
            stack.extend(reversed(n.children))

    def find(self, kind):
        return [n for n in self.walk() if n.kind == kind]

    def strip(self, casts=False):
        """Skip implicit casts / parentheses (and explicit casts if casts=True)."""
        n = self
        while n.kind in TRANSPARENT or (casts and n.kind == "CStyleCastExpr"):
            if not n.children:
                break
            n = n.children[-1] if n.kind == "CStyleCastExpr" else n.children[0]
        return n

    def ancestors(self):
        p = self.parent
        while p is not None:
            yield p
            p = p.parent

    def function(self):
        for a in self.ancestors():
            if a.kind == "FunctionDecl":
                return a
        return None

    # -- calls ------------------------------------------------------------
    @property
    def callee(self):
        if self.kind != "CallExpr" or not self.children:
            return None
        c = self.children[0].strip()
        if c.kind == "DeclRefExpr":
            return c.ref
        return None

    @property
    def args(self):
        return self.children[1:] if self.kind == "CallExpr" else []

    def calls(self, names=None):
        out = []
        for n in self.walk():
            if n.kind == "CallExpr" and (names is None or n.callee in names):
                out.append(n)
        return out

    # -- access paths -----------------------------------------------------
    def path(self):
        """Access path of an lvalue-ish expression: 'obj->field', 'arr[i]', '*p', '&x', or None."""
        n = self.strip(casts=True)
        k = n.kind
        if k == "DeclRefExpr":
            return n.ref
        if k == "MemberExpr":
            base = n.children[0].path() if n.children else None
            if base is None:
                return None
            return base + ("->" if n.d.get("isArrow") else ".") + n.name
        if k == "ArraySubscriptExpr":
            b = n.children[0].path()
            i = n.children[1].strip(casts=True)
            idx = i.value if i.kind == "IntegerLiteral" else (i.path() or "?")
            return None if b is None else "%s[%s]" % (b, idx)
        if k == "UnaryOperator" and n.opcode in ("*", "&"):
            b = n.children[0].path()
            if b is not None and n.opcode == "*" and b.startswith("&"):
                return b[1:]        # *&x is x (arises when a pointer parameter is substituted by an address-of argument)
            return None if b is None else n.opcode + b
        return None

    def field(self):
        """If this is obj->field (through casts), the field name."""
        n = self.strip(casts=True)
        if n.kind == "MemberExpr":
            return n.name
        return None

    def is_float(self):
        t = self.type.replace("const ", "").strip()
        return t in ("float", "double", "long double")

    def intval(self):
        """Integer constant value of a literal / negated literal / cast literal, else None."""
        n = self.strip(casts=True)
        if n.kind == "IntegerLiteral":
            return int(n.value)
        if n.kind == "UnaryOperator" and n.opcode == "-":
            v = n.children[0].intval()
            return None if v is None else -v
        if n.kind == "CharacterLiteral":
            return int(n.value)
        if n.kind == "DeclRefExpr" and n.refkind == "EnumConstantDecl":
            return self.tu.enum_value(n.ref)      # enumerators declared in the analysed file itself
        return None

    def strval(self):
        n = self.strip(casts=True)
        if n.kind == "StringLiteral":
            try:
                return json.loads(n.value)
            except Exception:
                return n.value.strip('"')
        return None

    def __repr__(self):
        return "<%s %s L%s>" % (self.kind, self.nsrc[:50], self.line)


STMT_KINDS = ("CompoundStmt", "IfStmt", "WhileStmt", "ForStmt", "SwitchStmt", "CaseStmt", "DefaultStmt",
              "BreakStmt", "ReturnStmt", "DeclStmt", "NullStmt")
UNSUPPORTED = ("IndirectGotoStmt",)


def _strip_parens(d):
    while isinstance(d, dict) and d.get("kind") in ("ParenExpr",) and len(d.get("inner", [])) == 1:
        d = d["inner"][0]
    return d


def _has_call(d):
    if not isinstance(d, dict):
        return False
    if d.get("kind") == "CallExpr":
        return True
    return any(_has_call(c) for c in d.get("inner", []))


def _lower_conditionals(d):
    """Statement-level conditional expressions whose arms call something are control flow written as an expression:
    `return c ? f() : g();` and `x = c ? f() : g();` are rewritten (on the JSON tree, before any analysis sees it) into the
    if / else they abbreviate, so that guards, status use and typestate are decided on one form.  Value selections without
    calls (`c ? 1 : 0`) stay expressions."""
    if not isinstance(d, dict):
        return d
    inner = d.get("inner")
    if not inner:
        return d
    out = []
    for c in inner:
        c = _lower_conditionals(c)
        if isinstance(c, dict) and d.get("kind") in ("CompoundStmt", "IfStmt", "ForStmt", "WhileStmt", "DoStmt", "LabelStmt", "CaseStmt", "DefaultStmt"):
            k = c.get("kind")
            if k == "ReturnStmt" and len(c.get("inner", [])) == 1:
                e = _strip_parens(c["inner"][0])
                if e.get("kind") == "ConditionalOperator" and len(e.get("inner", [])) == 3 and (_has_call(e["inner"][1]) or _has_call(e["inner"][2])):
                    cnd, a, b = e["inner"]
                    c = {"kind": "IfStmt", "range": c.get("range"), "hasElse": True, "id": c.get("id"), "inner": [
                        cnd, {"kind": "ReturnStmt", "range": a.get("range"), "inner": [a]},
                        {"kind": "ReturnStmt", "range": b.get("range"), "inner": [b]}]}
            elif k == "BinaryOperator" and c.get("opcode") == "=" and len(c.get("inner", [])) == 2:
                e = _strip_parens(c["inner"][1])
                if e.get("kind") == "ConditionalOperator" and len(e.get("inner", [])) == 3 and (_has_call(e["inner"][1]) or _has_call(e["inner"][2])):
                    cnd, a, b = e["inner"]
                    lhs = c["inner"][0]
                    mk = lambda arm: {"kind": "BinaryOperator", "opcode": "=", "type": c.get("type"), "valueCategory": c.get("valueCategory"),
                                      "range": {"begin": (lhs.get("range") or {}).get("begin"), "end": (arm.get("range") or {}).get("end")},
                                      "inner": [lhs, arm]}
                    c = {"kind": "IfStmt", "range": c.get("range"), "hasElse": True, "id": c.get("id"), "inner": [cnd, mk(a), mk(b)]}
        out.append(c)
    d["inner"] = out
    return d


class TU(object):
    """One translation unit: functions with bodies, record declarations, source text."""

    def __init__(self, relpath, docs, text):
        self.relpath = relpath
        self.text = text
        self._starts = [0]
        for i, ch in enumerate(text):
            if ch == "\n":
                self._starts.append(i + 1)
        self.functions = {}
        self.protos = {}
        self.records = {}
        self.vars = {}
        for d in docs:
            n = CNode(_lower_conditionals(d), self)
            if n.kind == "FunctionDecl":
                body = [c for c in n.children if c.kind == "CompoundStmt"]
                if body:
                    self.functions[n.name] = n
                else:
                    self.protos.setdefault(n.name, n)
            elif n.kind == "RecordDecl":
                self.records[n.name] = n
            elif n.kind == "VarDecl":
                self.vars[n.name] = n
        for f in self.functions.values():
            for n in f.walk():
                if n.kind in UNSUPPORTED:
                    raise AnalysisError("%s:%s: unsupported statement kind %s in %s (the structured CFG builder "
                                        "does not model it)" % (relpath, n.line, n.kind, f.name))

    def enum_value(self, name):
        """value of an enumerator declared in this source file (None for enumerators of system headers)"""
        ev = getattr(self, "_enums", None)
        if ev is None:
            ev = {}
            clean = re.sub(r"/\*.*?\*/|//[^\n]*", " ", self.text, flags=re.S)
            for m_ in re.finditer(r"\benum\b[^{;]*\{([^}]*)\}", clean):
                val = -1
                for item in m_.group(1).split(","):
                    item = item.strip()
                    if not item:
                        continue
                    if "=" in item:
                        nm, ex = [x.strip() for x in item.split("=", 1)]
                        try:
                            val = int(ex, 0)
                        except ValueError:
                            if ex in ev:
                                val = ev[ex]
                            else:
                                val = None
                    else:
                        nm = item
                        val = None if val is None else val + 1
                    if re.fullmatch(r"[A-Za-z_][A-Za-z_0-9]*", nm) and val is not None:
                        ev[nm] = val
            self._enums = ev
        return ev.get(name)

    def line_of(self, off):
        return bisect.bisect_right(self._starts, off)

    def fn(self, name):
        if name not in self.functions:
            raise AnalysisError("anchor function %s not found in %s" % (name, self.relpath))
        return self.functions[name]

    def params(self, name):
        return [c for c in self.fn(name).children if c.kind == "ParmVarDecl"]

    def body(self, name):
        return [c for c in self.fn(name).children if c.kind == "CompoundStmt"][0]


def _split_docs(s):
    dec = json.JSONDecoder()
    i = 0
    docs = []
    n = len(s)
    while i < n:
        while i < n and s[i] in " \n\r\t":
            i += 1
        if i >= n:
            break
        if s[i] != "{":
            j = s.find("\n", i)
            i = n if j < 0 else j + 1
            continue
        d, j = dec.raw_decode(s, i)
        docs.append(d)
        i = j
    return docs


def _includes(repo, ext):
    inc = ["-I" + os.path.join(repo, "c/include"), "-I" + HDF5_INC]
    if ext:
        pyinc = sysconfig.get_paths()["include"]
        npinc = None
        for base in (os.path.dirname(os.path.dirname(pyinc)),):
            pass
        # numpy headers: look next to the interpreter's site-packages without importing numpy
        import site
        cands = []
        for sp in site.getsitepackages() + [site.getusersitepackages()]:
            cands.append(os.path.join(sp, "numpy", "_core", "include"))
            cands.append(os.path.join(sp, "numpy", "core", "include"))
        for c in cands:
            if os.path.isdir(os.path.join(c, "numpy")):
                npinc = c
                break
        if npinc is None:
            raise AnalysisError("numpy C headers not found (needed to parse the extension module)")
        inc += ["-I" + pyinc, "-I" + npinc]
    return inc


_CACHE = {}


def parse(relpath, prefix, repo=None, ext=False, allow_empty=False):
    """Parse one C file of the repository; returns a TU.  Raises AnalysisError on any front-end problem."""
    repo = repo or REPO
    path = os.path.join(repo, relpath)
    if not os.path.exists(path):
        raise AnalysisError("source file %s not found" % path)
    if not os.path.isdir(HDF5_INC):
        raise AnalysisError("HDF5 headers not found at %s" % HDF5_INC)
    with open(path, "rb") as f:
        raw = f.read()
    hdr = os.path.join(repo, "c/include/digital_rf.h")
    hraw = open(hdr, "rb").read() if os.path.exists(hdr) else b""
    key = hashlib.sha256(raw + b"\0" + hraw + prefix.encode() + relpath.encode()).hexdigest()
    if key in _CACHE:
        return _CACHE[key]
    cdir = os.path.join(VERIF, ".cache")
    cpath = os.path.join(cdir, key + ".pkl")
    docs = None
    if os.path.exists(cpath):
        try:
            with open(cpath, "rb") as f:
                docs = pickle.load(f)
        except Exception:
            docs = None
    if docs is None:
        cmd = ["clang", "-fsyntax-only", "-Xclang", "-ast-dump=json", "-Xclang", "-ast-dump-filter=" + prefix]
        cmd += _includes(repo, ext) + [path]
        try:
            p = subprocess.run(cmd, stdout=subprocess.PIPE, stderr=subprocess.PIPE, timeout=300)
        except FileNotFoundError:
            raise AnalysisError("clang not found")
        err = p.stderr.decode("utf-8", "replace")
        if p.returncode != 0 or " error: " in err:
            raise AnalysisError("clang failed on %s: %s" % (relpath, err[-800:]))
        docs = _split_docs(p.stdout.decode("utf-8", "replace"))
        # keep only declarations located in repository files (drop system headers matching the filter)
        try:
            os.makedirs(cdir, exist_ok=True)
            # the cache is keyed by the digest of the sources, so every scratch variant of the self-tests adds an entry that is never
            # used again: keep it bounded (oldest entries go first)
            names = [n_ for n_ in os.listdir(cdir) if n_.endswith(".pkl")]
            if len(names) > 200:
                names.sort(key=lambda n_: os.path.getmtime(os.path.join(cdir, n_)))
                for n_ in names[:len(names) - 100]:
                    try:
                        os.remove(os.path.join(cdir, n_))
                    except OSError:
                        pass
            with open(cpath + ".tmp", "wb") as f:
                pickle.dump(docs, f)
            os.replace(cpath + ".tmp", cpath)
        except OSError:
            pass
    tu = TU(relpath, docs, raw.decode("utf-8", "replace"))
    if not tu.functions and not allow_empty:
        raise AnalysisError("no function definitions matching %r found in %s" % (prefix, relpath))
    _CACHE[key] = tu
    return tu


def discover_functions(text):
    """Names of the functions *defined* in a C source text (brace at column 0 preceded by a parameter list, the layout
    both C files use; K&R comments between `)` and `{` are skipped).  Used to ask clang for each definition by name, so
    that static helpers introduced by a refactoring are part of the analysed program."""
    import re
    names = []
    # blank out comments and string literals (keeping offsets) so that braces/parentheses inside them do not count
    def blank(m):
        return re.sub(r"[^\n]", " ", m.group(0))
    clean = re.sub(r"/\*.*?\*/|//[^\n]*|\"(?:\\.|[^\"\\\n])*\"", blank, text, flags=re.S)
    for m in re.finditer(r"^\{", clean, flags=re.M):
        i = m.start() - 1
        while i >= 0 and clean[i] in " \t\r\n":
            i -= 1
        if i < 0 or clean[i] != ")":
            continue
        depth = 0
        while i >= 0:
            if clean[i] == ")":
                depth += 1
            elif clean[i] == "(":
                depth -= 1
                if depth == 0:
                    break
            i -= 1
        j = i - 1
        while j >= 0 and clean[j] in " \t\r\n":
            j -= 1
        k = j
        while k >= 0 and (clean[k].isalnum() or clean[k] == "_"):
            k -= 1
        name = clean[k + 1:j + 1]
        if name and not name[0].isdigit() and name not in ("if", "while", "for", "switch") and name not in names:
            names.append(name)
    return names


def discover_tables(text):
    """names of file-scope constant arrays with an initialiser (`static const T name[..] = {`), e.g. tables of attribute names"""
    import re
    return list(dict.fromkeys(re.findall(r"^static\s+const\s+[^;=(){}]*?\b([A-Za-z_][A-Za-z_0-9]*)\s*\[[^\]]*\]\s*=\s*[{\"]", text, flags=re.M)))


def parse_all(relpath, repo=None, ext=False):
    """All function definitions of one C file (one filtered clang dump per discovered name, in parallel, cached)."""
    from concurrent.futures import ThreadPoolExecutor
    repo = repo or REPO
    path = os.path.join(repo, relpath)
    if not os.path.exists(path):
        raise AnalysisError("source file %s not found" % path)
    with open(path, "r", encoding="utf-8", errors="replace") as f:
        text = f.read()
    names = discover_functions(text)
    if not names:
        raise AnalysisError("no function definitions discovered in %s" % relpath)
    key = (repo, relpath, hashlib.sha256(text.encode()).hexdigest())
    if key in _ALL:
        return _ALL[key]
    def one(n):
        try:
            return parse(relpath, n, repo, ext)
        except AnalysisError as e:
            if "no function definitions matching" in str(e):
                return None  # a macro that expands to a definition (MOD_INIT(name)): found under its real name or skipped
            raise
    tables = discover_tables(text)

    def one_table(n):
        try:
            return parse(relpath, n, repo, ext, allow_empty=True)
        except AnalysisError:
            return None
    with ThreadPoolExecutor(max_workers=16) as ex:
        tus = [t for t in ex.map(one, names) if t is not None]
        ttus = [t for t in ex.map(one_table, tables) if t is not None]
    if not tus:
        raise AnalysisError("clang returned no function definition for %s" % relpath)
    m = TU.__new__(TU)
    m.relpath = relpath
    m.text = tus[0].text
    m._starts = tus[0]._starts
    m.functions = {}
    m.protos = {}
    m.records = {}
    m.vars = {}
    for t in ttus:
        m.vars.update(t.vars)
    for t in tus:
        for k, v in t.functions.items():
            m.functions.setdefault(k, v)
        for k, v in t.protos.items():
            m.protos.setdefault(k, v)
        m.records.update(t.records)
        m.vars.update(t.vars)
    for f in m.functions.values():
        for n in f.walk():
            n.tu = m
    if os.environ.get("VP_NO_CINLINE") != "1":
        from . import cinline
        cinline.normalise(m)
    _ALL[key] = m
    return m


_ALL = {}


def lib(repo=None):
    return parse_all("c/lib/rf_write_hdf5.c", repo)


def method_table(tu):
    """{python name: C function name} from the PyMethodDef initialiser of the extension module"""
    table = dict(re.findall(r'\{\s*"(\w+)"\s*,\s*(?:\(PyCFunction\)\s*)?(\w+)\s*,', tu.text))
    if len(table) < 8:
        raise AnalysisError("PyMethodDef table: %d entries found, 8 confirmed on the reference tree" % len(table))
    return table


def ext_fn(tu, pyname):
    """the C function registered for the Python-level name (whatever it is called)"""
    t = method_table(tu)
    if pyname not in t:
        raise AnalysisError("extension method `%s` is not in the PyMethodDef table" % pyname)
    return t[pyname]


def ext(repo=None):
    return parse_all("python/lib/py_rf_write_hdf5.c", repo, ext=True)
