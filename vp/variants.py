"""Built-in seeded variants for the checker self-test (thorough tier).

Each variant is one small edit (exact text replacement, unique occurrence) applied to a scratch copy of the
current sources; the named rule of the named property must report it (exit 1).  A variant whose anchor text is
no longer present in the current tree is skipped and reported as such (the repository moved on), never counted
as a pass.  `twin=True` variants are behaviour-preserving edits on which the check must stay silent.
"""
from __future__ import annotations

import os

LIB = "c/lib/rf_write_hdf5.c"
EXT = "python/lib/py_rf_write_hdf5.c"
RF = "python/digital_rf/digital_rf_hdf5.py"
DM = "python/digital_rf/digital_metadata.py"
LD = "python/digital_rf/list_drf.py"
WD = "python/digital_rf/watchdog_drf.py"
RB = "python/digital_rf/ringbuffer.py"
MR = "python/digital_rf/mirror.py"


class Skip(Exception):
    pass


def _edit(rel, old, new, count=1):
    def apply(d):
        p = os.path.join(d, rel)
        with open(p) as f:
            s = f.read()
        if s.count(old) < 1:
            raise Skip("anchor text not found in %s" % rel)
        if count == 1 and s.count(old) != 1:
            # replace the first occurrence only
            s = s.replace(old, new, 1)
        else:
            s = s.replace(old, new) if count == 0 else s.replace(old, new, count)
        with open(p, "w") as f:
            f.write(s)
    return apply


V = []


def v(props, name, rel, old, new, expect="violation", rules=(), count=1):
    V.append({"props": props if isinstance(props, (list, tuple)) else [props], "name": name, "apply": _edit(rel, old, new, count),
              "expect": expect, "rules": list(rules)})


# ---- C01 -----------------------------------------------------------------------------------------------------
v("C01", "dtype-row-wrong-order", EXT, "if (dtype_char == 'i' && bytecount == 2)\n\t\t\treturn(H5T_STD_I16LE);",
  "if (dtype_char == 'i' && bytecount == 2)\n\t\t\treturn(H5T_STD_I16BE);", rules=["C01.R1"])
v("C01", "dtype-row-wrong-width", EXT, "else if (dtype_char == 'u' && bytecount == 4)\n\t\t\treturn(H5T_STD_U32BE);",
  "else if (dtype_char == 'u' && bytecount == 4)\n\t\t\treturn(H5T_STD_U64BE);", rules=["C01.R1"])
v("C01", "dtype-row-deleted", EXT, "\t\telse if (dtype_char == 'f' && bytecount == 8)\n\t\t\treturn(H5T_IEEE_F64BE);\n", "", rules=["C01.R1"])
v(["C01", "C04"], "c-millisecond-width", LIB, '"tmp.rf@%" PRIu64 ".%03" PRIu64 ".h5"', '"tmp.rf@%" PRIu64 ".%04" PRIu64 ".h5"',
  rules=["C01.R2", "C04.R6"])
v(["C01", "C04"], "reader-name-format", RF, '"rf@%i.%03i.h5"', '"rf@%i.%02i.h5"', rules=["C01.R2"])
v(["C01", "C04"], "c-subdir-colons", LIB, '"%04i-%02i-%02iT%02i-%02i-%02i"', '"%04i-%02i-%02iT%02i:%02i:%02i"', rules=["C01.R2"])
v(["C01", "C08"], "reader-float-lookup", RF, "        start_ts = (sample0 * srd) // srn\n",
  "        start_ts = int(sample0 * srd / srn)\n", rules=["C01.R3", "C08.R4"])
v("C01", "ext-wrong-array-data", EXT, "\t\tdata = PyArray_DATA(pyNumArr);\n\t\tglobal_arr = PyArray_DATA(pyGlobalArr);",
  "\t\tdata = PyArray_DATA(pyGlobalArr);\n\t\tglobal_arr = PyArray_DATA(pyGlobalArr);", rules=["C01.R4"])
v("C01", "no-ascontiguous", RF, "        arr = np.ascontiguousarray(arr)\n        # cast array to the correct type (if possible)\n        if (",
  "        arr = np.asarray(arr)\n        # cast array to the correct type (if possible)\n        if (", rules=["C01.R4"])
v("C01", "parse-format-K-to-i", EXT, '"sssiKKKKKsiiiiii"', '"sssiKKKKisiiiiii"', rules=["C01.R5"])
v("C01", "py-call-num-den-swapped", RF, "            self.sample_rate_numerator,\n            self.sample_rate_denominator,\n            uuid_str,",
  "            self.sample_rate_denominator,\n            self.sample_rate_numerator,\n            uuid_str,", rules=["C01.R5"])
v("C01", "wrapper-cadences-swapped", EXT, "hdf5_dtype, subdir_cadence_secs, file_cadence_millisecs,",
  "hdf5_dtype, file_cadence_millisecs, subdir_cadence_secs,", rules=["C01.R5"])
v("C01", "buildvalue-order", EXT, "hour, minute, second, picosecond);", "hour, second, minute, picosecond);", rules=["C01.R5"])
v(["C01", "C08"], "index-used-raw", RF, "                    block_start_sample = int(self.rf_index[row, 0])",
  "                    block_start_sample = self.rf_index[row, 0]", rules=["C01.R6", "C08.R7"])

# ---- C02 / C09 -----------------------------------------------------------------------------------------------
v(["C02", "C09"], "no-tmp-prefix", LIB, '"tmp.rf@%" PRIu64', '"rf@%" PRIu64', rules=["C02.R1"])
v(["C02", "C09"], "strstr-needle", LIB, 'strcat(new_fullfilename, strstr(hdf5_data_object->basename, "rf"));',
  'strcat(new_fullfilename, strstr(hdf5_data_object->basename, "f@"));', rules=["C02.R1"])
v(["C02", "C09"], "remove-final", LIB, "return(remove(fullname));", "return(remove(new_fullfilename));", rules=["C02.R1"])
v(["C02", "C09"], "fclose-deleted-keep-zero", LIB,
  "\t\tif (H5Fclose (hdf5_data_object->hdf5_file) < 0)\n\t\t\thdf5_data_object->has_failure = 1;\n\t\thdf5_data_object->hdf5_file = 0;\n\t\thdf5_data_object->dataset_index = 0;\n\n\t\t/* now rename",
  "\t\thdf5_data_object->hdf5_file = 0;\n\t\thdf5_data_object->dataset_index = 0;\n\n\t\t/* now rename", rules=["C02.R2"])
v(["C02", "C09"], "awrite-between-close-and-rename", LIB,
  "\t\thdf5_data_object->hdf5_file = 0;\n\t\thdf5_data_object->dataset_index = 0;\n\n\t\t/* now rename",
  "\t\thdf5_data_object->hdf5_file = 0;\n\t\thdf5_data_object->dataset_index = 0;\n\t\tH5Awrite(hdf5_data_object->dataset, H5T_NATIVE_INT, &(hdf5_data_object->present_seq));\n\n\t\t/* now rename",
  rules=["C02.R2"])
v(["C02", "C09", "C11"], "excl-to-trunc", LIB, "H5Fcreate (fullname, H5F_ACC_EXCL,", "H5Fcreate (fullname, H5F_ACC_TRUNC,", rules=["C02.R3"])
v(["C02", "C09", "C11"], "access-test-deleted", LIB, "\tif( access( finished_fullname, F_OK ) != -1 )\n\t{", "\tif( 0 )\n\t{", rules=["C02.R3", "C11.R3"])
v(["C02", "C09"], "reader-opens-rplus", RF, 'fullfile, "r", rdcc_nbytes=self.rdcc_nbytes', 'fullfile, "r+", rdcc_nbytes=self.rdcc_nbytes', rules=["C02.R3"])
v(["C02", "C09", "C14"], "dmdfile-allows-tmp", LD, 'RE_DMDFILE = RE_FILENAME + r"@(?P<secs>[0-9]+)\\.h5$"',
  'RE_DMDFILE = r"(?P<name>[^/]+?)@(?P<secs>[0-9]+)\\.h5$"', rules=["C02.R5", "C14.R1"])
v(["C02"], "fopen-added", LIB, "\t/* last we add metadata */\n", "\t{ FILE * fp = fopen(finished_fullname, \"a\"); if (fp) fclose(fp); }\n\t/* last we add metadata */\n", rules=["C02.R3"])

# ---- C04 -----------------------------------------------------------------------------------------------------
v("C04", "millisec-through-float", LIB, "sample_millisec = sample_sec * 1000 + picosecond / 1000000000;",
  "sample_millisec = (uint64_t)(((long double)global_sample / hdf5_data_object->sample_rate) * 1000.0L);", rules=["C04.R1"])
v("C04", "floor-in-ceil-helper", LIB, "\tquotient += (remainder != 0);\n", "\tquotient += (uint64_t)floor((double)(remainder != 0));\n", rules=["C04.R1"])
v("C04", "name-from-cursor", LIB, "\tglobal_sample += hdf5_data_object->global_start_sample;\n",
  "\tglobal_sample += hdf5_data_object->global_start_sample + (hdf5_data_object->global_index & 0);\n", rules=["C04.R2"])
v("C04", "clock-in-subdir", LIB, "\tdir_sec = (sample_sec / hdf5_data_object->subdir_cadence_secs) * hdf5_data_object->subdir_cadence_secs;",
  "\tdir_sec = (sample_sec / hdf5_data_object->subdir_cadence_secs) * hdf5_data_object->subdir_cadence_secs + (time(NULL) & 0);", rules=["C04.R2"])
v("C04", "config-field-modified", LIB, "\t/* advance state */\n", "\thdf5_data_object->file_cadence_millisecs += 0;\n\t/* advance state */\n", rules=["C04.R2"])
v("C04", "second-ceil-on-current-file", LIB, "digital_rf_get_sample_ceil(next_file_sec_part, next_file_millisec_part * 1000000000,",
  "digital_rf_get_sample_ceil(next_file_sec_part, file_millisec_part * 1000000000,", rules=["C04.R3"])
v("C04", "basename-compare-dropped", LIB, "\t\t\t|| strcmp(hdf5_data_object->sub_directory, subdir) || strcmp(hdf5_data_object->basename, basename))\n\t\tfile_exists = 0;", "\t\t\t|| strcmp(hdf5_data_object->sub_directory, subdir))\n\t\tfile_exists = 0;", rules=["C04.R4"])
v("C04", "modulus-test-deleted-c", LIB, "\tif (subdir_cadence_secs*1000 % file_cadence_millisecs != 0)\n\t{", "\tif (0)\n\t{", rules=["C04.R5"])

# ---- C05 / C19 -----------------------------------------------------------------------------------------------
v("C05", "create-before-validation", LIB,
  "\t/* get all the info needed to create (or expand) /rf_data_index and fill it out, along with calculating samples_to_write  */\n",
  "\tif (!file_exists) digital_rf_create_new_directory(hdf5_data_object, subdir);\n", rules=["C05.R1"])
v("C05", "cursor-store-before-guard", LIB, "\t/* verify not writing in the past */\n",
  "\tif (vector_length > 0) hdf5_data_object->last_utc_timestamp = 1;\n\t/* verify not writing in the past */\n", rules=["C05.R1"])
v(["C05", "C19"], "py-cursor-before-call", RF,
  "        try:\n            next_avail_sample = _py_rf_write_hdf5.rf_write(\n",
  "        self._next_avail_sample = next_sample\n        try:\n            next_avail_sample = _py_rf_write_hdf5.rf_write(\n", rules=["C05.R2", "C19.R1"])
v(["C05", "C19"], "py-counter-in-helper", RF, "        # make sure arr is a contiguous array (as required by libidigital_rf)\n        arr = np.ascontiguousarray(arr)\n        # cast array",
  "        # make sure arr is a contiguous array (as required by libidigital_rf)\n        self._total_samples_written += 0\n        arr = np.ascontiguousarray(arr)\n        # cast array", rules=["C05.R2"])
v("C05", "ext-result-unchecked", EXT, "\tresult = digital_rf_write_hdf5(hdf5_write_data_object, next_sample, data, vector_length);\n\tif (result)\n",
  "\tresult = digital_rf_write_hdf5(hdf5_write_data_object, next_sample, data, vector_length);\n\tif (result < 0)\n", rules=["C05.R3"])
v("C05", "forward-guard-deleted", LIB, "\tif (global_index_arr[0] < hdf5_data_object->global_index)\n\t{\n\t\tsnprintf(error_str, SMALL_HDF5_STR, \"Request index",
  "\tif (0)\n\t{\n\t\tsnprintf(error_str, SMALL_HDF5_STR, \"Request index", rules=["C05.R4"])

# ---- C06 / C11 -----------------------------------------------------------------------------------------------
v("C06", "perfile-attr-dropped", LIB,
  "\t/* is_continuous */\n\tattribute_id = H5Acreate2 (hdf5_data_object->dataset, \"is_continuous\", H5T_NATIVE_INT, dataspace_id,\n\t\t\t\t\t\t\t\t H5P_DEFAULT, H5P_DEFAULT);\n\tH5Awrite(attribute_id, H5T_NATIVE_INT, &(hdf5_data_object->is_continuous));\n\tH5Aclose(attribute_id);\n",
  "", rules=["C06.R1"])
v("C06", "perfile-attr-wrong-type", LIB,
  "attribute_id = H5Acreate2 (hdf5_data_object->dataset, \"sample_rate_numerator\", H5T_NATIVE_ULLONG, dataspace_id,\n\t\t\t\t\t\t\t\t H5P_DEFAULT, H5P_DEFAULT);\n\tH5Awrite(attribute_id, H5T_NATIVE_ULLONG,",
  "attribute_id = H5Acreate2 (hdf5_data_object->dataset, \"sample_rate_numerator\", H5T_NATIVE_INT, dataspace_id,\n\t\t\t\t\t\t\t\t H5P_DEFAULT, H5P_DEFAULT);\n\tH5Awrite(attribute_id, H5T_NATIVE_INT,",
  rules=["C06.R1"])
v(["C06", "C11"], "compare-num-with-den", LIB, "\t\tif (result != hdf5_data_object->sample_rate_numerator)", "\t\tif (result != hdf5_data_object->sample_rate_denominator)",
  rules=["C06.R1", "C11.R1"])
v("C06", "regen-omits-epoch", RF, '            fo.attrs["epoch"] = md["epoch"]\n', "", rules=["C06.R1"])
v(["C06", "C11"], "subchannel-compare-deleted", LIB,
  "\t\tH5Aread(attribute_id, H5T_NATIVE_INT, &int_result);\n\t\tif (int_result != hdf5_data_object->num_subchannels)\n\t\t{\n\t\t\tfprintf(stderr, \"Mismatching num_subchannels found\\n\");\n\t\t\treturn(-1);\n\t\t}\n",
  "\t\tH5Aread(attribute_id, H5T_NATIVE_INT, &int_result);\n", rules=["C06.R1", "C11.R1"])
_C06_ROW = "next_global_sample < prev_sample + (this_index - prev_index) && last_global_sample > this_sample)"
v("C06", "row-for-block-of-next-file", LIB, _C06_ROW, _C06_ROW.replace("last_global_sample > this_sample", "last_global_sample >= this_sample"), count=0,
  rules=["C06.R7"])
v("C06", "row-for-block-of-next-file-count-pass-only", LIB, _C06_ROW, _C06_ROW.replace("last_global_sample > this_sample", "last_global_sample >= this_sample"),
  rules=["C06.R5"])
v("C06", "twin-row-bound-operands-swapped", LIB, _C06_ROW, _C06_ROW.replace("last_global_sample > this_sample", "this_sample < last_global_sample"), count=0,
  expect="silent")
v("C06", "twin-row-bound-negated", LIB, _C06_ROW, _C06_ROW.replace("last_global_sample > this_sample", "!(this_sample >= next_global_sample + samples_left)"), count=0,
  expect="silent")
v("C06", "second-seq-increment", LIB, "\t/* advance state */\n", "\thdf5_data_object->present_seq++;\n\t/* advance state */\n", rules=["C06.R2"])
v("C06", "early-return-before-metadata", LIB, "\thdf5_data_object->dataset_avail = num_rows; /* size available to next write */\n",
  "\thdf5_data_object->dataset_avail = num_rows; /* size available to next write */\n\tif (samples_to_write == 0) return(0);\n", rules=["C06.R3"])
v("C11", "mkdir-before-compare", LIB, "\tif (digital_rf_handle_metadata(hdf5_data_object))\n\t{",
  "\tmkdir(hdf5_data_object->directory, 0777);\n\tif (digital_rf_handle_metadata(hdf5_data_object))\n\t{", rules=["C11.R2"])
v("C11", "break-after-first-dir", RF,
  "                len_only=False,\n                sub_channel=sub_channel,\n            )\n",
  "                len_only=False,\n                sub_channel=sub_channel,\n            )\n            if cont_data_dict:\n                break\n", rules=["C11.R4"])
v("C11", "refusal-sets-failure", LIB, "\t\tfprintf(stderr, \"%s\", error_str);\n\t\treturn(-1);\n\t}\n\n    if (hdf5_data_object->marching_dots)",
  "\t\tfprintf(stderr, \"%s\", error_str);\n\t\thdf5_data_object->has_failure = 1;\n\t\treturn(-1);\n\t}\n\n    if (hdf5_data_object->marching_dots)", rules=["C11.R3"])

# ---- C07 -----------------------------------------------------------------------------------------------------
v("C07", "nan-not-swapped-again", LIB, "\t\tdigital_rf_reverse_bytes(&double_fill, sizeof(double));\n", "", rules=["C07.R1"])
v("C07", "nan-swap-unconditional", LIB, "\tif (endian_flip)\n\t{\n\t\tdigital_rf_reverse_bytes(&float_fill", "\tif (1)\n\t{\n\t\tdigital_rf_reverse_bytes(&float_fill", rules=["C07.R1"])
v("C07", "reverse-helper-off-by-one", LIB, "bytes[i] = bytes[num_bytes-1-i];\n\t\tbytes[num_bytes-1-i] = tmp;", "bytes[i] = bytes[num_bytes-i];\n\t\tbytes[num_bytes-i] = tmp;", rules=["C07.R1"])
v("C07", "swapped-min-wrong", LIB, "int16_t minShort[2] = {INT16_MIN, 128};", "int16_t minShort[2] = {INT16_MIN, 127};", rules=["C07.R1"])
v("C07", "case4-uses-short", LIB, "\t\t\t\t\tcase 4:\n\t\t\t\t\t\tH5Pset_fill_value(hdf5_data_object->dataset_prop, hdf5_data_object->dtype_id, &minInt[endian_flip]);",
  "\t\t\t\t\tcase 4:\n\t\t\t\t\t\tH5Pset_fill_value(hdf5_data_object->dataset_prop, hdf5_data_object->dtype_id, &minShort[endian_flip]);", rules=["C07.R1"])
v("C07", "complex-cell-scalar-type", LIB, "H5Pset_fill_value(hdf5_data_object->dataset_prop, hdf5_data_object->complex_dtype_id, &complex_float_fill);",
  "H5Pset_fill_value(hdf5_data_object->dataset_prop, hdf5_data_object->dtype_id, &complex_float_fill);", rules=["C07.R1"])
v("C07", "endian-test-inverted", LIB, "if (digital_rf_is_little_endian() && (write_endian == H5T_ORDER_BE))", "if (digital_rf_is_little_endian() && (write_endian == H5T_ORDER_LE))", rules=["C07.R1"])
v("C07", "complex-long-wrong-row", LIB, "{ {minLLong[0], minLLong[0]}, {minLLong[1], minLLong[1]} }", "{ {minLLong[0], minLLong[1]}, {minLLong[1], minLLong[1]} }", rules=["C07.R1"])
v("C07", "chunking-ignores-checksum", LIB, "\tif (checksum || compression_level != 0 || is_continuous != 1)\n\t\thdf5_data_object->needs_chunking = 1;",
  "\tif (compression_level != 0 || is_continuous != 1)\n\t\thdf5_data_object->needs_chunking = 1;", rules=["C07.R3"])
v("C07", "numrows-inverted", LIB, "\tif (hdf5_data_object->needs_chunking)\n\t\tnum_rows = samples_to_write;\n\telse\n\t\tnum_rows = max_samples_this_file;",
  "\tif (hdf5_data_object->needs_chunking)\n\t\tnum_rows = max_samples_this_file;\n\telse\n\t\tnum_rows = samples_to_write;", rules=["C07.R3"])
v("C07", "rebasing-under-continuous-only", LIB, "\t\t\tif (hdf5_data_object->is_continuous && !hdf5_data_object->needs_chunking)\n\t\t\t\tret_arr[0] -=",
  "\t\t\tif (hdf5_data_object->is_continuous)\n\t\t\t\tret_arr[0] -=", rules=["C07.R3"])

# ---- C08 -----------------------------------------------------------------------------------------------------
v("C08", "lengths-from-block-bounds", RF, "                        cont_data_dict[read_start_sample] = (\n                            read_stop_index - read_start_index\n                        )",
  "                        cont_data_dict[read_start_sample] = (\n                            block_stop_index - block_start_index\n                        )", rules=["C08.R1"])
v("C08", "column-branch-extra-row", RF, "                                read_start_index:read_stop_index, sub_channel", "                                read_start_index : read_stop_index + 1, sub_channel", rules=["C08.R5"])
v("C08", "gap-guard-deleted", RF, "        if len(data_dict) > 1:\n", "        if len(data_dict) > 1 and False:\n", rules=["C08.R2"])
v("C08", "wrapper-reads-directly", RF, "        z = self.read_vector_raw(start_sample, vector_length, channel_name, sub_channel)\n",
  "        z = list(self.read(start_sample, start_sample + vector_length - 1, channel_name, sub_channel).values())[0]\n", rules=["C08.R2"])
v("C08", "squeeze-before-guard", RF, "        key, z = data_dict.popitem()\n\n        if len(z) != vector_length:",
  "        key, z = data_dict.popitem()\n        z = z.squeeze()\n\n        if len(z) != vector_length:", rules=["C08.R3"])
v("C08", "half-float-promotion", RF, 'out_dtype = np.promote_types("f4", z.dtype)', 'out_dtype = np.promote_types("f2", z.dtype)', rules=["C08.R6"])
v("C09", "bounds-loop-no-except", RF, "                try:\n                    first_unix_sample = self._get_first_sample(path)\n                except IOError:\n                    # can't open file (e.g. doesn't exist anymore)\n                    continue\n                except (",
  "                try:\n                    first_unix_sample = self._get_first_sample(path)\n                except (", rules=["C09.R2"])
v("C09", "cache-keyed-by-relative", RF, "                if fullfile != self._cachedFilename:", "                if fp != self._cachedFilename:", rules=["C09.R3"])

# ---- C10 -----------------------------------------------------------------------------------------------------
v("C10", "fclose-status-dropped", LIB, "\t\tif (H5Fclose (hdf5_data_object->hdf5_file) < 0)\n\t\t\thdf5_data_object->has_failure = 1;\n\t\thdf5_data_object->hdf5_file = 0;\n\t\thdf5_data_object->dataset_index = 0;\n\n\t\t/* now rename",
  "\t\tH5Fclose (hdf5_data_object->hdf5_file);\n\t\thdf5_data_object->hdf5_file = 0;\n\t\thdf5_data_object->dataset_index = 0;\n\n\t\t/* now rename", rules=["C10.R1"])
v("C10", "rename-status-ignored", LIB, "\t\tif (digital_rf_close_hdf5_file(hdf5_data_object))\n\t\t\thdf5_data_object->has_failure = 1;\n\t\tif (hdf5_data_object->has_failure)",
  "\t\tdigital_rf_close_hdf5_file(hdf5_data_object);\n\t\tif (hdf5_data_object->has_failure)", rules=["C10.R1"])
v("C10", "dwrite-failure-not-sticky", LIB, "\t\tH5Eprint(H5E_DEFAULT, stderr);\n\t\thdf5_data_object->has_failure = 1;\n\t\tfree(rf_data_index_arr);",
  "\t\tH5Eprint(H5E_DEFAULT, stderr);\n\t\tfree(rf_data_index_arr);", rules=["C10.R2"])
v("C10", "entry-test-deleted", LIB, "\tif (hdf5_data_object->has_failure)\n\t{\n\t\tfprintf(stderr, \"A previous fatal io error precludes any further calls to digital_rf_write_blocks_hdf5.\\n\");\n\t\treturn(-1);\n\t}\n",
  "", rules=["C10.R2"])
v("C10", "failure-reset-at-rollover", LIB, "\thdf5_data_object->present_seq++; /* indicates the creation of a new file */\n",
  "\thdf5_data_object->present_seq++; /* indicates the creation of a new file */\n\thdf5_data_object->has_failure = 0;\n", rules=["C10.R2"])
v("C10", "remove-rename-swapped", LIB, "\t\t\treturn(remove(fullname));\n\t\telse\n\t\t\treturn(rename(fullname, new_fullfilename));",
  "\t\t\treturn(rename(fullname, new_fullfilename));\n\t\telse\n\t\t\treturn(remove(fullname));", rules=["C10.R3"])
v("C10", "new-dead-status", LIB, "\tif (status < 0)\n\t{\n\t\tH5Eprint(H5E_DEFAULT, stderr);", "\tstatus = 0;\n\tif (status < 0)\n\t{\n\t\tH5Eprint(H5E_DEFAULT, stderr);", rules=["C10.R4"])

# ---- C12 / C13 / C20 -----------------------------------------------------------------------------------------
v("C12", "data-file-truncated", DM, 'with h5py.File(this_file, "a") as f:', 'with h5py.File(this_file, "w") as f:', rules=["C12.R1"])
v("C12", "require-group", DM, "grp = f.create_group(str(sample))", "grp = f.require_group(str(sample))", rules=["C12.R1"])
v(["C12", "C20"], "ffill-unfiltered-again", DM, "                    start_sample,\n                    is_edge=True,\n", "                    start_sample,\n                    is_edge=False,\n", rules=["C12.R2", "C20.R5"])
v(["C12", "C20"], "string-sort-again", DM, "                    groups.sort(key=int)\n                    first_sample = int(groups[0])", "                    groups.sort()\n                    first_sample = int(groups[0])", rules=["C12.R3", "C20.R6"])
v(["C12", "C13"], "writer-float-placement", DM, "samples, lambda s: (int(s) * srd) // (srn * fcs)", "samples, lambda s: np.uint64(s / (fcs * self._samples_per_second))", rules=["C13.R1", "C12.R4"])
v("C13", "writer-only-different-formula", DM, "samples, lambda s: (int(s) * srd) // (srn * fcs)", "samples, lambda s: (int(s) * srn) // (srd * fcs)", rules=["C13.R2"])
v("C13", "reader-extension", DM, 'file_basename = "%s@%i.h5" % (self._file_name, valid_file_ts)', 'file_basename = "%s@%i.hdf5" % (self._file_name, valid_file_ts)', rules=["C13.R3"])
v("C20", "reader-deletes-on-error", RF, "                if os.access(fullfile, os.R_OK):\n                    present.append(fullfile)\n", "                if os.access(fullfile, os.R_OK):\n                    present.append(fullfile)\n                else:\n                    os.remove(fullfile)\n", rules=["C20.R1"])
v(["C20", "C02"], "bounds-opens-append", DM, '                with h5py.File(path, "r") as f:\n                    groups = list(f.keys())\n                    # sample indices are stored as strings, sort numerically\n                    groups.sort(key=int)\n                    first_sample',
  '                with h5py.File(path, "a") as f:\n                    groups = list(f.keys())\n                    # sample indices are stored as strings, sort numerically\n                    groups.sort(key=int)\n                    first_sample', rules=["C20.R1"])
v("C20", "file-kept-open", DM, "        properties_file_path = os.path.join(self._metadata_dir, \"dmd_properties.h5\")\n        with h5py.File(properties_file_path, \"w\") as f:\n",
  "        properties_file_path = os.path.join(self._metadata_dir, \"dmd_properties.h5\")\n        self._pf = h5py.File(properties_file_path, \"w\")\n        if True:\n            f = self._pf\n", rules=["C20.R2"])
v("C20", "zip-generator-second", DM, "for grp, keyval in zip(grp_iter, keyvals):", "for keyval, grp in zip(keyvals, grp_iter):", rules=["C20.R2"])
v("C20", "bounds-cached", DM, "        return (first_sample, last_sample)\n", "        self._bounds = (first_sample, last_sample)\n        return (first_sample, last_sample)\n", rules=["C20.R3"])

# ---- C14 / C15 -----------------------------------------------------------------------------------------------
v("C14", "file-regex-wrong-kind", LD, "    elif yielding_drf_channel:\n        file_regex = _RE_DRFFILE", "    elif yielding_drf_channel:\n        file_regex = _RE_DMDFILE", rules=["C14.R2"])
v("C14", "props-from-data-flag", LD, "    elif include_drf_properties:\n        prop_regex = _RE_DRFPROPFILE", "    elif include_drf:\n        prop_regex = _RE_DRFPROPFILE", rules=["C14.R2"])
v("C14", "merge-sort-deleted", LD, "                    dec_files = dec_prior_files\n                    dec_files.sort()\n", "                    dec_files = dec_prior_files\n", rules=["C14.R3"])
v("C14", "listdir-unguarded", LD, "        try:\n            subdir_files = os.listdir(os.path.join(root, subdir))\n        except OSError:\n            # directory failed to list (e.g. doesn't exist anymore), it holds\n            # no files (but the look-back below must still happen)\n            subdir_files = []\n",
  "        subdir_files = os.listdir(os.path.join(root, subdir))\n", rules=["C14.R4"])
v("C14", "empty-guard-removed", LD, "            and (not dec_files or dec_files[0][0] >= starttime)", "            and dec_files[0][0] >= starttime", rules=["C14.R4"])
_C14_LOOP = """    enum_subdirs = list(enumerate(dec_subdirs[subdir_slice]))
    for k, (_time, subdir) in enum_subdirs if not reverse else reversed(enum_subdirs):
"""
v("C14", "position-from-visiting-order", LD, _C14_LOOP,
  "    for k, (_time, subdir) in (\n        enumerate(dec_subdirs[subdir_slice])\n        if not reverse\n        else enumerate(list(reversed(dec_subdirs[subdir_slice])))\n    ):\n",
  rules=["C14.R6"])
v("C14", "position-from-visiting-order-inplace", LD, _C14_LOOP,
  "    sel_subdirs = dec_subdirs[subdir_slice]\n    if reverse:\n        sel_subdirs.reverse()\n    for k, (_time, subdir) in enumerate(sel_subdirs):\n",
  rules=["C14.R6"])
v("C14", "files-not-reversed", LD, "        for dec_file in dec_files[slc] if not reverse else reversed(dec_files[slc]):", "        for dec_file in dec_files[slc]:", rules=["C14.R6"])
v("C14", "reverse-skips-first", LD, "            ffill=(k == 0) and yielding_dmd_channel,", "            ffill=(k == 0) and yielding_dmd_channel and not reverse,", rules=["C14.R6"])
v("C14", "reverse-extra-skip", LD, "        dec_files.sort()\n        if (\n            (k == 0)", "        dec_files.sort()\n        if reverse and k == 0 and len(dec_files) > 1:\n            dec_files.pop()\n        if (\n            (k == 0)", expect="analysis-error")
v("C14", "twin-position-by-zip", LD, _C14_LOOP,
  "    sel_subdirs = dec_subdirs[subdir_slice]\n    for k, (_time, subdir) in (\n        enumerate(sel_subdirs)\n        if not reverse\n        else zip(range(len(sel_subdirs) - 1, -1, -1), reversed(sel_subdirs))\n    ):\n",
  expect="silent")
v("C14", "twin-first-position-per-order", LD, _C14_LOOP,
  "    sel_subdirs = dec_subdirs[subdir_slice]\n    first = 0 if not reverse else len(sel_subdirs) - 1\n    if reverse:\n        sel_subdirs = sel_subdirs[::-1]\n    for k, (_time, subdir) in enumerate(sel_subdirs):\n        k = 0 if k == first else 1\n",
  expect="silent")
v("C15", "literal-regex", WD, "        elif include_dmd:\n            regexes.append(RE_DMD)", "        elif include_dmd:\n            regexes.append(r\".*@[0-9]+\\.h5$\")", rules=["C15.R1"])
v("C15", "dmd-row-wrong-regex", WD, "        elif include_dmd:\n            regexes.append(RE_DMD)", "        elif include_dmd:\n            regexes.append(RE_DRF)", rules=["C15.R2"])
v("C15", "props-keyed-on-data-flag", WD, "        elif include_drf_properties:\n            regexes.append(RE_DRFPROP)", "        elif include_drf:\n            regexes.append(RE_DRFPROP)", rules=["C15.R2"])
v("C15", "created-deleted-swapped", WD, "                event = FileDeletedEvent(event.src_path)\n            elif dest_match and not src_match:\n                event = FileCreatedEvent(event.dest_path)",
  "                event = FileCreatedEvent(event.src_path)\n            elif dest_match and not src_match:\n                event = FileDeletedEvent(event.dest_path)", rules=["C15.R4"])
v("C15", "window-exclusive", WD, "if self.starttime is not None and time < self.starttime:", "if self.starttime is not None and time <= self.starttime:", rules=["C15.R5"])
v("C15", "timeless-names-get-time-zero", WD, "            # no time, don't need to check it\n            return True\n", "            secs = 0\n", rules=["C15.R5"])
v("C15", "end-bound-nonstrict", WD, "if self.endtime is not None and time > self.endtime:", "if self.endtime is not None and time >= self.endtime:", rules=["C15.R5"])
v("C15", "twin-window-verdict-as-expression", WD, "        if self.endtime is not None and time > self.endtime:\n            return False\n        return True\n",
  "        return not (self.endtime is not None and time > self.endtime)\n", expect="silent")
v("C15", "twin-window-bounds-swapped-operands", WD, "if self.starttime is not None and time < self.starttime:", "if not (self.starttime is None or self.starttime <= time):", expect="silent")
v("C15", "directory-events-not-dropped", WD, "        if self.ignore_directories and event.is_directory:\n            return\n", "        if self.ignore_directories and event.is_directory:\n            pass\n", rules=["C15.R3"])
v("C15", "unguarded-group", WD, "        try:\n            msecs = int(match.group(\"frac\"))\n        except (IndexError, TypeError):\n            msecs = 0\n",
  "        msecs = int(match.group(\"frac\"))\n", rules=["C15.R5"])

v("C08", "index-scan-resumes-at-remembered-row", RF, '                    self.rf_index_len = self.rf_index.shape[0]\n\n                # loop through each row in rf_index\n                for row in range(self.rf_index_len):\n                    block_start_sample = int(self.rf_index[row, 0])\n', '                    self.rf_index_len = self.rf_index.shape[0]\n                    self._row0 = 0\n\n                # loop through each row in rf_index\n                for row in range(self._row0, self.rf_index_len):\n                    self._row0 = row\n                    block_start_sample = int(self.rf_index[row, 0])\n', rules=["C08.R8"])
v("C08", "twin-query-remembered-never-read", RF, '                    self.rf_index_len = self.rf_index.shape[0]\n\n                # loop through each row in rf_index\n                for row in range(self.rf_index_len):\n                    block_start_sample = int(self.rf_index[row, 0])\n', '                    self.rf_index_len = self.rf_index.shape[0]\n\n                self._last_query = (start_sample, end_sample)\n                # loop through each row in rf_index\n                for row in range(self.rf_index_len):\n                    block_start_sample = int(self.rf_index[row, 0])\n', expect="silent")

# ---- C16 / C17 / C18 -----------------------------------------------------------------------------------------
v("C16", "remove-untracked-path", RB, "        self.remove_files([event.src_path])\n\n    def on_modified", "        os.remove(event.src_path)\n        self.remove_files([event.src_path])\n\n    def on_modified", rules=["C16.R1"])
v("C16", "properties-tracked", RB, "            include_drf_properties=False,\n            include_dmd_properties=False,\n        )\n\n    def status(self):",
  "            include_drf_properties=True,\n            include_dmd_properties=False,\n        )\n\n    def status(self):", rules=["C16.R1"])
v("C16", "unconditional-size-again", RB, "            if added:\n                # only count the size of records that were not already queued\n                self.active_size += rec.size",
  "            self.active_size += rec.size", rules=["C16.R2"])
v("C16", "victim-is-newest", RB, "            key, path = self.queues[group][0]\n            rec = self.records.pop(path)", "            key, path = self.queues[group][-1]\n            rec = self.records.pop(path)", rules=["C16.R3"])
v("C16", "popleft-in-mixin", RB, "            while len(queue) > self.count:\n                self._expire_oldest_from_group(group)", "            while len(queue) > self.count:\n                queue.popleft()", rules=["C16.R3"])
v("C16", "count-chain-broken", RB, "                self._expire_oldest_from_group(group)\n        super(CountExpirer, self)._expire(group)", "                self._expire_oldest_from_group(group)", rules=["C16.R4"])
v("C16", "if-instead-of-while", RB, "            while self._queue_duration(queue) > self.duration:", "            if self._queue_duration(queue) > self.duration:", rules=["C16.R4"])
v("C17", "mirror-to-final", MR, "self.mirror_fun(src_path, tmp_dest_path)\n                os.rename(tmp_dest_path, dest_path)", "self.mirror_fun(src_path, dest_path)", rules=["C17.R1"])
v("C17", "rename-before-stage", MR, "self.mirror_fun(src_path, tmp_dest_path)\n                os.rename(tmp_dest_path, dest_path)", "os.rename(tmp_dest_path, dest_path)\n                self.mirror_fun(src_path, tmp_dest_path)", rules=["C17.R1"])
v("C17", "dot-prefix", MR, 'os.path.join(dest_dir, "tmp." + dest_name)', 'os.path.join(dest_dir, "." + dest_name)', rules=["C17.R1"])
v("C17", "makedirs-outside-try", MR, "        try:\n            if not os.path.exists(dest_dir):\n                os.makedirs(dest_dir)\n",
  "        if not os.path.exists(dest_dir):\n            os.makedirs(dest_dir)\n        try:\n", rules=["C17.R2"])
v("C17", "move-handler-takes-metadata", MR, "                include_drf=True,\n                include_dmd=False,\n                include_drf_properties=False,", "                include_drf=True,\n                include_dmd=True,\n                include_drf_properties=False,", rules=["C17.R3"])
v("C17", "copy-handler-keeps-rf-in-move", MR, 'include_drf=(self.include_drf and self.method in ("copy", "link")),', "include_drf=self.include_drf,", rules=["C17.R3"])
v("C17", "ringbuffer-count-2", MR, "                count=1,\n", "                count=2,\n", rules=["C17.R3"])
v("C18", "size-filter-before-move", LD, "        shutil.move(srcpath, destpath)", "        if os.path.getsize(srcpath) > 0:\n            shutil.move(srcpath, destpath)", rules=["C18.R1"])
v("C18", "forgot-del-chs", LD, '    del kwargs["chs"]\n', "", rules=["C18.R2"])
v("C18", "reverse-dest-renamed", LD, '        "-R",\n        "--reverse",\n        action="store_true",\n        help="""Traverse directories and include',
  '        "-R",\n        "--reverse",\n        dest="rev",\n        action="store_true",\n        help="""Traverse directories and include', rules=["C18.R2"])
v("C18", "nodmd-stores-true", LD, '        "--nodmd",\n        dest="include_dmd",\n        action="store_false",', '        "--nodmd",\n        dest="include_dmd",\n        action="store_true",', rules=["C18.R2"])
v("C18", "mv-runs-cp", LD, "    parser.set_defaults(func=_run_mv)", "    parser.set_defaults(func=_run_cp)", rules=["C18.R3"])
v("C18", "pairs-below-another-pruned", LD, "        if srcdest not in args.srcdests:\n            args.srcdests.append(srcdest)\n", "        if srcdest not in args.srcdests and not (\n            args.recursive and any(srcdest[0].startswith(os.path.join(o, \"\")) for o, _ in args.srcdests)\n        ):\n            args.srcdests.append(srcdest)\n", rules=["C18.R4"])
v("C18", "destination-dir-memo-ignores-dest", LD, '    seen = set()\n    for src, dest in srcdests:\n        for srcpath in ilsdrf(src, **kwargs):\n            destpath = os.path.join(dest, os.path.relpath(srcpath, src))\n', '    seen = set()\n    reldir = None\n    for src, dest in srcdests:\n        for srcpath in ilsdrf(src, **kwargs):\n            srcdir, name = os.path.split(os.path.relpath(srcpath, src))\n            if srcdir != reldir:\n                reldir = srcdir\n                destdir_ = os.path.join(dest, reldir)\n            destpath = os.path.join(destdir_, name)\n', rules=["C18.R1"])
v("C18", "twin-cp-transfers-through-a-local", LD, 'def _run_cp(args):\n    args, kwargs = _parse_srcdest_args(args)\n    for srcpath, destpath in _iter_transfers(args.srcdests, kwargs):\n        destdir = os.path.dirname(destpath)\n        if not os.path.exists(destdir):\n            os.makedirs(destdir)\n        shutil.copy2(srcpath, destpath)\n', 'def _run_cp(args):\n    args, kwargs = _parse_srcdest_args(args)\n    transfers = _iter_transfers(args.srcdests, kwargs)\n    for srcpath, destpath in transfers:\n        destdir = os.path.dirname(destpath)\n        if not os.path.exists(destdir):\n            os.makedirs(destdir)\n        shutil.copy2(srcpath, destpath)\n', expect="silent")
v("C01", "complex-cast-type-native", RF, "                    ).newbyteorder(self.realdtype.byteorder)\n", "                    )\n", rules=["C01.R7"])
v("C01", "twin-complex-cast-type-via-byteorder-attr", RF, "                    ).newbyteorder(self.realdtype.byteorder)\n", "                    ).newbyteorder(self.structdtype[\"r\"].byteorder)\n", expect="analysis-error")
# ---- rules added after the defect hunt (DESIGN 9.7): each fix reverted must fire its rule ------------------------
v(["C15", "C16"], "name-spans-directories", LD, 'RE_FILENAME = r"(?P<name>(?!tmp\\.)[^" + re.escape(os.sep) + r"]+?)"', 'RE_FILENAME = r"(?P<name>(?!tmp\\.).+?)"', rules=["C15.R3"])
v("C15", "window-once-per-event", WD, "                    and (not match_time or self._in_time_window(m))\n",
  "", rules=["C15.R6"])
v("C17", "already-mirrored-by-stat", MR, "                or filecmp.cmp(src_path, dest_path, shallow=False)\n",
  "                or filecmp.cmp(src_path, dest_path)\n", rules=["C17.R5"])
v("C17", "leftover-staging-file-kept", MR, "                                os.remove(dst)\n                                os.link(src, dst)\n", "                                pass\n", rules=["C17.R5"])
v("C17", "moved-files-ignored", MR, "    def on_moved(self, event):", "    def _unused_on_moved(self, event):", rules=["C17.R2"])
v("C17", "moved-deletes-in-dest", MR, "        self.mirror_to_dest(event.dest_path)\n", "        self.mirror_to_dest(event.dest_path)\n        os.remove(self._get_dest_path(event.src_path))\n", rules=["C17.R2"])
v("C12", "string-list-ascii", DM, "                    val = str_val\n", "                    val = val.astype(np.str_)\n", rules=["C12.R5"])
v(["C12", "C20"], "keys-as-int64", DM, "                idxs = sorted(int(key) for key in f.keys())", "                idxs = sorted(np.fromiter(list(f.keys()), np.int64))", rules=["C12.R3"])
v("C12", "twin-keys-via-map", DM, "                idxs = sorted(int(key) for key in f.keys())", "                idxs = sorted(map(int, f.keys()))", expect="silent")
v("C11", "open-file-by-name-only", LIB, "	if (hdf5_data_object->hdf5_file == 0 || hdf5_data_object->sub_directory == NULL", "	if (hdf5_data_object->sub_directory == NULL", rules=["C11.R7"])
v("C06", "session-second-by-float", LIB, "	hdf5_data_object->init_utc_timestamp = 0;\n", "	hdf5_data_object->init_utc_timestamp = (uint64_t)(global_start_sample/hdf5_data_object->sample_rate);\n", rules=["C06.R8"])
v("C06", "regenerate-one-subdir", RF, "    for this_subdir in subdirs[mid:] + subdirs[:mid]:\n        rf_files = glob.glob(os.path.join(glob.escape(this_subdir), rf_file_glob))\n        if len(rf_files) > 0:\n            break\n    else:\n",
  "    this_subdir = subdirs[mid]\n    rf_files = glob.glob(os.path.join(glob.escape(this_subdir), rf_file_glob))\n    if len(rf_files) == 0:\n", rules=["C06.R4"])
v("C16", "growth-without-expiry", RB, "                # a file that grew can push the total size over the limit\n                self._expire(rec.group)\n", "", rules=["C16.R5"])
v("C10", "index-write-failure-not-sticky", LIB, "			/* the data is in the file but not described by its index: the file must not be published */\n			hdf5_data_object->has_failure = 1;\n", "", rules=["C10.R2"])
v("C09", "probe-and-read-interleaved", RF, "            present = []\n            for fp in reversed(filepaths):\n                fullfile = os.path.join(self.top_level_dir, self.channel_name, fp)\n                if os.access(fullfile, os.R_OK):\n                    present.append(fullfile)\n            for fullfile in reversed(present):\n",
  "            for fp in filepaths:\n                fullfile = os.path.join(self.top_level_dir, self.channel_name, fp)\n                if not os.access(fullfile, os.R_OK):\n                    continue\n", rules=["C09.R4"])
v("C09", "probing-pass-oldest-first", RF, "            for fp in reversed(filepaths):\n                fullfile = os.path.join(self.top_level_dir, self.channel_name, fp)\n                if os.access(fullfile, os.R_OK):\n                    present.append(fullfile)\n            for fullfile in reversed(present):\n",
  "            for fp in filepaths:\n                fullfile = os.path.join(self.top_level_dir, self.channel_name, fp)\n                if os.access(fullfile, os.R_OK):\n                    present.append(fullfile)\n            for fullfile in present:\n", rules=["C09.R4"])
v("C09", "twin-probing-pass-insert-front", RF, "                    present.append(fullfile)\n            for fullfile in reversed(present):\n", "                    present.insert(0, fullfile)\n            for fullfile in present:\n", expect="silent")
v("C20", "reader-cache-by-channel", RF, "                reader_key = (channel_name, this_top_level_dir)", "                reader_key = channel_name", rules=["C20.R7"])
v("C19", "gap-from-requested-index", RF, "        gap_size = (next_avail_sample - self._next_avail_sample) - nwritten", "        gap_size = next_sample - self._next_avail_sample", rules=["C19.R2"])
v("C19", "gap-without-nwritten", RF, "        gap_size = (next_avail_sample - self._next_avail_sample) - nwritten", "        gap_size = next_avail_sample - self._next_avail_sample", rules=["C19.R2"])
v("C19", "returns-prestate", RF, "        self._total_gap_samples += gap_size\n        self._next_avail_sample = next_avail_sample\n\n        return next_avail_sample\n",
  "        self._total_gap_samples += gap_size\n        prev = self._next_avail_sample\n        self._next_avail_sample = next_avail_sample\n\n        return prev\n", rules=["C19.R2"])
v("C19", "ext-returns-computed", EXT, "\t/* success */\n\tretObj = Py_BuildValue(\"K\", hdf5_write_data_object->global_index);\n\treturn(retObj);\n\n}\n\n\nstatic PyObject * _py_rf_write_hdf5_rf_block_write",
  "\t/* success */\n\tretObj = Py_BuildValue(\"K\", next_sample + vector_length);\n\treturn(retObj);\n\n}\n\n\nstatic PyObject * _py_rf_write_hdf5_rf_block_write", rules=["C19.R3"])
v("C19", "del-before-cache", RF, "            self._last_file_written = self.get_last_file_written()\n", "            del self._channelObj\n            self._last_file_written = self.get_last_file_written()\n", rules=["C19.R4"])

# ---- behaviour-preserving twins (the check must stay silent) ------------------------------------------------------
v("C10", "twin-fold-status-with-or", LIB, "\t\tif (H5Dclose (hdf5_data_object->dataset) < 0)\n\t\t\thdf5_data_object->has_failure = 1;\n\t\thdf5_data_object->dataset = 0;\n\t\tif (H5Dclose (hdf5_data_object->index_dataset) < 0)",
  "\t\thdf5_data_object->has_failure |= (H5Dclose (hdf5_data_object->dataset) < 0);\n\t\thdf5_data_object->dataset = 0;\n\t\tif (H5Dclose (hdf5_data_object->index_dataset) < 0)", expect="silent")
v("C12", "twin-sorted-key-int", DM, "                    groups.sort(key=int)\n                    last_sample = int(groups[-1])", "                    groups = sorted(groups, key=int)\n                    last_sample = int(groups[-1])", expect="silent")
v("C08", "twin-comment-and-format", RF, "        key, z = data_dict.popitem()\n", "        key, z = data_dict.popitem()  # the single contiguous block\n", expect="silent")
v("C02", "twin-reformatted-c", LIB, "\tif( access( finished_fullname, F_OK ) != -1 )\n", "\tif (access(finished_fullname, F_OK) != -1)\n", expect="silent")
v("C14", "twin-drop-after-sort", LD, "        dec_files.sort()\n        if (\n            (k == 0)", "        dec_files.sort()\n        if len(dec_files) > 100000:\n            dec_files = dec_files[:]\n        if (\n            (k == 0)", expect="silent")
v("C14", "end-steps-over-one-entry", LD, "        while ke < len(dec_list) and dec_list[ke][0] == endtime:", "        if ke < len(dec_list) and dec_list[ke][0] == endtime:", rules=["C14.R7"])
v("C14", "end-exclusive", LD, "        while ke < len(dec_list) and dec_list[ke][0] == endtime:\n            ke = ke + 1\n", "", rules=["C14.R7"])
v("C14", "twin-end-loop-augassign", LD, "        while ke < len(dec_list) and dec_list[ke][0] == endtime:\n            ke = ke + 1\n", "        while ke < len(dec_list) and endtime == dec_list[ke][0]:\n            ke += 1\n", expect="silent")
v("C14", "ffill-not-at-start", LD, "        if ffill:\n            ks = max(ks - 1, 0)", "        if ffill and (ks == len(dec_list) or dec_list[ks][0] > starttime):\n            ks = max(ks - 1, 0)", rules=["C14.R8"])
v("C14", "twin-ffill-guarded-step", LD, "        if ffill:\n            ks = max(ks - 1, 0)", "        if ffill and ks > 0:\n            ks -= 1", expect="silent")
v("C14", "lookback-not-at-start", LD, "            and (not dec_files or dec_files[0][0] >= starttime)", "            and (not dec_files or dec_files[0][0] > starttime)", rules=["C14.R8"])
v("C14", "twin-lookback-operands-swapped", LD, "            and (not dec_files or dec_files[0][0] >= starttime)", "            and (not dec_files or not starttime > dec_files[0][0])", expect="silent")
v("C14", "channel-listdir-unguarded", LD, "            try:\n                any_props = [f for f in os.listdir(root) if _RE_PROPFILE.match(f)]\n            except OSError:\n                # channel directory failed to list (e.g. doesn't exist anymore)\n                any_props = []\n",
  "            any_props = [f for f in os.listdir(root) if _RE_PROPFILE.match(f)]\n", rules=["C14.R4"])
v("C14", "file-time-overflow-unguarded", LD, "            except OverflowError:\n                # name fits the pattern but its number is not a time, skip\n                continue\n",
  "            except KeyError:\n                continue\n", rules=["C14.R9"])
v("C14", "subdir-date-handler-reraises", LD, "                others.append(d)\n                continue\n            time = dt - util.epoch", "                raise\n            time = dt - util.epoch", rules=["C14.R9"])
v("C14", "start-bound-floored-to-ms", LD, "        starttime = starttime - util.epoch\n", "        starttime = starttime - util.epoch\n        starttime = datetime.timedelta(milliseconds=starttime // datetime.timedelta(milliseconds=1))\n", rules=["C14.R10"])
v("C14", "twin-bounds-via-temporary", LD, "        starttime = starttime - util.epoch\n", "        since_epoch = starttime - util.epoch\n        starttime = since_epoch\n", expect="silent")
v("C14", "twin-sort-call-style", LD, "    dec_subdirs.sort()\n    subdir_slice", "    dec_subdirs.sort()  # ascending time\n    subdir_slice", expect="silent")

# ---- revert-the-fix variants for F36-F51 (second defect hunt) -------------------------------------------------
v('C18', 'revert-F36-no-per-file-skip', LD, '            if destpath in seen:\n                continue\n            seen.add(destpath)\n', '', rules=['C18.R4'])
v('C16', 'revert-F37-scan-unfiltered', RB, '        return (p for p in existing if self.event_handler._match_path(p, True))\n', '        return existing\n', rules=['C16.R6'])
v('C17', 'revert-F38-handlers-scheduled-one-by-one', MR, '        self.observer.schedule(\n            _OrderedHandlers(self.event_handlers), self.src, recursive=True\n        )\n', '        for handler in self.event_handlers:\n            self.observer.schedule(handler, self.src, recursive=True)\n', rules=['C17.R4'])
v('C17', 'revert-F39-no-samefile', MR, '            if not os.path.exists(dest_path) or not (\n                os.path.samefile(src_path, dest_path)\n                or filecmp.cmp(src_path, dest_path, shallow=False)\n            ):', '            if not os.path.exists(dest_path) or not filecmp.cmp(\n                src_path, dest_path, shallow=False\n            ):', rules=['C17.R5'])
v('C15', 'revert-F40-no-validity-test', WD, '                    and self._is_timed_path(m)\n', '', rules=['C15.R7'])
v('C12', 'revert-F41-start-incremented-in-caller-type', DM, '            start_sample = int(start_sample) + 1\n', '            start_sample += 1\n', rules=['C12.R7'])
v('C12', 'revert-F42-index-column-dtype-less', DM, '        if index and max(index) >= 2**63:\n            # sample indices are unsigned 64-bit integers: do not let NumPy\n            # promote a mix of values below and above 2**63 to float64\n            index = list(np.array(index, dtype=np.uint64))\n', '', rules=['C12.R7'])
v('C12', 'revert-F43-element-decode-unguarded', DM, '                        if isinstance(v, bytes):\n                            try:\n                                v = v.decode()\n                            except UnicodeDecodeError:\n                                # not text, keep the bytes (as for a scalar)\n                                pass\n                        str_val[idx] = v\n', '                        str_val[idx] = v.decode() if isinstance(v, bytes) else v\n', rules=['C12.R5'])
v('C10', 'revert-F44-failed-create-leaves-file', LIB, '\t\t\tif (!name_in_use)\n\t\t\t\tremove(metadata_file);\n', '', rules=['C10.R1'])
v('C11', 'revert-F45-directory-loop-outside', RF, '        for last_file in file_list:\n            for key in self._top_level_dir_dict.keys():\n', '        for key in self._top_level_dir_dict.keys():\n            for last_file in file_list:\n', rules=['C11.R8'])
v('C14', 'revert-F46-sortkey-without-properties', LD, '        regexes = [_RE_FILE, _RE_PROPFILE]\n', '        regexes = [_RE_FILE]\n', rules=['C14.R11'])
v('C14', 'revert-F47-vanished-subdir-skips-lookback', LD, '            # no files (but the look-back below must still happen)\n            subdir_files = []\n', '            continue\n', rules=['C14.R11'])
v('C04', 'revert-F48-reader-uses-fromtimestamp', RF, '                datetime.datetime(1970, 1, 1, tzinfo=datetime.timezone.utc)\n                + datetime.timedelta(seconds=int(sub_ts))\n', '                datetime.datetime.fromtimestamp(sub_ts, tz=datetime.timezone.utc)\n', rules=['C04.R2'])
v('C05', 'revert-F50-empty-vector-unchecked', LIB, '\tif (vector_length == 0 && (index_len != 1 || data_index_arr[0] != 0))\n\t{\n\t\tsnprintf(error_str, SMALL_HDF5_STR, "Illegal block description for an empty data vector\\n");\n\t\tfprintf(stderr, "%s", error_str);\n\t\treturn(-6);\n\t}\n', '', rules=['C05.R6'])
v('C20', 'revert-F51-memo-key-without-resolved-directory', RF, '                reader_key = (channel_name, this_top_level_dir)\n', '                reader_key = (channel_name, top_level_dir)\n', rules=['C20.R7'])
v('C05', 'revert-F49-existence-test-after-the-close', LIB, '\t/* refuse before anything is changed if the file is already there, finished or as a (left-over\n\t * or foreign) temporary file: this is not an io failure of this writer, and neither file is ours */\n\tsnprintf(finished_fullname, sizeof(finished_fullname), "%s/%s/%s", hdf5_data_object->directory, subdir, strstr(basename, "rf"));\n\tsnprintf(fullname, sizeof(fullname), "%s/%s/%s", hdf5_data_object->directory, subdir, basename);\n\tif (access(finished_fullname, F_OK) != -1 || access(fullname, F_OK) != -1)\n\t{\n\t\tsnprintf(error_str, sizeof(error_str), "The following Hdf5 file already exists: %s\\n",\n\t\t\t\taccess(finished_fullname, F_OK) != -1 ? finished_fullname : fullname);\n\t\tfprintf(stderr, "%s", error_str);\n\t\treturn(-1);\n\t}\n\n', '', rules=['C05.R5'])
v('C04', 'revert-F48-c-gmtime', LIB, '\tdays = (int64_t)unix_second / 86400;\n', '\t{ struct tm *gm = gmtime(&unix_second); if (gm == NULL) return(-1); }\n\tdays = (int64_t)unix_second / 86400;\n', rules=['C04.R2'])

v("C08", "revert-F52-channel-glob-unescaped", RF, "                    os.path.join(glob.escape(top_level_dir), list_drf.GLOB_DRFPROPFILE)\n", "                    os.path.join(top_level_dir, list_drf.GLOB_DRFPROPFILE)\n", rules=["C08.R9"])
v("C08", "revert-F54-metadata-glob-unescaped", DM, "                                glob.escape(metadata_dir), list_drf.GLOB_DMDPROPFILE\n", "                                metadata_dir, list_drf.GLOB_DMDPROPFILE\n", rules=["C08.R9"])
v("C02", "revert-F53-directory-length-unchecked", LIB, "\tif (strlen(directory) + 1 + 19 + 1 + 7 + 20 + 7 + 1 > BIG_HDF5_STR)\n", "\tif (0)\n", rules=["C02.R8"])
v("C20", "rf-reader-opts-into-deleting-metadata-reader", RF, "                reader = digital_metadata.DigitalMetadataReader(metadata_dir)\n", "                reader = digital_metadata.DigitalMetadataReader(metadata_dir, accept_empty=False)\n", rules=["C20.R8"])
v("C20", "twin-accept-empty-spelled-out", RF, "                reader = digital_metadata.DigitalMetadataReader(metadata_dir)\n", "                reader = digital_metadata.DigitalMetadataReader(metadata_dir, accept_empty=True)\n", expect="silent")

# ---- round 7 ---------------------------------------------------------------------------------------------------
v("C05", "cursor-put-back-by-caller", LIB,
  '\t\t\tfprintf(stderr, "Problem detected, dataset_samples_written = 0 after  %" PRIu64 " samples_written\\n", samples_written);\n',
  '\t\t\tfprintf(stderr, "Problem detected, dataset_samples_written = 0 after  %" PRIu64 " samples_written\\n", samples_written);\n'
  '\t\t\thdf5_data_object->global_index -= samples_written;\n', rules=["C05.R7"])
v("C19", "marker-searched-in-full-path", LIB,
  '\tstrcat(fullpath, strstr(hdf5_data_object->basename, "rf"));\n',
  '\tstrcat(fullpath, hdf5_data_object->basename);\n\tmemmove(strstr(fullpath, "tmp."), strstr(fullpath, "tmp.") + 4, strlen(strstr(fullpath, "tmp.") + 4) + 1);\n',
  rules=["C19.R5"])

v("C13", "first-and-last-agree-shortcut", DM,
  "        for file_idx, sample_group in itertools.groupby(\n            samples, lambda s: (int(s) * srd) // (srn * fcs)\n        ):\n",
  "        groups = itertools.groupby(samples, lambda s: (int(s) * srd) // (srn * fcs))\n"
  "        if (int(samples[0]) * srd) // (srn * fcs) == (int(samples[-1]) * srd) // (srn * fcs):\n"
  "            groups = [((int(samples[0]) * srd) // (srn * fcs), samples)]\n"
  "        for file_idx, sample_group in groups:\n", rules=["C13.R5"])
v("C13", "twin-groups-bound-to-a-local", DM,
  "        for file_idx, sample_group in itertools.groupby(\n            samples, lambda s: (int(s) * srd) // (srn * fcs)\n        ):\n",
  "        groups = itertools.groupby(samples, lambda s: (int(s) * srd) // (srn * fcs))\n"
  "        for file_idx, sample_group in groups:\n", expect="silent")
v("C09", "writer-object-aliased-in-a-local", RF,
  "        try:\n            next_avail_sample = _py_rf_write_hdf5.rf_write(\n                self._channelObj, arr, next_sample\n            )\n",
  "        try:\n            channel = self._channelObj\n            next_avail_sample = _py_rf_write_hdf5.rf_write(\n                channel, arr, next_sample\n            )\n",
  rules=["C09.R6"])
v("C16", "rescan-removes-the-untracked", RB, "        deletions = inbuffer - ondisk\n", "        deletions = ondisk - inbuffer\n", rules=["C16.R8"])
v("C16", "rescan-adds-only-after-deletions", RB, "        creations = ondisk - deletions\n", "        creations = inbuffer - deletions\n", rules=["C16.R8"])
v("C16", "batch-add-stops-at-first-known", RB, "        for rec in records:\n            self._add_record(rec)\n",
  "        for rec in records:\n            if rec.path in self.records:\n                break\n            self._add_record(rec)\n", rules=["C16.R8"])
v("C16", "twin-rescan-with-set-methods", RB, "        deletions = inbuffer - ondisk\n", "        deletions = inbuffer.difference(ondisk)\n", expect="silent")
v("C16", "moved-adds-before-removing", RB, "        self.remove_files([event.src_path])\n        self.add_files([event.dest_path])\n",
  "        self.add_files([event.dest_path])\n        self.remove_files([event.src_path])\n", rules=["C16.R7"])
v("C14", "walk-prunes-subdir-named-directories", LD, "            dirs.sort(reverse=reverse)\n",
  "            dirs[:] = sorted((d for d in dirs if not _RE_SUBDIR.match(d)), reverse=reverse)\n", rules=["C14.R12"])
v("C14", "twin-walk-list-resorted", LD, "            dirs.sort(reverse=reverse)\n", "            dirs[:] = sorted(dirs, reverse=reverse)\n", expect="silent")
def _two(e1, e2):
    def apply(d):
        e1(d)
        e2(d)
    return apply


V.append({"props": ["C05"], "name": "block-check-on-the-raw-array", "expect": "violation", "rules": ["C05.R8"], "apply": _two(
    _edit(RF, "        if block_sample_arr[-1] >= arr.shape[0]:\n", "        if block_sample_arr[-1] >= nraw:\n"),
    _edit(RF, "        # verify input arr argument\n        arr = self._cast_input_array(arr)\n\n        # cast global_sample_arr",
          "        nraw = len(arr)\n        # verify input arr argument\n        arr = self._cast_input_array(arr)\n\n        # cast global_sample_arr"))})
_A_OLD = '            # create numpy array of all file TS in subdir\n            file_ts_in_subdir = np.arange(\n                sub_ts, sub_ts + self._subdir_cadence_secs, self._file_cadence_secs\n            )\n'
_PRE_OLD = '        ret_list = []  # ordered list of full file paths to return\n\n        for sub_ts in range(\n            start_sub_ts,'
_PRE_NEW = '        ret_list = []  # ordered list of full file paths to return\n\n        file_ts_in_subdir = np.arange(\n            start_sub_ts, start_sub_ts + self._subdir_cadence_secs, self._file_cadence_secs\n        )\n        for sub_ts in range(\n            start_sub_ts,'
_TAIL_OLD = '                ret_list.append(full_file)\n\n        return ret_list\n'
_TAIL_NEW = '                ret_list.append(full_file)\n            file_ts_in_subdir += self._subdir_cadence_secs\n\n        return ret_list\n'
_SKIP_NEW = '            if not os.path.isdir(os.path.join(self._metadata_dir, subdir)):\n                continue\n'


def _three(*es):
    def apply(d):
        for e in es:
            e(d)
    return apply


V.append({"props": ["C13"], "name": "file-times-carried-past-a-skipped-subdir", "expect": "violation", "rules": ["C13.R7"], "apply": _three(
    _edit(DM, _A_OLD, _SKIP_NEW), _edit(DM, _PRE_OLD, _PRE_NEW), _edit(DM, _TAIL_OLD, _TAIL_NEW))})
V.append({"props": ["C13"], "name": "twin-file-times-advanced-every-iteration", "expect": "silent", "rules": [], "apply": _three(
    _edit(DM, _A_OLD, ""), _edit(DM, _PRE_OLD, _PRE_NEW), _edit(DM, _TAIL_OLD, _TAIL_NEW))})

def for_property(prop):
    return [x for x in V if prop in x["props"]]
