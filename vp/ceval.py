"""Concrete execution of small, pure C functions over their CFG (finite decision tables by evaluation).

Used for functions whose result depends only on a few scalar parameters with a finite relevant domain (the numpy
dtype -> HDF5 type table).  Any statement the evaluator does not model is an analysis error, never a guess."""
from __future__ import annotations

from .core import AnalysisError
from . import cfg as _cfg


class Unknown(Exception):
    pass


class OutOfBounds(AnalysisError):
    """a concrete index outside a concrete array: not "unknown" but a definite access beyond the object"""


def ev(e, env):
    s = e.strip(casts=True)
    k = s.kind
    if k == "IntegerLiteral" or k == "CharacterLiteral":
        return int(s.value)
    if k == "DeclRefExpr":
        if s.ref in env:
            return env[s.ref]
        raise Unknown(s.ref)
    if k == "UnaryOperator":
        v = ev(s.children[0], env)
        if s.opcode == "!":
            return int(not v)
        if s.opcode == "-":
            return -v
        if s.opcode == "+":
            return v
        raise Unknown(s.nsrc)
    if k == "BinaryOperator":
        op = s.opcode
        if op == "&&":
            return int(bool(ev(s.children[0], env)) and bool(ev(s.children[1], env)))
        if op == "||":
            return int(bool(ev(s.children[0], env)) or bool(ev(s.children[1], env)))
        a, b = ev(s.children[0], env), ev(s.children[1], env)
        if op == "==":
            return int(a == b)
        if op == "!=":
            return int(a != b)
        if op == "<":
            return int(a < b)
        if op == ">":
            return int(a > b)
        if op == "<=":
            return int(a <= b)
        if op == ">=":
            return int(a >= b)
        if op == "+":
            return a + b
        if op == "-":
            return a - b
        if op == "*":
            return a * b
        raise Unknown(s.nsrc)
    raise Unknown(s.nsrc)


def run(fn, env, max_steps=10000, want_env=False):
    """Execute fn with parameter values env; returns the ReturnStmt node reached (or None for falling off the end); with
    want_env also the final environment."""
    g = _cfg.build_c(fn)
    env = dict(env)
    if want_env:
        return _run(fn, g, env, max_steps), env
    return _run(fn, g, env, max_steps)


def returned(fn, env, tu, depth=0):
    """(value, return node) of fn for parameter values env, where value is an int, the name of an HDF5 type constant
    (H5T_...), or None if the function falls off its end.  The return expression may be a conditional expression over evaluable
    conditions or a call of another function of the translation unit with evaluable arguments (followed, depth <= 4)."""
    import re
    ret, env2 = run(fn, env, want_env=True)
    if ret is None or not ret.children:
        return None, ret

    def val(e):
        t = e.strip(casts=True)
        if t.kind == "ConditionalOperator":
            return val(t.children[1] if ev(t.children[0], env2) else t.children[2])
        if t.kind == "CallExpr" and t.callee in tu.functions and depth < 4:
            callee = tu.functions[t.callee]
            ps = [p.name for p in callee.children if p.kind == "ParmVarDecl"]
            args = {}
            for p, a in zip(ps, t.args):
                a_ = a.strip(casts=True)
                if a_.kind == "CallExpr" and a_.callee in tu.functions:
                    args[p] = val(a_)       # an argument computed by another function of the unit
                else:
                    args[p] = ev(a, env2)
            return returned(callee, args, tu, depth + 1)[0]
        m = re.search(r"H5T_[A-Z0-9_]+", t.nsrc)
        if m:
            return m.group(0)
        try:
            return ev(t, env2)
        except Unknown:
            iv = t.intval()
            if iv is not None:
                return iv
            raise AnalysisError("%s: cannot evaluate the returned expression `%s`" % (fn.name, t.nsrc[:60]))
    try:
        return val(ret.children[0]), ret
    except Unknown as e:
        raise AnalysisError("%s: cannot evaluate the returned expression `%s` (%s unknown)" % (fn.name, ret.nsrc[:60], e))


def _run(fn, g, env, max_steps=10000):
    cur = g.entry.id
    steps = 0
    while True:
        steps += 1
        if steps > max_steps:
            raise AnalysisError("%s: evaluation did not terminate" % fn.name)
        n = g.nodes[cur]
        succ = g.succ[cur]
        if n is g.exit:
            return None
        try:
            if n.kind == "return":
                return n.ast
            if n.kind == "cond":
                v = ev(n.ast, env)
                lab = "T" if v else "F"
                nxt = [b for b, l in succ if l == lab]
            elif n.kind == "stmt" and n.label.startswith("switch("):
                sel = ev(n.ast, env)
                nxt = []
                for b, l in succ:
                    if l and l.startswith("case "):
                        try:
                            cv = int(l[5:].strip().strip("()"))
                        except ValueError:
                            cv = ord(l[5:].strip().strip("'")) if len(l[5:].strip().strip("'")) == 1 else None
                        if cv == sel:
                            nxt = [b]
                if not nxt:
                    nxt = [b for b, l in succ if l in ("default", "nodefault")]
            elif n.kind == "stmt":
                a = n.ast
                if a.kind == "BinaryOperator" and a.opcode == "=" and a.children[0].strip().kind == "DeclRefExpr":
                    env[a.children[0].strip().ref] = ev(a.children[1], env)
                elif a.kind == "DeclStmt":
                    for d in a.children:
                        if d.kind == "VarDecl" and d.children:
                            try:
                                env[d.name] = ev(d.children[-1], env)
                            except Unknown:
                                pass
                elif a.calls():
                    pass  # calls without a modelled effect (fprintf ...)
                nxt = [b for b, l in succ]
            else:
                nxt = [b for b, l in succ]
        except Unknown as e:
            raise AnalysisError("%s: cannot evaluate `%s` (value of %s unknown)" % (fn.name, n.label[:60], e))
        if len(nxt) != 1:
            raise AnalysisError("%s: %d successors at `%s`" % (fn.name, len(nxt), n.label[:60]))
        cur = nxt[0]


# ---------------------------------------------------------------------------
# richer machine: symbolic tokens, aggregates, address-of, call oracle, trace
# ---------------------------------------------------------------------------

SIZES = {"int8_t": 1, "int16_t": 2, "int32_t": 4, "int64_t": 8, "uint8_t": 1, "uint16_t": 2, "uint32_t": 4,
         "uint64_t": 8, "float": 4, "double": 8, "char": 1, "short": 2, "int": 4, "long long": 8, "long": 8,
         "signed char": 1, "unsigned char": 1, "unsigned int": 4, "unsigned long": 8, "unsigned long long": 8,
         "unsigned short": 2}


def sizeof_type(t, fn=None):
    """size in bytes of a scalar C type name, of `T[k]`, or of a struct declared inside fn (sum of its scalar fields, no
    padding needed for the homogeneous pairs used here)"""
    import re
    if not t:
        return None
    t = t.replace("const ", "").replace("volatile ", "").strip()
    m = re.match(r"^(.*?)\[(\d+)\]$", t)
    if m:
        b = sizeof_type(m.group(1).strip(), fn)
        return None if b is None else b * int(m.group(2))
    if t.startswith("struct ") and fn is not None:
        for rec in fn.find("RecordDecl"):
            if rec.name == t[7:].strip():
                sizes = [SIZES.get(f.type.strip()) for f in rec.children if f.kind == "FieldDecl"]
                return None if None in sizes else sum(sizes)
        return None
    return SIZES.get(t)


class Addr(object):
    """address of a local object (optionally of one element)"""

    def __init__(self, var, index=None):
        self.var, self.index = var, index

    def __repr__(self):
        return "&%s%s" % (self.var, "" if self.index is None else "[%r]" % (self.index,))


class Machine(object):
    """Concrete execution over the statement CFG with an oracle for external calls.

    env keys are variable names or access paths ('obj->field'); values are ints, floats, strings (symbolic tokens such as
    enum constants and opaque handles, compared only for equality), lists (aggregates) or Addr.  `oracle(name, args, node)`
    gives the value of a call (return None for "no modelled value"); every call executed is appended to `trace` as
    (name, evaluated args, node)."""

    def __init__(self, fn, env, oracle=None, max_steps=20000):
        self.fn = fn
        self.env = dict(env)
        self.oracle = oracle or (lambda name, args, node: None)
        self.depth = 0
        self.trace = []
        self.max_steps = max_steps

    def ev(self, e):
        s = e.strip(casts=True)
        k = s.kind
        if k in ("IntegerLiteral", "CharacterLiteral"):
            return int(s.value)
        if k == "FloatingLiteral":
            return float(s.value)
        if k == "StringLiteral":
            return s.strval()
        if k == "ImplicitValueInitExpr":
            return 0
        if k == "InitListExpr":
            return [self.ev(c) for c in s.children]
        if k == "DeclRefExpr":
            if s.refkind == "EnumConstantDecl":
                return s.ref
            if s.ref in self.env:
                return self.env[s.ref]
            raise Unknown(s.ref)
        if k == "MemberExpr":
            p = s.path()
            if p in self.env:
                return self.env[p]
            raise Unknown(p or s.nsrc)
        if k == "ArraySubscriptExpr":
            base, idx = self.ev(s.children[0]), self.ev(s.children[1])
            if isinstance(base, list) and isinstance(idx, int) and 0 <= idx < len(base):
                return base[idx]
            if isinstance(base, list) and isinstance(idx, int):
                raise OutOfBounds("%s: `%s` reads element %d of an object of %d elements" % (self.fn.name, s.nsrc[:40], idx, len(base)))
            raise Unknown(s.nsrc)
        if k == "ConditionalOperator":
            return self.ev(s.children[1]) if self.truth(self.ev(s.children[0])) else self.ev(s.children[2])
        if k == "CallExpr":
            name = s.callee or ""
            if name.startswith("__builtin_nan"):
                return float("nan")
            if name.startswith("__builtin_huge_val") or name.startswith("__builtin_inf"):
                return float("inf")
            args = []
            for a in s.args:
                try:
                    args.append(self.ev(a))
                except Unknown:
                    args.append(None)
            callee = self.fn.tu.functions.get(name) if getattr(self.fn, "tu", None) is not None else None
            if callee is not None:
                v0 = self.oracle(name, args, s)
                if v0 is not None:          # the oracle answers for this function (e.g. the host byte order probe)
                    self.trace.append((name, args, s))
                    return v0
            if callee is not None and name != self.fn.name and self.depth < 3:
                # a function of the same translation unit: interpreted too (its calls are traced by the same oracle), with the
                # caller's object fields visible and its own parameters bound to the argument values
                ps = [p.name for p in callee.children if p.kind == "ParmVarDecl"]
                sub = Machine(callee, dict(self.env), oracle=self.oracle, max_steps=self.max_steps)
                sub.depth = self.depth + 1
                sub.trace = self.trace
                for pn, av in zip(ps, args):
                    if av is None:
                        sub.env.pop(pn, None)
                    else:
                        sub.env[pn] = av
                mark = len(self.trace)
                try:
                    return sub.run()
                except AnalysisError:
                    # not interpretable (e.g. it works on raw memory): an opaque call, as for functions outside the unit
                    del self.trace[mark:]
            self.trace.append((name, args, s))
            v = self.oracle(name, args, s)
            if v is None:
                raise Unknown("%s()" % name)
            return v
        if k == "UnaryOperator":
            if s.opcode == "&":
                t = s.children[0].strip(casts=True)
                if t.kind == "ArraySubscriptExpr":
                    return Addr(t.children[0].path(), self.ev(t.children[1]))
                return Addr(t.path())
            v = self.ev(s.children[0])
            if s.opcode == "!":
                return int(not self.truth(v))
            if s.opcode == "-":
                return -v
            if s.opcode == "+":
                return v
            raise Unknown(s.nsrc)
        if k == "BinaryOperator":
            op = s.opcode
            if op == "&&":
                return int(self.truth(self.ev(s.children[0])) and self.truth(self.ev(s.children[1])))
            if op == "||":
                return int(self.truth(self.ev(s.children[0])) or self.truth(self.ev(s.children[1])))
            if op == ",":
                self.ev(s.children[0])
                return self.ev(s.children[1])
            a, b = self.ev(s.children[0]), self.ev(s.children[1])
            if op == "==":
                return int(a == b)
            if op == "!=":
                return int(a != b)
            if isinstance(a, str) or isinstance(b, str):
                raise Unknown("ordering/arithmetic on the symbolic value in `%s`" % s.nsrc)
            if isinstance(a, (list, Addr)) or isinstance(b, (list, Addr)):
                raise Unknown("pointer arithmetic / comparison in `%s` (arrays are values here, pointers into them are not modelled)" % s.nsrc)
            if op == "<":
                return int(a < b)
            if op == ">":
                return int(a > b)
            if op == "<=":
                return int(a <= b)
            if op == ">=":
                return int(a >= b)
            if op == "+":
                return a + b
            if op == "-":
                return a - b
            if op == "*":
                return a * b
            if op == "/" and isinstance(a, int) and isinstance(b, int) and b != 0:
                q = abs(a) // abs(b)
                return q if (a >= 0) == (b >= 0) else -q
            if op == "%" and isinstance(a, int) and isinstance(b, int) and b != 0:
                return a - b * (abs(a) // abs(b) * (1 if (a >= 0) == (b >= 0) else -1))
            raise Unknown(s.nsrc)
        if k == "UnaryExprOrTypeTraitExpr" and s.d.get("name") == "sizeof":
            t = (s.d.get("argType") or {}).get("qualType") or (s.children[0].strip(casts=True).type if s.children else None)
            n = sizeof_type(t, self.fn)
            if n is None:
                raise Unknown("sizeof(%s)" % t)
            return n
        raise Unknown(s.nsrc)

    @staticmethod
    def truth(v):
        if isinstance(v, str):
            raise Unknown("truth value of symbolic `%s`" % v)
        return bool(v)

    def assign(self, lhs, val):
        t = lhs.strip(casts=True)
        if t.kind == "ArraySubscriptExpr":
            base = t.children[0].path()
            idx = self.ev(t.children[1])
            arr = self.env.get(base)
            if isinstance(arr, list) and isinstance(idx, int) and 0 <= idx < len(arr):
                arr = list(arr)
                arr[idx] = val
                self.env[base] = arr
                return
            if isinstance(arr, list) and isinstance(idx, int):
                raise OutOfBounds("%s: `%s` writes element %d of an object of %d elements" % (self.fn.name, t.nsrc[:40], idx, len(arr)))
            raise Unknown(t.nsrc)
        p = t.path()
        if p is None:
            raise Unknown(t.nsrc)
        self.env[p] = val

    def run(self):
        """returns the value of the return statement reached (None for `return;` / falling off the end)"""
        g = _cfg.build_c(self.fn)
        cur = g.entry.id
        steps = 0
        fn = self.fn
        while True:
            steps += 1
            if steps > self.max_steps:
                raise AnalysisError("%s: evaluation did not terminate" % fn.name)
            n = g.nodes[cur]
            succ = g.succ[cur]
            if n is g.exit:
                return None
            try:
                if n.kind == "return":
                    return self.ev(n.ast.children[0]) if n.ast.children else None
                if n.kind == "cond":
                    lab = "T" if self.truth(self.ev(n.ast)) else "F"
                    nxt = [b for b, l in succ if l == lab]
                elif n.kind == "stmt" and n.label.startswith("switch("):
                    sel = self.ev(n.ast)
                    nxt = []
                    for b, l in succ:
                        if l and l.startswith("case "):
                            txt = l[5:].strip().strip("()")
                            try:
                                cv = int(txt)
                            except ValueError:
                                cv = txt
                            if cv == sel:
                                nxt = [b]
                    if not nxt:
                        nxt = [b for b, l in succ if l in ("default", "nodefault")]
                elif n.kind == "stmt":
                    a = n.ast
                    if a.kind == "BinaryOperator" and a.opcode == "=":
                        self.assign(a.children[0], self.ev(a.children[1]))
                    elif a.kind == "CompoundAssignOperator" and a.opcode in ("+=", "-="):
                        old = self.ev(a.children[0])
                        d = self.ev(a.children[1])
                        self.assign(a.children[0], old + d if a.opcode == "+=" else old - d)
                    elif a.kind == "UnaryOperator" and a.opcode in ("++", "--"):
                        old = self.ev(a.children[0])
                        self.assign(a.children[0], old + (1 if a.opcode == "++" else -1))
                    elif a.kind == "DeclStmt":
                        for d in a.children:
                            if d.kind == "VarDecl" and d.children and d.children[-1].kind not in ("RecordDecl",):
                                try:
                                    self.env[d.name] = self.ev(d.children[-1])
                                except Unknown:
                                    self.env.pop(d.name, None)
                    elif a.kind == "CallExpr":
                        try:
                            self.ev(a)
                        except Unknown as e:
                            if not str(e).endswith("()"):
                                raise
                    elif a.kind in ("NullStmt", "CompoundStmt", "BreakStmt", "ContinueStmt"):
                        pass
                    else:
                        raise Unknown("statement kind %s" % a.kind)
                    nxt = [b for b, l in succ]
                else:
                    nxt = [b for b, l in succ]
            except Unknown as e:
                raise AnalysisError("%s: cannot evaluate `%s` (%s unknown)" % (fn.name, n.label[:70], e))
            if len(nxt) != 1:
                raise AnalysisError("%s: %d successors at `%s`" % (fn.name, len(nxt), n.label[:60]))
            cur = nxt[0]
