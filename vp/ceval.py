"""Concrete execution of small, pure C functions over their CFG (finite decision tables by evaluation).

Used for functions whose result depends only on a few scalar parameters with a finite relevant domain (the numpy
dtype -> HDF5 type table).  Any statement the evaluator does not model is an analysis error, never a guess."""
from __future__ import annotations

from .core import AnalysisError
from . import cfg as _cfg


class Unknown(Exception):
    pass


def ev(e, env):
    s = e.strip(casts=True)
    k = s.kind
    if k == "IntegerLiteral" or k == "CharacterLiteral":
        return int(s.value)
    if k == "DeclRefExpr":
        if s.ref in env:
            return env[s.ref]
        raise Unknown(s.ref)
    if k == "UnaryOperator":
        v = ev(s.children[0], env)
        if s.opcode == "!":
            return int(not v)
        if s.opcode == "-":
            return -v
        if s.opcode == "+":
            return v
        raise Unknown(s.nsrc)
    if k == "BinaryOperator":
        op = s.opcode
        if op == "&&":
            return int(bool(ev(s.children[0], env)) and bool(ev(s.children[1], env)))
        if op == "||":
            return int(bool(ev(s.children[0], env)) or bool(ev(s.children[1], env)))
        a, b = ev(s.children[0], env), ev(s.children[1], env)
        if op == "==":
            return int(a == b)
        if op == "!=":
            return int(a != b)
        if op == "<":
            return int(a < b)
        if op == ">":
            return int(a > b)
        if op == "<=":
            return int(a <= b)
        if op == ">=":
            return int(a >= b)
        if op == "+":
            return a + b
        if op == "-":
            return a - b
        if op == "*":
            return a * b
        raise Unknown(s.nsrc)
    raise Unknown(s.nsrc)


def run(fn, env, max_steps=10000):
    """Execute fn with parameter values env; returns the ReturnStmt node reached (or None for falling off the end)."""
    g = _cfg.build_c(fn)
    env = dict(env)
    cur = g.entry.id
    steps = 0
    while True:
        steps += 1
        if steps > max_steps:
            raise AnalysisError("%s: evaluation did not terminate" % fn.name)
        n = g.nodes[cur]
        succ = g.succ[cur]
        if n is g.exit:
            return None
        try:
            if n.kind == "return":
                return n.ast
            if n.kind == "cond":
                v = ev(n.ast, env)
                lab = "T" if v else "F"
                nxt = [b for b, l in succ if l == lab]
            elif n.kind == "stmt" and n.label.startswith("switch("):
                sel = ev(n.ast, env)
                nxt = []
                for b, l in succ:
                    if l and l.startswith("case "):
                        try:
                            cv = int(l[5:].strip().strip("()"))
                        except ValueError:
                            cv = ord(l[5:].strip().strip("'")) if len(l[5:].strip().strip("'")) == 1 else None
                        if cv == sel:
                            nxt = [b]
                if not nxt:
                    nxt = [b for b, l in succ if l in ("default", "nodefault")]
            elif n.kind == "stmt":
                a = n.ast
                if a.kind == "BinaryOperator" and a.opcode == "=" and a.children[0].strip().kind == "DeclRefExpr":
                    env[a.children[0].strip().ref] = ev(a.children[1], env)
                elif a.kind == "DeclStmt":
                    for d in a.children:
                        if d.kind == "VarDecl" and d.children:
                            try:
                                env[d.name] = ev(d.children[-1], env)
                            except Unknown:
                                pass
                elif a.calls():
                    pass  # calls without a modelled effect (fprintf ...)
                nxt = [b for b, l in succ]
            else:
                nxt = [b for b, l in succ]
        except Unknown as e:
            raise AnalysisError("%s: cannot evaluate `%s` (value of %s unknown)" % (fn.name, n.label[:60], e))
        if len(nxt) != 1:
            raise AnalysisError("%s: %d successors at `%s`" % (fn.name, len(nxt), n.label[:60]))
        cur = nxt[0]
