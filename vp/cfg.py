"""Statement-level control-flow graphs for C (clang AST) and Python (ast), and
the path / dataflow queries the rules use.

Both builders decompose short-circuit conditions (`a && b`, `a or b`, `not a`)
into atomic condition nodes with T/F edges, so branch refinement is exact for
the idioms the repository uses.  The C sources are goto-free (checked by the
front-end), so the C CFG is reducible by construction.
"""
from __future__ import annotations

import ast

from .core import AnalysisError


class N(object):
    __slots__ = ("id", "kind", "ast", "label", "line")

    def __init__(self, id, kind, ast_node=None, label="", line=None):
        self.id = id
        self.kind = kind  # entry exit raise stmt cond return yield join
        self.ast = ast_node
        self.label = label
        self.line = line

    def __repr__(self):
        return "<%d %s %s L%s>" % (self.id, self.kind, self.label[:40], self.line)


class CFG(object):
    def __init__(self, name):
        self.name = name
        self.nodes = []
        self.succ = {}
        self.pred = {}
        self.entry = self.new("entry")
        self.exit = self.new("exit")  # normal return
        self.rexit = self.new("rexit")  # exceptional exit (Python)

    def new(self, kind, ast_node=None, label="", line=None):
        n = N(len(self.nodes), kind, ast_node, label, line)
        self.nodes.append(n)
        self.succ[n.id] = []
        self.pred[n.id] = []
        return n

    def edge(self, a, b, label=None):
        if a is None or b is None:
            return
        if (b.id, label) not in self.succ[a.id]:
            self.succ[a.id].append((b.id, label))
            self.pred[b.id].append((a.id, label))

    # ---- queries ---------------------------------------------------------
    def reach(self, starts, avoid=(), skip_labels=(), edge_filter=None):
        """Node ids reachable from `starts` (ids) without entering a node in `avoid`.
        Start nodes themselves are included (even if in avoid they are expanded)."""
        avoid = set(avoid)
        seen = set()
        stack = list(starts)
        while stack:
            a = stack.pop()
            if a in seen:
                continue
            seen.add(a)
            for b, lab in self.succ[a]:
                if lab in skip_labels or b in avoid:
                    continue
                if edge_filter is not None and not edge_filter(a, b, lab):
                    continue
                if b not in seen:
                    stack.append(b)
        return seen

    def rreach(self, targets, avoid=(), skip_labels=()):
        avoid = set(avoid)
        seen = set()
        stack = list(targets)
        while stack:
            a = stack.pop()
            if a in seen:
                continue
            seen.add(a)
            for b, lab in self.pred[a]:
                if lab in skip_labels or b in avoid:
                    continue
                if b not in seen:
                    stack.append(b)
        return seen

    def path(self, a, b, avoid=(), skip_labels=()):
        """A shortest path of node ids a..b avoiding `avoid`, or None."""
        avoid = set(avoid)
        prev = {a: None}
        q = [a]
        while q:
            nq = []
            for x in q:
                for y, lab in self.succ[x]:
                    if lab in skip_labels or y in prev:
                        continue
                    if y in avoid and y != b:
                        continue
                    prev[y] = x
                    if y == b:
                        out = [y]
                        while prev[out[-1]] is not None:
                            out.append(prev[out[-1]])
                        return list(reversed(out))
                    nq.append(y)
            q = nq
        return None

    def describe(self, ids):
        return ["%s L%s %s" % (self.nodes[i].kind, self.nodes[i].line, self.nodes[i].label[:70]) for i in ids]

    def dominators(self, skip_labels=()):
        ids = [n.id for n in self.nodes]
        reach = self.reach([self.entry.id], skip_labels=skip_labels)
        dom = {i: set(reach) for i in reach}
        dom[self.entry.id] = {self.entry.id}
        changed = True
        order = sorted(reach)
        while changed:
            changed = False
            for i in order:
                if i == self.entry.id:
                    continue
                ps = [p for p, lab in self.pred[i] if p in reach and lab not in skip_labels]
                if not ps:
                    continue
                new = set.intersection(*[dom[p] for p in ps]) | {i}
                if new != dom[i]:
                    dom[i] = new
                    changed = True
        return dom

    def solve(self, init, transfer, join, edge_transfer=None, skip_labels=()):
        """Forward dataflow fixpoint.  State at node entry; transfer(node, state) -> state after;
        edge_transfer(node, label, state) -> state or None (infeasible edge)."""
        IN = {self.entry.id: init}
        work = [self.entry.id]
        steps = 0
        while work:
            steps += 1
            if steps > 200000:
                raise AnalysisError("dataflow did not converge in %s" % self.name)
            a = work.pop()
            out = transfer(self.nodes[a], IN[a])
            for b, lab in self.succ[a]:
                if lab in skip_labels:
                    continue
                s = out
                if edge_transfer is not None:
                    s = edge_transfer(self.nodes[a], lab, out)
                    if s is None:
                        continue
                if b not in IN:
                    IN[b] = s
                    work.append(b)
                else:
                    j = join(IN[b], s)
                    if j != IN[b]:
                        IN[b] = j
                        work.append(b)
        return IN

    def find(self, pred):
        return [n for n in self.nodes if pred(n)]


# ===========================================================================
#  C builder
# ===========================================================================

class _CCtx(object):
    def __init__(self, parent=None, loop=False):
        self.breaks = []
        # `continue` target: collected by the innermost loop; a switch context inherits its parent's
        self.continues = [] if (loop or parent is None) else parent.continues


_LABELS_BY_ID = {}


def _label_name(fn, decl_id):
    """name of the label whose LabelDecl id is decl_id (clang JSON: LabelStmt carries declId and name)"""
    for n in fn.walk():
        if n.kind == "LabelStmt" and n.d.get("declId") == decl_id:
            _LABELS_BY_ID[(id(fn), decl_id)] = n.d.get("name")
            return n.d.get("name")
    from .core import AnalysisError
    raise AnalysisError("%s: goto to an unknown label" % fn.name)


def build_c(fn):
    """CFG of a C function (CNode FunctionDecl with body)."""
    g = CFG(fn.name)
    body = [c for c in fn.children if c.kind == "CompoundStmt"][0]
    labels = {}

    def label_node(name, line):
        if name not in labels:
            labels[name] = g.new("join", None, "label %s" % name, line)
        return labels[name]

    def cond(e, t_target, f_target, frm):
        """Wire condition expression e evaluated after node(s) `frm` -> returns nothing; creates cond nodes.
        frm: list of (node, label)."""
        s = e.strip()
        if s.kind == "BinaryOperator" and s.opcode == "&&":
            mid = g.new("join", None, "&&", s.line)
            cond(s.children[0], mid, f_target, frm)
            cond(s.children[1], t_target, f_target, [(mid, None)])
            return
        if s.kind == "BinaryOperator" and s.opcode == "||":
            mid = g.new("join", None, "||", s.line)
            cond(s.children[0], t_target, mid, frm)
            cond(s.children[1], t_target, f_target, [(mid, None)])
            return
        if s.kind == "UnaryOperator" and s.opcode == "!":
            cond(s.children[0], f_target, t_target, frm)
            return
        c = g.new("cond", s, s.nsrc, s.line)
        for (a, lab) in frm:
            g.edge(a, c, lab)
        g.edge(c, t_target, "T")
        g.edge(c, f_target, "F")

    def stmt(s, frm, ctx):
        """Build statement s; frm = list of (node,label) falling into it; returns list of (node,label) falling out."""
        k = s.kind
        if k == "CompoundStmt":
            cur = frm
            for c in s.children:
                cur = stmt(c, cur, ctx)
            return cur
        if k == "NullStmt" or k is None:
            return frm
        if k == "IfStmt":
            ch = s.children
            t_entry = g.new("join", None, "then", s.line)
            f_entry = g.new("join", None, "else", s.line)
            cond(ch[0], t_entry, f_entry, frm)
            out = stmt(ch[1], [(t_entry, None)], ctx)
            if len(ch) > 2:
                out = out + stmt(ch[2], [(f_entry, None)], ctx)
            else:
                out = out + [(f_entry, None)]
            return out
        if k == "WhileStmt":
            head = g.new("join", None, "while", s.line)
            for a, lab in frm:
                g.edge(a, head, lab)
            b_entry = g.new("join", None, "body", s.line)
            after = g.new("join", None, "endwhile", s.line)
            cond(s.children[0], b_entry, after, [(head, None)])
            c2 = _CCtx(ctx, loop=True)
            out = stmt(s.children[1], [(b_entry, None)], c2)
            for a, lab in out + [(c_, None) for c_ in c2.continues]:
                g.edge(a, head, "back" if lab is None else lab)
            res = [(after, None)] + [(b, None) for b in c2.breaks]
            return res
        if k == "DoStmt":
            b_entry = g.new("join", None, "do", s.line)
            for a, lab in frm:
                g.edge(a, b_entry, lab)
            after = g.new("join", None, "enddo", s.line)
            c2 = _CCtx(ctx, loop=True)
            out = stmt(s.children[0], [(b_entry, None)], c2)
            test = g.new("join", None, "dowhile", s.line)
            for a, lab in out + [(c_, None) for c_ in c2.continues]:
                g.edge(a, test, lab)
            back = g.new("join", None, "doback", s.line)
            cond(s.children[1], back, after, [(test, None)])
            g.edge(back, b_entry, "back")
            return [(after, None)] + [(b, None) for b in c2.breaks]
        if k == "ForStmt":
            ch = s.children  # init, condvar, cond, inc, body
            cur = frm
            if ch[0].kind is not None:
                cur = stmt(ch[0], cur, ctx)
            head = g.new("join", None, "for", s.line)
            for a, lab in cur:
                g.edge(a, head, lab)
            b_entry = g.new("join", None, "body", s.line)
            after = g.new("join", None, "endfor", s.line)
            if ch[2].kind is not None:
                cond(ch[2], b_entry, after, [(head, None)])
            else:
                g.edge(head, b_entry)
            c2 = _CCtx(ctx, loop=True)
            out = stmt(ch[4], [(b_entry, None)], c2)
            out = out + [(c_, None) for c_ in c2.continues]
            if ch[3].kind is not None:
                out = stmt(ch[3], out, c2)
            for a, lab in out:
                g.edge(a, head, "back" if lab is None else lab)
            return [(after, None)] + [(b, None) for b in c2.breaks]
        if k == "SwitchStmt":
            sel = g.new("stmt", s.children[0], "switch(%s)" % s.children[0].nsrc, s.line)
            for a, lab in frm:
                g.edge(a, sel, lab)
            c2 = _CCtx(ctx)
            bodyc = s.children[-1]
            cur = []
            has_default = False
            for c in (bodyc.children if bodyc.kind == "CompoundStmt" else [bodyc]):
                # unwrap nested case labels: CaseStmt(value, substmt)
                while c.kind in ("CaseStmt", "DefaultStmt"):
                    lab_node = g.new("join", None, c.nsrc.split(":")[0], c.line)
                    if c.kind == "CaseStmt":
                        g.edge(sel, lab_node, "case " + c.children[0].nsrc)
                    else:
                        g.edge(sel, lab_node, "default")
                        has_default = True
                    for a, lab in cur:
                        g.edge(a, lab_node, lab)
                    cur = [(lab_node, None)]
                    c = c.children[-1]
                cur = stmt(c, cur, c2)
            out = cur + [(b, None) for b in c2.breaks]
            if not has_default:
                out.append((sel, "nodefault"))
            return out
        if k == "BreakStmt":
            b = g.new("join", None, "break", s.line)
            for a, lab in frm:
                g.edge(a, b, lab)
            ctx.breaks.append(b)
            return []
        if k == "ContinueStmt":
            b = g.new("join", None, "continue", s.line)
            for a, lab in frm:
                g.edge(a, b, lab)
            ctx.continues.append(b)
            return []
        if k == "GotoStmt":
            target = s.d.get("targetLabelDeclId")
            name = _LABELS_BY_ID.get((id(fn), target)) or _label_name(fn, target)
            j = g.new("join", None, "goto %s" % name, s.line)
            for a, lab in frm:
                g.edge(a, j, lab)
            g.edge(j, label_node(name, s.line))
            return []
        if k == "LabelStmt":
            ln = label_node(s.d.get("name"), s.line)
            for a, lab in frm:
                g.edge(a, ln, lab)
            cur = [(ln, None)]
            for c in s.children:
                cur = stmt(c, cur, ctx)
            return cur
        if k == "ReturnStmt":
            r = g.new("return", s, s.nsrc, s.line)
            for a, lab in frm:
                g.edge(a, r, lab)
            g.edge(r, g.exit)
            return []
        # expression statement / declaration
        n = g.new("stmt", s, s.nsrc, s.line)
        for a, lab in frm:
            g.edge(a, n, lab)
        # calls to exit() terminate
        if s.kind == "CallExpr" and s.callee in ("exit", "abort"):
            return []
        return [(n, None)]

    out = stmt(body, [(g.entry, None)], _CCtx())
    for a, lab in out:
        g.edge(a, g.exit, lab)
    return g


# ===========================================================================
#  Python builder
# ===========================================================================

def _src(node, text_lines=None):
    try:
        return ast.unparse(node)
    except Exception:
        return type(node).__name__


class _PCtx(object):
    def __init__(self, parent=None):
        self.parent = parent
        self.break_to = parent.break_to if parent else None
        self.cont_to = parent.cont_to if parent else None
        self.handlers = parent.handlers if parent else None  # list of handler entry nodes (innermost try)
        self.finally_stack = list(parent.finally_stack) if parent else []


def build_py(fn):
    """CFG of a Python function (ast.FunctionDef).  Nested defs/lambdas are opaque statements.

    Exceptions: every statement inside a `try` body gets an 'exc' edge to each handler of the innermost
    enclosing try (and to the function's raise exit if no handler is a catch-all); statements outside any
    try get an 'exc' edge to the raise exit.  `raise` goes to the handlers / raise exit only."""
    g = CFG(fn.name)

    def exc_targets(ctx):
        return ctx.handlers if ctx.handlers is not None else [g.rexit]

    def cond(e, t_target, f_target, frm, ctx):
        if isinstance(e, ast.BoolOp):
            vals = e.values
            cur = frm
            for i, v in enumerate(vals):
                last = i == len(vals) - 1
                if isinstance(e.op, ast.And):
                    nxt = t_target if last else g.new("join", None, "and", e.lineno)
                    cond(v, nxt, f_target, cur, ctx)
                else:
                    nxt = f_target if last else g.new("join", None, "or", e.lineno)
                    cond(v, t_target, nxt, cur, ctx)
                cur = [(nxt, None)]
            return
        if isinstance(e, ast.UnaryOp) and isinstance(e.op, ast.Not):
            cond(e.operand, f_target, t_target, frm, ctx)
            return
        c = g.new("cond", e, _src(e), e.lineno)
        for a, lab in frm:
            g.edge(a, c, lab)
        g.edge(c, t_target, "T")
        g.edge(c, f_target, "F")
        for h in exc_targets(ctx):
            g.edge(c, h, "exc")

    def simple(s, frm, ctx, kind="stmt"):
        n = g.new(kind, s, _src(s).split("\n")[0], s.lineno)
        for a, lab in frm:
            g.edge(a, n, lab)
        for h in exc_targets(ctx):
            g.edge(n, h, "exc")
        return n

    def block(stmts, frm, ctx):
        cur = frm
        for s in stmts:
            cur = stmt(s, cur, ctx)
        return cur

    def stmt(s, frm, ctx):
        if isinstance(s, ast.If):
            t = g.new("join", None, "then", s.lineno)
            f = g.new("join", None, "else", s.lineno)
            cond(s.test, t, f, frm, ctx)
            out = block(s.body, [(t, None)], ctx)
            out = out + (block(s.orelse, [(f, None)], ctx) if s.orelse else [(f, None)])
            return out
        if isinstance(s, (ast.For, ast.AsyncFor)):
            it = simple(ast.Expr(value=s.iter, lineno=s.lineno, col_offset=0), frm, ctx)
            it.label = "iter " + _src(s.iter)
            it.ast = s.iter
            head = g.new("cond", s, "for %s in ..." % _src(s.target), s.lineno)
            for h in exc_targets(ctx):
                g.edge(head, h, "exc")
            b = g.new("join", None, "body", s.lineno)
            after = g.new("join", None, "endfor", s.lineno)
            els = g.new("join", None, "forelse", s.lineno)
            if isinstance(s.iter, (ast.Tuple, ast.List)) and s.iter.elts and not any(isinstance(e, ast.Starred) for e in s.iter.elts):
                g.edge(it, b)          # a literal non-empty sequence: the body runs at least once
            else:
                g.edge(it, head)
            g.edge(head, b, "T")
            g.edge(head, els, "F")
            c2 = _PCtx(ctx)
            c2.break_to = after
            c2.cont_to = head
            out = block(s.body, [(b, None)], c2)
            for a, lab in out:
                g.edge(a, head, "back" if lab is None else lab)
            eout = block(s.orelse, [(els, None)], ctx) if s.orelse else [(els, None)]
            for a, lab in eout:
                g.edge(a, after, lab)
            return [(after, None)]
        if isinstance(s, ast.While):
            head = g.new("join", None, "while", s.lineno)
            for a, lab in frm:
                g.edge(a, head, lab)
            b = g.new("join", None, "body", s.lineno)
            after = g.new("join", None, "endwhile", s.lineno)
            els = g.new("join", None, "whileelse", s.lineno)
            cond(s.test, b, els, [(head, None)], ctx)
            c2 = _PCtx(ctx)
            c2.break_to = after
            c2.cont_to = head
            out = block(s.body, [(b, None)], c2)
            for a, lab in out:
                g.edge(a, head, "back" if lab is None else lab)
            eout = block(s.orelse, [(els, None)], ctx) if s.orelse else [(els, None)]
            for a, lab in eout:
                g.edge(a, after, lab)
            return [(after, None)]
        if isinstance(s, ast.Try):
            hentries = []
            catch_all = False
            for h in s.handlers:
                hn = g.new("join", h, "except %s" % (_src(h.type) if h.type is not None else ""), h.lineno)
                hentries.append(hn)
                if h.type is None or (isinstance(h.type, ast.Name) and h.type.id in ("Exception", "BaseException")):
                    catch_all = True
            outer = exc_targets(ctx)
            c2 = _PCtx(ctx)
            c2.handlers = list(hentries) + ([] if catch_all else list(outer))
            if not s.handlers:
                c2.handlers = list(outer)
            out = block(s.body, frm, c2)
            if s.orelse:
                out = block(s.orelse, out, ctx)
            for h, hn in zip(s.handlers, hentries):
                out = out + block(h.body, [(hn, None)], ctx)
            if s.finalbody:
                # finally modelled on the normal path only (exceptional path through finally keeps the exc edge)
                out = block(s.finalbody, out, ctx)
            return out
        if isinstance(s, (ast.With, ast.AsyncWith)):
            cur = frm
            for item in s.items:
                n = simple(ast.Expr(value=item.context_expr, lineno=s.lineno, col_offset=0), cur, ctx)
                n.ast = item
                n.label = "with " + _src(item.context_expr) + (" as " + _src(item.optional_vars) if item.optional_vars else "")
                n.kind = "stmt"
                cur = [(n, None)]
            out = block(s.body, cur, ctx)
            wexit = g.new("join", s, "endwith", getattr(s, "end_lineno", s.lineno))
            for a, lab in out:
                g.edge(a, wexit, lab)
            return [(wexit, None)]
        if isinstance(s, ast.Return):
            n = simple(s, frm, ctx, "return")
            g.edge(n, g.exit)
            return []
        if isinstance(s, ast.Raise):
            n = g.new("raise", s, _src(s).split("\n")[0], s.lineno)
            for a, lab in frm:
                g.edge(a, n, lab)
            for h in exc_targets(ctx):
                g.edge(n, h, "exc")
            return []
        if isinstance(s, ast.Break):
            n = g.new("join", s, "break", s.lineno)
            for a, lab in frm:
                g.edge(a, n, lab)
            g.edge(n, ctx.break_to)
            return []
        if isinstance(s, ast.Continue):
            n = g.new("join", s, "continue", s.lineno)
            for a, lab in frm:
                g.edge(a, n, lab)
            g.edge(n, ctx.cont_to, "back")
            return []
        if isinstance(s, (ast.FunctionDef, ast.AsyncFunctionDef, ast.ClassDef)):
            n = g.new("stmt", s, "def %s" % s.name, s.lineno)
            for a, lab in frm:
                g.edge(a, n, lab)
            return [(n, None)]
        if isinstance(s, ast.Pass):
            return frm
        n = simple(s, frm, ctx)
        # yields are ordinary statements for our purposes but tagged
        for sub in ast.walk(s):
            if isinstance(sub, (ast.Yield, ast.YieldFrom)):
                n.kind = "yield"
                break
        return [(n, None)]

    out = block(fn.body, [(g.entry, None)], _PCtx())
    for a, lab in out:
        g.edge(a, g.exit, lab)
    return g
