"""Outcome enumeration of a loop-free Python function: every acyclic path through its statements with the path condition as
a propositional formula (pybool / cbool) and the returned expression with the local assignments substituted.

Handled statements: assignments to plain names (tuple targets element-wise), expression statements, if / elif / else, return,
pass, the single-iteration blocks `for __once_k in (None,): ... break ... else: ...` that pyinline leaves for helpers with
several returns, and try / except: every statement of the try body that contains a call forks into "completes" and "raises",
the latter recorded as the ghost atom `raises:<statement>` and continued in each handler (handler types are not matched: the
fork is over-approximate, every handler is a possible continuation) - the ghost atom tells the rule which values exist.
Real loops, with-blocks, nested function definitions, augmented assignments to names read later in conditions and anything
else are not interpreted: AnalysisError (exit 2), never a verdict.

The engine evaluates nothing concretely: expressions stay syntax, conditions become formulas over canonical atoms.  Folding is
limited to facts that hold for every value: `None is None`, `<constant> is None`, and `<constructor call> is None` for the
constructors in NEVER_NONE."""
from __future__ import annotations

import ast
import copy

from .core import AnalysisError, norm
from . import pybool, cbool, pysym

NEVER_NONE = ("int", "float", "str", "bool", "len", "datetime.timedelta", "datetime.datetime", "abs")


class Outcome(object):
    def __init__(self, cond, value, node, env):
        self.cond = cond          # formula
        self.value = value        # ast expression (substituted) or None (fell off the end / bare return)
        self.node = node          # the Return statement (None: end of function)
        self.env = env


def _call_name(c):
    parts = []
    f = c.func
    while isinstance(f, ast.Attribute):
        parts.append(f.attr)
        f = f.value
    if isinstance(f, ast.Name):
        parts.append(f.id)
        return ".".join(reversed(parts))
    return None


class _Fold(ast.NodeTransformer):
    """`X is None` / `X is not None` folded for X a constant or a call of a constructor that never returns None"""
    def visit_Compare(self, node):
        self.generic_visit(node)
        if len(node.ops) == 1 and isinstance(node.ops[0], (ast.Is, ast.IsNot)) and isinstance(node.comparators[0], ast.Constant) \
                and node.comparators[0].value is None:
            x = node.left
            val = None
            if isinstance(x, ast.Constant):
                val = x.value is None
            elif isinstance(x, ast.Call) and _call_name(x) in NEVER_NONE:
                val = False
            if val is not None:
                if isinstance(node.ops[0], ast.IsNot):
                    val = not val
                return ast.copy_location(ast.Constant(val), node)
        return node

    def visit_UnaryOp(self, node):
        self.generic_visit(node)
        if isinstance(node.op, ast.Not) and isinstance(node.operand, ast.Constant) and isinstance(node.operand.value, bool):
            return ast.copy_location(ast.Constant(not node.operand.value), node)
        return node

    def visit_BoolOp(self, node):
        self.generic_visit(node)
        vals = []
        for v in node.values:
            if isinstance(v, ast.Constant) and isinstance(v.value, bool):
                if isinstance(node.op, ast.And):
                    if v.value:
                        continue
                    if not vals:
                        return ast.copy_location(ast.Constant(False), node)
                    vals.append(v)
                    break
                else:
                    if not v.value:
                        continue
                    if not vals:
                        return ast.copy_location(ast.Constant(True), node)
                    vals.append(v)
                    break
            else:
                vals.append(v)
        if not vals:
            return ast.copy_location(ast.Constant(isinstance(node.op, ast.And)), node)
        if len(vals) == 1:
            return vals[0]
        node.values = vals
        return node


def fold(e):
    return _Fold().visit(copy.deepcopy(e))


def is_once_block(st):
    return isinstance(st, ast.For) and isinstance(st.target, ast.Name) and st.target.id.startswith("__once_") \
        and isinstance(st.iter, ast.Tuple) and len(st.iter.elts) == 1


class _Break(Exception):
    pass


def outcomes(fn, rewrite=None, max_paths=4096):
    """[Outcome] of fn (an ast.FunctionDef, usually a pyinline flat view).  `rewrite(expr) -> expr` is applied to every
    substituted expression before it is stored or turned into a formula (rules use it to canonicalise sub-expressions)."""
    results = []
    count = [0]

    def sub(e, env):
        x = pysym.subst(e, env)
        if rewrite is not None:
            x = rewrite(x)
        return fold(x)

    def has_call(st):
        return any(isinstance(x, ast.Call) for x in ast.walk(st))

    # continuation-passing walk: run(stmts, env, cond, k) calls k(env, cond) at the normal end of stmts
    def run(stmts, env, cond, k, brk, exc):
        if not stmts:
            return k(env, cond)
        st, rest = stmts[0], stmts[1:]
        count[0] += 1
        if count[0] > max_paths * 64:
            raise AnalysisError("%s: too many paths" % fn.name)

        def nxt(env2, cond2):
            return run(rest, env2, cond2, k, brk, exc)
        if exc is not None and has_call(st) and not isinstance(st, (ast.If, ast.Try, ast.For)):
            # inside a try body: the statement may raise
            atom = ("atom", "raises:" + norm(ast.unparse(pysym.subst(st, env) if not isinstance(st, ast.Assign) else pysym.subst(st.value, env))))
            exc(env, cbool.conj([cond, atom]))
            cond = cbool.conj([cond, ("not", atom)])
        if isinstance(st, ast.Pass) or (isinstance(st, ast.Expr)):
            return nxt(env, cond)
        if isinstance(st, ast.Assign):
            env2 = dict(env)
            val = sub(st.value, env)
            for t in st.targets:
                if isinstance(t, ast.Name):
                    env2[t.id] = val
                elif isinstance(t, (ast.Tuple, ast.List)) and all(isinstance(x, ast.Name) for x in t.elts):
                    if isinstance(val, (ast.Tuple, ast.List)) and len(val.elts) == len(t.elts):
                        for x, v in zip(t.elts, val.elts):
                            env2[x.id] = v
                    else:
                        for i, x in enumerate(t.elts):
                            env2[x.id] = ast.Subscript(val, ast.Constant(i), ast.Load())
                elif isinstance(t, (ast.Attribute, ast.Subscript)):
                    pass      # stores into objects: the names the rules read are plain locals and self.<attr> of the caller's making
                else:
                    raise AnalysisError("%s: assignment target `%s` not interpreted" % (fn.name, norm(ast.unparse(t))))
            return nxt(env2, cond)
        if isinstance(st, ast.AugAssign) and isinstance(st.target, ast.Name):
            env2 = dict(env)
            old = env.get(st.target.id, ast.Name(st.target.id, ast.Load()))
            env2[st.target.id] = fold(ast.BinOp(copy.deepcopy(old), st.op, sub(st.value, env)))
            return nxt(env2, cond)
        if isinstance(st, ast.Return):
            results.append(Outcome(cond, sub(st.value, env) if st.value is not None else None, st, env))
            if len(results) > max_paths:
                raise AnalysisError("%s: more than %d paths" % (fn.name, max_paths))
            return
        if isinstance(st, ast.If):
            f = pybool.truth(sub(st.test, env))
            ct = cbool.conj([cond, f])
            cf = cbool.conj([cond, ("not", f)])
            if f != ("false",):
                run(list(st.body), env, ct, nxt, brk, exc)
            if f != ("true",):
                run(list(st.orelse), env, cf, nxt, brk, exc)
            return
        if isinstance(st, ast.Break):
            if brk is None:
                raise AnalysisError("%s: `break` outside a single-iteration block" % fn.name)
            return brk(env, cond)
        if is_once_block(st):
            def after_normal(env2, cond2):
                return run(list(st.orelse), env2, cond2, nxt, brk, exc)
            return run(list(st.body), env, cond, after_normal, nxt, exc)
        if isinstance(st, ast.Try):
            if st.finalbody:
                raise AnalysisError("%s: try/finally not interpreted" % fn.name)

            def handlers(env2, cond2):
                for h in st.handlers:
                    e3 = dict(env2)
                    if h.name:
                        e3[h.name] = ast.Name("<exception>", ast.Load())
                    run(list(h.body), e3, cond2, nxt, brk, exc)

            def after_body(env2, cond2):
                return run(list(st.orelse), env2, cond2, nxt, brk, exc)
            return run(list(st.body), env, cond, after_body, brk, handlers)
        if isinstance(st, ast.Raise):
            if exc is not None:
                return exc(env, cond)
            results.append(Outcome(cond, ast.Name("<raise>", ast.Load()), st, env))
            return
        raise AnalysisError("%s: statement `%s` is not interpreted by the outcome enumeration (loop-free functions only)" % (
            fn.name, norm(ast.unparse(st))[:60]))

    def end(env, cond):
        results.append(Outcome(cond, None, None, env))
    body = [s for s in fn.body if not (isinstance(s, ast.Expr) and isinstance(s.value, ast.Constant))]
    run(body, {}, ("true",), end, None, None)
    return [o for o in results if not _unsat(o.cond)]


def _unsat(f):
    ats = sorted(cbool.atoms(f))
    if len(ats) > 14:
        return False
    n = len(ats)
    for bits in range(1 << n):
        val = {a: bool(bits >> i & 1) for i, a in enumerate(ats)}
        if cbool.ev(f, val):
            return False
    return True


def false_when(outs):
    """formula: the function returns a false value (False, None, falling off the end); the truth of other returned expressions
    is their pybool formula"""
    parts = []
    for o in outs:
        if o.value is None:
            parts.append(o.cond)
        elif isinstance(o.value, ast.Name) and o.value.id == "<raise>":
            continue
        else:
            parts.append(cbool.conj([o.cond, ("not", pybool.truth(o.value))]))
    return cbool.disj(parts) if parts else ("false",)
