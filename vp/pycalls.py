"""Package call graph and role reachability for the Python package.

Resolution order for a call inside function F of class C (module M):
  self.m()            -> m in C, then in C's bases (static MRO over package classes); if C is a mixin whose
                         method is provided by a sibling at composition time -> imprecise edge to every
                         same-named method of the module
  super(X, self).m()  -> m in X's bases; for mixins (bases = object) -> imprecise, same-named methods of module
  f() / Class()       -> module-level function / Class.__init__ (same module or `from .mod import name`)
  mod.f() / mod.C()   -> function/class of the sibling module `mod`
  v.m() where v = C2(...) or v = <call returning a C2 instance> -> C2.m
  receiver bound to a builtin / third-party call (open, urlopen, h5py.File, os.*, np.*) -> external (no edge)
  anything else       -> imprecise edge to every same-named method in the package
A verdict that depends only on imprecise edges is reported as `imprecise`, never as a violation.
"""
from __future__ import annotations

import ast

from . import pyfront

EXTERNAL_ROOTS = {"os", "np", "numpy", "h5py", "re", "glob", "datetime", "time", "warnings", "six", "collections",
                  "itertools", "shutil", "sys", "traceback", "fractions", "packaging", "copy", "bisect", "uuid",
                  "threading", "errno", "math", "urllib", "pandas", "argparse", "filecmp", "watchdog", "dateutil",
                  "pytz", "string", "ast"}
BUILTINS = {"int", "len", "str", "list", "dict", "sorted", "reversed", "range", "isinstance", "print", "open", "next",
            "any", "all", "max", "min", "sum", "bool", "float", "enumerate", "zip", "getattr", "hasattr", "set",
            "tuple", "type", "super", "iter", "map", "filter", "abs", "round", "repr", "id", "format", "bytes",
            "ValueError", "IOError", "TypeError", "KeyError", "RuntimeError", "OSError", "IndexError", "NotImplementedError"}


class Graph(object):
    def __init__(self, repo=None):
        self.pkg = pyfront.package(repo)
        self.funcs = {}  # "mod:qual" -> (Module, FunctionDef)
        self.classes = {}  # "mod:Class" -> (Module, ClassDef)
        for mn, m in self.pkg.items():
            for q, f in m.functions.items():
                self.funcs["%s:%s" % (mn, q)] = (m, f)
            for q, c in m.classes.items():
                self.classes["%s:%s" % (mn, q)] = (m, c)
        self.by_method = {}
        for k in self.funcs:
            self.by_method.setdefault(k.split(".")[-1].split(":")[-1], []).append(k)
        self.imports = {}  # mod -> {local name: ("mod", target module) | ("name", module, name)}
        for mn, m in self.pkg.items():
            imp = {}
            for s in ast.walk(m.tree):
                if isinstance(s, ast.ImportFrom) and s.level == 1:
                    for a in s.names:
                        if s.module is None and a.name in self.pkg:
                            imp[a.asname or a.name] = ("mod", a.name)
                        elif s.module in self.pkg:
                            imp[a.asname or a.name] = ("name", s.module, a.name)
            self.imports[mn] = imp
        self.edges = {}
        self.imprecise = {}
        for k in self.funcs:
            self._build(k)

    # -- class helpers --
    def bases(self, ck):
        m, c = self.classes[ck]
        out = []
        for b in c.bases:
            d = pyfront.dotted(b)
            if d is None:
                continue
            r = self._resolve_name(m.name, d)
            if r and r in self.classes:
                out.append(r)
        return out

    def mro(self, ck):
        out = [ck]
        for b in self.bases(ck):
            for x in self.mro(b):
                if x not in out:
                    out.append(x)
        return out

    def find_method(self, ck, name, skip_self=False):
        for c in self.mro(ck)[1 if skip_self else 0:]:
            k = "%s.%s" % (c, name)
            if k in self.funcs:
                return k
        return None

    def _resolve_name(self, mn, dotted):
        parts = dotted.split(".")
        if len(parts) == 1:
            k = "%s:%s" % (mn, parts[0])
            if k in self.funcs or k in self.classes:
                return k
            imp = self.imports[mn].get(parts[0])
            if imp and imp[0] == "name":
                return "%s:%s" % (imp[1], imp[2])
            return None
        imp = self.imports[mn].get(parts[0])
        if imp and imp[0] == "mod":
            return "%s:%s" % (imp[1], ".".join(parts[1:]))
        k = "%s:%s" % (mn, dotted)
        if k in self.funcs or k in self.classes:
            return k
        return None

    def class_of(self, fk):
        mn, q = fk.split(":")
        parts = q.split(".")
        for i in range(len(parts) - 1, 0, -1):
            ck = "%s:%s" % (mn, ".".join(parts[:i]))
            if ck in self.classes:
                return ck
        return None

    def returns_class(self, fk):
        """Class key if every `return <name>` of function fk returns a local bound to one constructor call."""
        m, f = self.funcs[fk]
        binds = self._local_classes(m.name, f)
        out = set()
        for n in pyfront.walk_no_nested(f):
            if isinstance(n, ast.Return) and n.value is not None:
                if isinstance(n.value, ast.Name) and n.value.id in binds:
                    out.add(binds[n.value.id])
                elif isinstance(n.value, ast.Call):
                    r = self._resolve_name(m.name, pyfront.call_name(n.value) or "")
                    if r in self.classes:
                        out.add(r)
                    else:
                        return None
                elif isinstance(n.value, ast.Subscript):
                    continue  # cache lookups such as self._cache[key]
                else:
                    return None
        return out.pop() if len(out) == 1 else None

    def _local_classes(self, mn, f, depth=0):
        binds = {}
        for n in pyfront.walk_no_nested(f):
            if isinstance(n, ast.Assign) and len(n.targets) == 1 and isinstance(n.targets[0], ast.Name) \
                    and isinstance(n.value, ast.Call):
                d = pyfront.call_name(n.value) or ""
                r = self._resolve_name(mn, d)
                if r in self.classes:
                    binds[n.targets[0].id] = r
                elif depth == 0 and d.startswith("self."):
                    ck = None
                    # method of the same class returning an instance
                    for k in self.funcs:
                        pass
                    binds.setdefault(n.targets[0].id, ("call", d))
        return binds

    def _build(self, fk):
        m, f = self.funcs[fk]
        mn = m.name
        ck = self.class_of(fk)
        edges = []
        imprecise = []
        binds = self._local_classes(mn, f)
        for c in pyfront.walk_no_nested(f):
            if not isinstance(c, ast.Call):
                continue
            d = pyfront.call_name(c)
            if d is None:
                continue
            parts = d.split(".")
            tgt = None
            if parts[0] == "self" and len(parts) == 2 and ck:
                tgt = self.find_method(ck, parts[1])
                if tgt is None:
                    ext_base = any(pyfront.dotted(b) and self._resolve_name(mn, pyfront.dotted(b)) not in self.classes
                                   and pyfront.dotted(b) != "object" for b in self.classes[ck][1].bases)
                    cands = [k for k in self.by_method.get(parts[1], []) if k.startswith(mn + ":")]
                    if cands:
                        imprecise.append((c, cands))
                    continue
            elif parts[0] == "super()" and len(parts) == 2 and ck:
                tgt = self.find_method(ck, parts[1], skip_self=True)
                if tgt is None:
                    cands = [k for k in self.by_method.get(parts[1], []) if k.startswith(mn + ":") and not k.startswith(ck + ".")]
                    if cands:
                        imprecise.append((c, cands))
                    continue
            elif parts[0] in EXTERNAL_ROOTS or d in BUILTINS:
                continue
            else:
                r = self._resolve_name(mn, d)
                if r in self.classes:
                    tgt = self.find_method(r, "__init__")
                    if tgt is None:
                        continue
                elif r in self.funcs:
                    tgt = r
                elif len(parts) == 2 and parts[0] in binds:
                    b = binds[parts[0]]
                    if isinstance(b, tuple):
                        # v = self.m2(...); v.m()  -> class returned by m2
                        m2 = self.find_method(ck, b[1].split(".")[1]) if ck else None
                        rc = self.returns_class(m2) if m2 else None
                        if rc:
                            tgt = self.find_method(rc, parts[1])
                    else:
                        tgt = self.find_method(b, parts[1])
                    if tgt is None:
                        continue
                elif len(parts) >= 2 and parts[-1] in self.by_method and parts[0] not in ("self",):
                    # unknown receiver: imprecise unless the receiver is a known external value
                    recv = parts[0]
                    if recv in ("f", "fo", "fi", "grp", "queue", "m", "r", "parser", "args", "event", "observer", "key",
                                "val", "value", "arr", "z", "sample_arr", "ret_dict", "md", "d", "dt", "path", "s"):
                        continue
                    imprecise.append((c, self.by_method[parts[-1]]))
                    continue
                else:
                    continue
            if tgt:
                edges.append((c, tgt))
        self.edges[fk] = edges
        self.imprecise[fk] = imprecise

    def reachable(self, starts, use_imprecise=False):
        """fk -> (parent fk, call node) for every function reachable from starts."""
        prev = {s: None for s in starts}
        st = list(starts)
        while st:
            a = st.pop()
            nxt = [(c, t) for c, t in self.edges.get(a, [])]
            if use_imprecise:
                for c, cands in self.imprecise.get(a, []):
                    nxt.extend((c, t) for t in cands)
            for c, t in nxt:
                if t not in prev:
                    prev[t] = (a, c)
                    st.append(t)
        return prev

    def chain(self, prev, fk):
        out = [fk]
        while prev.get(out[-1]) is not None:
            out.append(prev[out[-1]][0])
        return list(reversed(out))


MUTATORS = {"os.remove", "os.unlink", "os.rmdir", "os.removedirs", "os.rename", "os.replace", "os.renames", "os.mkdir",
            "os.makedirs", "os.link", "os.symlink", "os.truncate", "os.chmod", "os.utime", "shutil.move", "shutil.copy",
            "shutil.copy2", "shutil.copyfile", "shutil.rmtree", "shutil.copytree", "np.save", "np.savez", "np.savetxt"}


def mutator_calls(fn):
    """(call node, description) for file-system mutators directly in fn."""
    out = []
    for c in pyfront.walk_no_nested(fn):
        if not isinstance(c, ast.Call):
            continue
        d = pyfront.call_name(c) or ""
        if d in MUTATORS:
            out.append((c, d))
        elif d == "open":
            mode = pyfront.kwarg(c, "mode", 1)
            mv = pyfront.const(mode) if mode is not None else "r"
            if mv is None or any(ch in str(mv) for ch in "wax+"):
                out.append((c, "open(mode=%r)" % mv))
        elif d == "h5py.File":
            mode = pyfront.kwarg(c, "mode", 1)
            mv = pyfront.const(mode) if mode is not None else "r"
            if mv != "r":
                out.append((c, "h5py.File(mode=%r)" % mv))
        elif d.split(".")[-1] in ("write_text", "write_bytes", "unlink", "touch") and len(d.split(".")) >= 2 \
                and d.split(".")[0] not in ("fo", "f", "self"):
            out.append((c, d))
    return out
