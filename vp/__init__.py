"""vp - repository-specific static analysis of MITHaystack/digital_rf.

Nothing in this package imports, builds or executes digital_rf code.  The C
sources are read through clang's type-resolved JSON AST, the Python sources
through `ast`, regular expressions through `re._parser`.
"""
