"""Finite decision-table extraction: abstract execution of straight-line code with if/elif chains whose tests are
Boolean combinations of named flags (x, not x, x is None, a and b, `any(RE.match(f) for f in props)` as flag
'has:RE').  Records assignments, `.append(NAME)` actions and early returns."""
from __future__ import annotations

import ast

from .core import AnalysisError
from . import pyfront



def _has_sym(v):
    """an unresolved marker ("sym", text), or a tuple / list that contains one"""
    if isinstance(v, tuple) and len(v) == 2 and v[0] == "sym" and isinstance(v[1], str):
        return True
    if isinstance(v, (tuple, list)):
        return any(_has_sym(x) for x in v)
    return False


class Stop(Exception):
    pass


class _Break(Exception):
    pass


class _Continue(Exception):
    pass


class Interp(object):
    def __init__(self, env, consts=None, methods=None, module=None):
        self.env = dict(env)
        self.consts = consts or {}
        self.methods = methods or {}  # name -> FunctionDef of same-class methods that may be inlined (self._m())
        self.module = module          # pyfront.Module: module-level constants (tuples, dicts) and private functions are resolved lazily
        self._mod_cache = {}
        self.depth = 0
        self.appends = {}
        self.returned = False
        self.raised = False
        self.calls = []
        self.record = set()
        self.built = []
        self.retval = None

    def ev(self, e):
        if isinstance(e, ast.Constant):
            return e.value
        if isinstance(e, ast.Name):
            if e.id in self.env:
                return self.env[e.id]
            if e.id in self.consts:
                return self.consts[e.id]
            if self.module is not None:
                if e.id in self._mod_cache:
                    return self._mod_cache[e.id]
                v = self.module.module_assign(e.id)
                if isinstance(v, (ast.Dict, ast.Tuple, ast.List, ast.Constant)) or (
                        isinstance(v, ast.Call) and pyfront.call_name(v) in ("tuple", "list", "frozenset") and len(v.args) == 1):
                    self._mod_cache[e.id] = ("sym", e.id)
                    try:
                        val = self.ev(v)
                    except AnalysisError:
                        val = ("sym", e.id)
                    self._mod_cache[e.id] = val
                    return val
            return ("sym", e.id)
        if isinstance(e, ast.BoolOp):
            if isinstance(e.op, ast.And):
                v = True
                for x in e.values:
                    v = self.ev(x)
                    if not self.truth(v):
                        return v
                return v
            v = False
            for x in e.values:
                v = self.ev(x)
                if self.truth(v):
                    return v
            return v
        if isinstance(e, ast.UnaryOp) and isinstance(e.op, ast.Not):
            return not self.truth(self.ev(e.operand))
        if isinstance(e, ast.Compare) and len(e.ops) == 1:
            a, b = self.ev(e.left), self.ev(e.comparators[0])
            for v_, o_ in ((a, b), (b, a)):
                # an unresolved value is a ("sym", text) marker - itself a tuple: comparing with it would silently give an answer
                if isinstance(v_, tuple) and len(v_) == 2 and v_[0] == "sym":
                    if o_ is None and isinstance(e.ops[0], (ast.Is, ast.IsNot)) and self.module is not None and isinstance(v_[1], str) \
                            and v_[1].isidentifier():
                        # a module-level name bound once to something that is not the constant None
                        mv = self.module.module_assign(v_[1])
                        if mv is not None and not (isinstance(mv, ast.Constant) and mv.value is None):
                            return isinstance(e.ops[0], ast.IsNot)
                        # ... or imported from a sibling module, where (by the package's convention, checked by the rules that
                        # consume the names) it is a compiled regular expression or a function
                        if mv is None and any(isinstance(st_, (ast.ImportFrom, ast.Import)) and any((a_.asname or a_.name) == v_[1] for a_ in st_.names)
                                              for st_ in self.module.tree.body):
                            return isinstance(e.ops[0], ast.IsNot)
                    raise AnalysisError("decision table: comparison `%s` with the unresolved value `%s`" % (ast.unparse(e), v_[1]))
            if isinstance(e.ops[0], ast.Is):
                return a is b
            if isinstance(e.ops[0], ast.IsNot):
                return a is not b
            if isinstance(e.ops[0], ast.Eq):
                return a == b
            if isinstance(e.ops[0], ast.NotEq):
                return a != b
            if isinstance(e.ops[0], ast.In) and isinstance(b, (list, tuple)):
                return a in b
            if isinstance(e.ops[0], ast.NotIn) and isinstance(b, (list, tuple)):
                return a not in b
        if isinstance(e, ast.Call) and pyfront.call_name(e) == "any" and e.args and isinstance(e.args[0], ast.GeneratorExp):
            elt = e.args[0].elt
            if isinstance(elt, ast.Call) and isinstance(elt.func, ast.Attribute) and elt.func.attr == "match":
                k = "has:" + (pyfront.dotted(elt.func.value) or "?")
                if k in self.env:
                    return self.env[k]
        if isinstance(e, ast.Dict):
            out = {}
            for k, v in zip(e.keys, e.values):
                if k is None:
                    raise AnalysisError("decision table: dict unpacking")
                kk = self.ev(k)
                out[tuple(kk) if isinstance(kk, list) else kk] = self.ev(v)
            return out
        if isinstance(e, ast.Subscript):
            base = self.ev(e.value)
            idx = self.ev(e.slice)
            idx = tuple(idx) if isinstance(idx, list) else idx
            if isinstance(base, dict) and idx in base:
                return base[idx]
            if isinstance(base, list) and isinstance(idx, int) and -len(base) <= idx < len(base):
                return base[idx]
            return ("sym", ast.unparse(e))
        if isinstance(e, ast.IfExp):
            return self.ev(e.body) if self.truth(self.ev(e.test)) else self.ev(e.orelse)
        if isinstance(e, ast.Call):
            d = pyfront.call_name(e) or ""
            if d in self.record:
                return self._build("<expr>", d, e)
            if d.startswith("self.") and d[5:] in self.methods and self.depth < 4:
                return self._call_method(self.methods[d[5:]], e)
            if self.module is not None and d in self.module.functions and "." not in d and d.startswith("_") and self.depth < 4:
                return self._call_method(self.module.functions[d], e)
            if isinstance(e.func, ast.Attribute) and e.func.attr == "get" and 1 <= len(e.args) <= 2:
                base = self.ev(e.func.value)
                if isinstance(base, dict):
                    k = self.ev(e.args[0])
                    k = tuple(k) if isinstance(k, list) else k
                    if not _has_sym(k):
                        return base.get(k, self.ev(e.args[1]) if len(e.args) == 2 else None)
                    # a key that was not evaluated: the lookup has no answer (not "the default")
                    return ("sym", ast.unparse(e))
            if d in ("any", "all") and len(e.args) == 1 and not e.keywords:
                v = self.ev(e.args[0])
                if isinstance(v, list):
                    truths = [self.truth(x) for x in v]
                    return any(truths) if d == "any" else all(truths)
            if d in ("tuple", "list") and len(e.args) == 1 and not e.keywords:
                v = self.ev(e.args[0])
                if isinstance(v, list):
                    return list(v)
            if isinstance(e.func, ast.Attribute) and e.func.attr in ("values", "keys") and not e.args and not e.keywords:
                base = self.ev(e.func.value)
                if isinstance(base, dict):
                    return list(base.values()) if e.func.attr == "values" else list(base.keys())
            if d in ("bool", "int", "str") and len(e.args) == 1:
                v = self.ev(e.args[0])
                if not (isinstance(v, tuple) and v and v[0] in ("sym", "obj")):
                    return {"bool": bool, "int": int, "str": str}[d](v)
            for a in list(e.args) + [k.value for k in e.keywords]:
                self._scan_calls(a)
            return ("sym", ast.unparse(e))
        if isinstance(e, (ast.ListComp, ast.GeneratorExp)) and len(e.generators) == 1 and isinstance(e.generators[0].target, ast.Name) \
                and not e.generators[0].is_async:
            # [elt for v in <finite list> if <tests>] with the variable bound in turn
            items = self.ev(e.generators[0].iter)
            if not isinstance(items, list):
                raise AnalysisError("decision table: comprehension over `%s`" % ast.unparse(e.generators[0].iter))
            v_ = e.generators[0].target.id
            had, old_ = v_ in self.env, self.env.get(v_)
            out = []
            try:
                for it_ in items:
                    self.env[v_] = it_
                    if all(self.truth(self.ev(t_)) for t_ in e.generators[0].ifs):
                        out.append(self.ev(e.elt))
            finally:
                if had:
                    self.env[v_] = old_
                else:
                    self.env.pop(v_, None)
            return out
        if isinstance(e, ast.List) and not e.elts:
            return []
        if isinstance(e, (ast.Tuple, ast.List)):
            out = []
            for x in e.elts:
                try:
                    out.append(self.ev(x))
                except AnalysisError:
                    out.append(("sym", ast.unparse(x)))
            return out
        if isinstance(e, ast.Attribute):
            d = pyfront.dotted(e)
            if d in self.env:
                return self.env[d]
            return ("sym", d)
        raise AnalysisError("decision table: cannot evaluate `%s`" % ast.unparse(e))

    def _build(self, name, d, call):
        kw = {}
        for k in call.keywords:
            try:
                v = self.ev(k.value)
            except AnalysisError:
                v = ("sym", ast.unparse(k.value))
            if k.arg is None:
                if isinstance(v, dict):
                    kw.update(v)            # **kwargs collected by a helper
                continue
            kw[k.arg] = v
        self.built.append((name, d, kw, call))
        return ("obj", "%s#%d" % (d, len(self.built)))

    def _call_method(self, f, call):
        """abstract execution of a same-class helper method with its parameters bound; returns its return value"""
        saved = dict(self.env)
        params = [a.arg for a in f.args.args if a.arg != "self"]
        defaults = f.args.defaults
        bound = {}
        for p_, d_ in zip(params[len(params) - len(defaults):], defaults):
            try:
                bound[p_] = self.ev(d_)
            except AnalysisError:
                bound[p_] = ("sym", ast.unparse(d_))
        for p_, a_ in zip(params, call.args):
            try:
                bound[p_] = self.ev(a_)
            except AnalysisError:
                bound[p_] = ("sym", ast.unparse(a_))
        extra = {}
        for k in call.keywords:
            if k.arg:
                try:
                    v = self.ev(k.value)
                except AnalysisError:
                    v = ("sym", ast.unparse(k.value))
                if k.arg in params:
                    bound[k.arg] = v
                else:
                    extra[k.arg] = v
        if f.args.kwarg is not None:
            bound[f.args.kwarg.arg] = extra
        self.env.update(bound)
        self.depth += 1
        ret_before, val_before = self.returned, self.retval
        self.retval = None
        try:
            body = [x for x in f.body if not (isinstance(x, ast.Expr) and isinstance(x.value, ast.Constant))]
            try:
                self._block(body, None)
            except Stop:
                pass
            out = self.retval
        finally:
            self.depth -= 1
            self.returned, self.retval = ret_before, val_before
            for k in list(self.env):
                if not k.startswith("self.") and k not in saved:
                    del self.env[k]
            for k, v in saved.items():
                if not k.startswith("self."):
                    self.env[k] = v
        return out

    def truth(self, v):
        if isinstance(v, tuple) and v and v[0] == "sym":
            raise AnalysisError("decision table: truth value of symbolic `%s` needed" % v[1])
        return bool(v)

    def run(self, stmts, stop_at=None):
        try:
            self._block(stmts, stop_at)
        except Stop:
            pass
        return self

    def _scan_calls(self, node):
        """Record constructor calls of interest and inline same-class helper methods found anywhere in `node`."""
        for c in ast.walk(node):
            if not isinstance(c, ast.Call):
                continue
            d = pyfront.call_name(c) or ""
            if d in self.record:
                kw = {}
                for k in c.keywords:
                    try:
                        kw[k.arg] = self.ev(k.value)
                    except AnalysisError:
                        kw[k.arg] = ("sym", ast.unparse(k.value))
                self.built.append(("<expr>", d, kw, c))
            elif d.startswith("self.") and d[5:] in self.methods and self.depth < 3:
                f = self.methods[d[5:]]
                saved = dict(self.env)
                params = [a.arg for a in f.args.args if a.arg != "self"]
                for p_, a_ in zip(params, c.args):
                    try:
                        self.env[p_] = self.ev(a_)
                    except AnalysisError:
                        self.env[p_] = ("sym", ast.unparse(a_))
                self.depth += 1
                ret_before = self.returned
                try:
                    body = [x for x in f.body if not (isinstance(x, ast.Expr) and isinstance(x.value, ast.Constant))]
                    try:
                        self._block(body, None)
                    except Stop:
                        pass
                finally:
                    self.depth -= 1
                    self.returned = ret_before
                    for k in list(self.env):
                        if not k.startswith("self.") and k not in saved:
                            del self.env[k]
                    for k, v in saved.items():
                        if not k.startswith("self."):
                            self.env[k] = v

    def _block(self, stmts, stop_at):
        for s in stmts:
            if stop_at is not None and stop_at(s):
                raise Stop()
            if isinstance(s, ast.Expr) and isinstance(s.value, ast.Constant):
                continue
            if isinstance(s, ast.Assign) and len(s.targets) == 1 and isinstance(s.targets[0], ast.Name):
                if isinstance(s.value, ast.Call) and pyfront.call_name(s.value) in self.record:
                    kw = {}
                    for k in s.value.keywords:
                        try:
                            kw[k.arg] = self.ev(k.value)
                        except AnalysisError:
                            kw[k.arg] = ("sym", ast.unparse(k.value))
                    self.built.append((s.targets[0].id, pyfront.call_name(s.value), kw, s.value))
                    self.env[s.targets[0].id] = ("obj", s.targets[0].id)
                    continue
                try:
                    self.env[s.targets[0].id] = self.ev(s.value)
                except AnalysisError:
                    self._scan_calls(s.value)
                    self.env[s.targets[0].id] = ("sym", ast.unparse(s.value))
            elif isinstance(s, ast.Assign) and len(s.targets) == 1 and isinstance(s.targets[0], ast.Attribute):
                try:
                    self.env[pyfront.dotted(s.targets[0])] = self.ev(s.value)
                except AnalysisError:
                    self.env[pyfront.dotted(s.targets[0])] = ("sym", ast.unparse(s.value))
            elif isinstance(s, ast.If):
                if self.truth(self.ev(s.test)):
                    self._block(s.body, stop_at)
                else:
                    self._block(s.orelse, stop_at)
            elif isinstance(s, ast.Return):
                if s.value is not None:
                    try:
                        self.retval = self.ev(s.value)
                    except AnalysisError:
                        self._scan_calls(s.value)
                        self.retval = ("sym", ast.unparse(s.value))
                self.returned = True
                raise Stop()
            elif isinstance(s, ast.Assign) and len(s.targets) == 1 and isinstance(s.targets[0], (ast.Tuple, ast.List)):
                try:
                    v = self.ev(s.value)
                except AnalysisError:
                    v = None
                tg = s.targets[0].elts
                for i, t in enumerate(tg):
                    key = t.id if isinstance(t, ast.Name) else pyfront.dotted(t)
                    if key is None:
                        continue
                    self.env[key] = v[i] if isinstance(v, list) and len(v) == len(tg) else ("sym", ast.unparse(s.value))
            elif isinstance(s, ast.For):
                try:
                    items = self.ev(s.iter)
                except AnalysisError:
                    items = None
                if not isinstance(items, list):
                    raise Stop()
                broke = False
                for it_ in items:
                    if isinstance(s.target, ast.Name):
                        self.env[s.target.id] = it_
                    try:
                        self._block(s.body, stop_at)
                    except _Break:
                        broke = True
                        break
                    except _Continue:
                        continue
                if not broke:
                    self._block(s.orelse, stop_at)
            elif isinstance(s, ast.Break):
                raise _Break()
            elif isinstance(s, ast.Continue):
                raise _Continue()
            elif isinstance(s, ast.Raise):
                self.raised = True
                raise Stop()
            elif isinstance(s, ast.Expr) and isinstance(s.value, ast.Call):
                c = s.value
                if isinstance(c.func, ast.Attribute) and c.func.attr == "append" and isinstance(c.func.value, ast.Name):
                    v = c.args[0]
                    val = None
                    if isinstance(v, (ast.Call, ast.Name)):
                        try:
                            val = self.ev(v)
                        except AnalysisError:
                            val = None
                    name = pyfront.dotted(v) or ast.unparse(v)
                    if isinstance(v, ast.Name) and isinstance(val, tuple) and len(val) == 2 and val[0] == "sym" and val[1] != v.id:
                        name = val[1]       # a local holding a named constant: record the constant
                    self.appends.setdefault(c.func.value.id, []).append(name)
                    if isinstance(self.env.get(c.func.value.id), list):
                        self.env[c.func.value.id] = self.env[c.func.value.id] + [name]
                else:
                    self.calls.append(c)
                    self._scan_calls(c)
            elif isinstance(s, (ast.ClassDef, ast.FunctionDef, ast.Pass)):
                continue
            else:
                raise Stop()
