"""Propositional structure of C conditions: formula trees over canonical atoms and truth-table equivalence.

Formulas: ("atom", text) | ("not", f) | ("and", f, g) | ("or", f, g) | ("true",) | ("false",)
Canonical atoms (so that equivalent spellings give the same atom):
    a < b   -> atom "b>a"          a <= b -> not atom "a>b"        a >= b -> not atom "b>a"
    a != b  -> not atom "a==b" (operands sorted)
    E == 0 / !E -> not truth(E);   E != 0 / E -> truth(E);   E > 0 with E unsigned -> truth(E)
Calls to library helpers whose body is a single `return <expr>;` are inlined with parameters replaced by arguments.
This is a finite, purely syntactic equivalence (at most 2**16 rows); it never executes the code.
"""
from __future__ import annotations

import itertools
import re

from .core import AnalysisError


def _text(node, env):
    t = re.sub(r"\s", "", node.nsrc)
    if env:
        def rep(m):
            return env.get(m.group(0), m.group(0))
        t = re.sub(r"[A-Za-z_][A-Za-z_0-9]*", rep, t)
    # drop redundant outer parentheses
    while t.startswith("(") and t.endswith(")") and _balanced(t[1:-1]):
        t = t[1:-1]
    return t


def _balanced(t):
    d = 0
    for ch in t:
        if ch == "(":
            d += 1
        elif ch == ")":
            d -= 1
            if d < 0:
                return False
    return d == 0


def _unsigned(node):
    t = node.type or ""
    return "unsigned" in t or t.startswith("uint") or t in ("size_t", "hsize_t")


def truth(node, env=None, depth=0):
    """formula for `node` used as a condition"""
    env = env or {}
    s = node.strip(casts=True)
    if s.kind == "UnaryOperator" and s.opcode == "!":
        return ("not", truth(s.children[0], env, depth))
    if s.kind == "BinaryOperator" and s.opcode in ("&&", "||"):
        return ("and" if s.opcode == "&&" else "or", truth(s.children[0], env, depth), truth(s.children[1], env, depth))
    if s.kind == "BinaryOperator" and s.opcode in ("==", "!=", "<", ">", "<=", ">="):
        a, b = s.children[0].strip(casts=True), s.children[1].strip(casts=True)
        az, bz = a.intval() == 0 and a.kind == "IntegerLiteral", b.intval() == 0 and b.kind == "IntegerLiteral"
        if s.opcode in ("==", "!=") and (az or bz):
            f = truth(a if bz else b, env, depth)
            return ("not", f) if s.opcode == "==" else f
        if s.opcode == ">" and bz and _unsigned(a):
            return truth(a, env, depth)
        if s.opcode == "<" and az and _unsigned(b):
            return truth(b, env, depth)
        env_ = env or _arith_env(s)
        ta, tb = _text(a, env_), _text(b, env_)
        if s.opcode == ">":
            return ("atom", "%s>%s" % (ta, tb))
        if s.opcode == "<":
            return ("atom", "%s>%s" % (tb, ta))
        if s.opcode == "<=":
            return ("not", ("atom", "%s>%s" % (ta, tb)))
        if s.opcode == ">=":
            return ("not", ("atom", "%s>%s" % (tb, ta)))
        x, y = sorted([ta, tb])
        f = ("atom", "%s==%s" % (x, y))
        return f if s.opcode == "==" else ("not", f)
    if s.kind == "CallExpr" and s.callee in s.tu.functions and depth < 3:
        callee = s.tu.functions[s.callee]
        body = [c for c in callee.children if c.kind == "CompoundStmt"]
        stmts = [c for c in body[0].children] if body else []
        if len(stmts) == 1 and stmts[0].kind == "ReturnStmt" and stmts[0].children:
            ps = [p.name for p in callee.children if p.kind == "ParmVarDecl"]
            env2 = {p: "(" + _text(a, env) + ")" if not re.match(r"^[\w>.\-\[\]]+$", _text(a, env)) else _text(a, env)
                    for p, a in zip(ps, s.args)}
            return truth(stmts[0].children[0], env2, depth + 1)
    if s.kind == "IntegerLiteral":
        return ("true",) if s.intval() else ("false",)
    if s.kind == "DeclRefExpr" and depth < 3 and not env:
        # a named condition: a local defined exactly once by a boolean expression (`const int in_file = a > b && c > d;`) stands for it
        d = _single_boolean_def(s)
        if d is not None:
            return truth(d, env, depth + 1)
    return ("atom", _text(s, env or _arith_env(s)))


def atom_text(node):
    """the text `truth` uses for an operand / an atom made of `node` (temporaries spelled out)"""
    return _text(node, _arith_env(node))


def comparison_nodes(cond, depth=0):
    """the comparison nodes of a condition, looking through named conditions (see truth)"""
    for c in cond.walk():
        if c.kind == "BinaryOperator" and c.opcode in ("<", ">", "<=", ">=", "==", "!="):
            yield c
        elif c.kind == "DeclRefExpr" and depth < 3:
            d = _single_boolean_def(c)
            if d is not None:
                for x in comparison_nodes(d, depth + 1):
                    yield x


_ARITH_ENV = {}


def _arith_env(node):
    """{local: "(text of its definition)"} for the locals of the enclosing function that are defined exactly once by a call-free
    arithmetic expression (a temporary such as `prev_block_end = prev_sample + (this_index - prev_index)`): atoms are spelled with
    the definition, so that a condition written with the temporary and one written without it have the same atoms"""
    fn = node
    while fn is not None and fn.kind != "FunctionDecl":
        fn = fn.parent
    if fn is None:
        return {}
    key = id(fn)
    if key in _ARITH_ENV:
        return _ARITH_ENV[key]
    params = {p.name for p in fn.children if p.kind == "ParmVarDecl"}
    cands = {}
    for d in fn.find("VarDecl"):
        if d.name and d.children and d.children[-1].kind != "InitListExpr":
            cands.setdefault(d.name, []).append(d.children[-1])
    for x in fn.walk():
        if x.kind == "BinaryOperator" and x.opcode in ("=", "+=", "-=", "*=", "/=", "%=", "|=", "&=") and x.children:
            t = x.children[0].strip(casts=True)
            if t.kind == "DeclRefExpr" and t.path():
                cands.setdefault(t.path(), []).append(x.children[1] if x.opcode == "=" else None)
        elif x.kind == "UnaryOperator" and x.opcode in ("++", "--", "&") and x.children:
            t = x.children[0].strip(casts=True)
            if t.kind == "DeclRefExpr" and t.path():
                cands.setdefault(t.path(), []).append(None)
    env = {}
    for name, ds in cands.items():
        if name in params or len(ds) != 1 or ds[0] is None:
            continue
        e = ds[0].strip(casts=True)
        if e.kind not in ("BinaryOperator", "ParenExpr") or any(y.kind in ("CallExpr", "ConditionalOperator") for y in e.walk()):
            continue
        if e.kind == "BinaryOperator" and e.opcode not in ("+", "-", "*"):
            continue
        if any(y.kind == "DeclRefExpr" and y.path() == name for y in e.walk()):
            continue
        env[name] = "(" + re.sub(r"\s", "", e.nsrc) + ")"
    _ARITH_ENV[key] = env
    return env


def _single_boolean_def(ref):
    name = ref.path()
    fn = ref
    while fn is not None and fn.kind != "FunctionDecl":
        fn = fn.parent
    if fn is None or not name:
        return None
    if any(p.kind == "ParmVarDecl" and p.name == name for p in fn.children):
        return None
    defs = [d.children[-1] for d in fn.find("VarDecl") if d.name == name and d.children and d.children[-1].kind != "InitListExpr"]
    for x in fn.walk():
        if x.kind == "BinaryOperator" and x.opcode in ("=", "+=", "-=", "|=", "&=") and x.children and x.children[0].strip(casts=True).kind == "DeclRefExpr" \
                and x.children[0].strip(casts=True).path() == name:
            defs.append(x.children[1] if x.opcode == "=" else None)
        elif x.kind == "UnaryOperator" and x.opcode in ("++", "--", "&") and x.children and x.children[0].strip(casts=True).kind == "DeclRefExpr" \
                and x.children[0].strip(casts=True).path() == name:
            defs.append(None)
    if len(defs) != 1 or defs[0] is None:
        return None
    t = defs[0].strip(casts=True)
    while t.kind == "ParenExpr" and t.children:
        t = t.children[0].strip(casts=True)
    if (t.kind == "BinaryOperator" and t.opcode in ("&&", "||", "==", "!=", "<", ">", "<=", ">=")) or (t.kind == "UnaryOperator" and t.opcode == "!"):
        return defs[0]
    return None


def conj(fs):
    out = ("true",)
    for f in fs:
        out = f if out == ("true",) else ("and", out, f)
    return out


def disj(fs):
    out = ("false",)
    for f in fs:
        out = f if out == ("false",) else ("or", out, f)
    return out


def atoms(f, acc=None):
    acc = set() if acc is None else acc
    if f[0] == "atom":
        acc.add(f[1])
    else:
        for x in f[1:]:
            atoms(x, acc)
    return acc


def ev(f, val):
    k = f[0]
    if k == "atom":
        return val[f[1]]
    if k == "not":
        return not ev(f[1], val)
    if k == "and":
        return ev(f[1], val) and ev(f[2], val)
    if k == "or":
        return ev(f[1], val) or ev(f[2], val)
    return k == "true"


def equivalent(f, g):
    """(True, None) or (False, witness assignment {atom: bool})"""
    names = sorted(atoms(f) | atoms(g))
    if len(names) > 16:
        raise AnalysisError("condition too large for the truth table (%d atoms)" % len(names))
    for bits in itertools.product((False, True), repeat=len(names)):
        val = dict(zip(names, bits))
        if ev(f, val) != ev(g, val):
            return False, val
    return True, None


def show(f):
    k = f[0]
    if k == "atom":
        return f[1]
    if k == "not":
        return "!(" + show(f[1]) + ")"
    if k in ("and", "or"):
        return "(" + show(f[1]) + (" && " if k == "and" else " || ") + show(f[2]) + ")"
    return k


def path_condition(node, stop):
    """conjunction of the conditions of the IfStmt ancestors of `node` (up to `stop`), each in the polarity of the branch"""
    fs = []
    for a in node.ancestors():
        if a is stop:
            break
        if a.kind == "IfStmt":
            inthen = a.children[1].begin <= node.begin and node.end <= a.children[1].end
            f = truth(a.children[0])
            fs.append(f if inthen else ("not", f))
        elif a.kind == "ConditionalOperator":
            inthen = a.children[1].begin <= node.begin and node.end <= a.children[1].end
            incond = a.children[0].begin <= node.begin and node.end <= a.children[0].end
            if not incond:
                f = truth(a.children[0])
                fs.append(f if inthen else ("not", f))
    return conj(list(reversed(fs)))
