"""Python front-end: ast index of the digital_rf package, helpers for rules."""
from __future__ import annotations

import ast
import os

from .core import AnalysisError, REPO, PY_PKG, norm
from . import cfg as _cfg

MODULES = ("digital_rf_hdf5", "digital_metadata", "list_drf", "ringbuffer", "mirror", "watchdog_drf",
           "util", "drf_command", "__init__")


class Module(object):
    def __init__(self, name, path, rel, rename=None):
        self.name = name
        self.path = path
        self.rel = rel
        self.renamed = dict(rename or {})     # {name in the source: reference name} applied by pynorm (private anchors found by role)
        with open(path, "r", encoding="utf-8") as f:
            self.text = f.read()
        try:
            self.tree = ast.parse(self.text, filename=path)
        except SyntaxError as e:
            raise AnalysisError("cannot parse %s: %s" % (rel, e))
        from . import pynorm
        pynorm.lower_ifexp(self.tree)
        if rename:
            pynorm.apply(self.tree, rename)
        self.lines = self.text.splitlines()
        self.parents = {}
        for n in ast.walk(self.tree):
            for c in ast.iter_child_nodes(n):
                self.parents[c] = n
        self.functions = {}  # qualname -> FunctionDef
        self.classes = {}
        self._index(self.tree, "")
        self._cfgs = {}

    def _index(self, node, prefix):
        for c in ast.iter_child_nodes(node):
            if isinstance(c, (ast.FunctionDef, ast.AsyncFunctionDef)):
                q = prefix + c.name
                self.functions[q] = c
                self._index(c, q + ".<locals>.")
            elif isinstance(c, ast.ClassDef):
                q = prefix + c.name
                self.classes[q] = c
                self._index(c, q + ".")
            elif isinstance(c, (ast.If, ast.Try, ast.With, ast.For, ast.While)):
                self._index(c, prefix)

    def fn(self, qualname):
        if qualname not in self.functions:
            raise AnalysisError("anchor function %s not found in %s" % (qualname, self.rel))
        return self.functions[qualname]

    def cls(self, name):
        if name not in self.classes:
            raise AnalysisError("anchor class %s not found in %s" % (name, self.rel))
        return self.classes[name]

    def cfg(self, qualname):
        if qualname not in self._cfgs:
            self._cfgs[qualname] = _cfg.build_py(self.fn(qualname))
        return self._cfgs[qualname]

    def flat(self, qualname, keep=(), depth=3):
        """view of one function with private same-module helpers inlined (see pyinline)"""
        from . import pyinline
        return pyinline.flatten(self, qualname, keep, depth)

    def src(self, node):
        try:
            return ast.get_source_segment(self.text, node) or ast.unparse(node)
        except Exception:
            return ast.unparse(node)

    def qualname_of(self, node):
        """Qualified name of the function enclosing `node`."""
        names = []
        p = self.parents.get(node)
        while p is not None:
            if isinstance(p, (ast.FunctionDef, ast.AsyncFunctionDef, ast.ClassDef)):
                names.append(p.name)
            p = self.parents.get(p)
        return ".".join(reversed(names))

    def enclosing(self, node, kinds):
        p = self.parents.get(node)
        while p is not None:
            if isinstance(p, kinds):
                return p
            p = self.parents.get(p)
        return None

    def methods(self, clsname):
        c = self.cls(clsname)
        return {n.name: n for n in c.body if isinstance(n, (ast.FunctionDef, ast.AsyncFunctionDef))}

    def module_assign(self, name):
        """Value expression of the (last) module-level assignment NAME = expr."""
        val = None
        for s in self.tree.body:
            if isinstance(s, ast.Assign):
                for t in s.targets:
                    if isinstance(t, ast.Name) and t.id == name:
                        val = s.value
        return val


_PKG = {}


def package(repo=None):
    repo = repo or REPO
    if repo in _PKG:
        return _PKG[repo]
    base = os.path.join(repo, PY_PKG)
    if not os.path.isdir(base):
        raise AnalysisError("package directory %s not found" % base)
    mods = {}
    for m in MODULES:
        p = os.path.join(base, m + ".py")
        if not os.path.exists(p):
            raise AnalysisError("module %s.py not found in %s" % (m, base))
        mods[m] = Module(m, p, os.path.join(PY_PKG, m + ".py"))
    # private anchors are found by role and given their reference names (pynorm); a no-op on the reference tree
    from . import pynorm
    ren = pynorm.mapping({k: v.tree for k, v in mods.items()})
    if ren:
        mods = {m: Module(m, v.path, v.rel, rename=ren) for m, v in mods.items()}
    _PKG[repo] = mods
    return mods


def mod(name, repo=None):
    return package(repo)[name]


# ---------------------------------------------------------------------------
# small ast helpers
# ---------------------------------------------------------------------------

def dotted(node):
    """'a.b.c' for Name/Attribute chains, else None."""
    parts = []
    while isinstance(node, ast.Attribute):
        parts.append(node.attr)
        node = node.value
    if isinstance(node, ast.Name):
        parts.append(node.id)
        return ".".join(reversed(parts))
    if isinstance(node, ast.Call):
        # super(X, self).m -> 'super().m'
        if isinstance(node.func, ast.Name) and node.func.id == "super":
            parts.append("super()")
            return ".".join(reversed(parts))
    return None


def call_name(call):
    return dotted(call.func) if isinstance(call, ast.Call) else None


def calls_in(node, names=None):
    out = []
    for n in ast.walk(node):
        if isinstance(n, ast.Call):
            d = call_name(n)
            if names is None or d in names:
                out.append(n)
    return out


def walk_no_nested(node):
    """ast.walk that does not descend into nested function/class/lambda definitions (but yields them)."""
    stack = [node]
    first = True
    while stack:
        n = stack.pop()
        yield n
        if not first and isinstance(n, (ast.FunctionDef, ast.AsyncFunctionDef, ast.ClassDef, ast.Lambda)):
            continue
        first = False
        stack.extend(reversed(list(ast.iter_child_nodes(n))))


def const(node):
    if isinstance(node, ast.Constant):
        return node.value
    return None


def int_const(e, module=None):
    """the int an expression stands for: a literal, or a module-level name bound once to an int literal (`_MS_PER_SEC = 1000`)"""
    v = const(e)
    if isinstance(v, int) and not isinstance(v, bool):
        return v
    if isinstance(e, ast.Name) and module is not None:
        d = module.module_assign(e.id)
        d = d.value if isinstance(d, ast.Assign) else d
        if isinstance(d, ast.Constant) and isinstance(d.value, int) and not isinstance(d.value, bool):
            return d.value
    return None


def kwarg(call, name, pos=None):
    for k in call.keywords:
        if k.arg == name:
            return k.value
    if pos is not None and len(call.args) > pos:
        return call.args[pos]
    return None


def self_stores(fn):
    """(attr, node) for every store to self.<attr> in fn (Assign / AugAssign / AnnAssign / del / for target)."""
    out = []
    for n in walk_no_nested(fn):
        tgts = []
        if isinstance(n, ast.Assign):
            tgts = n.targets
        elif isinstance(n, (ast.AugAssign, ast.AnnAssign)):
            tgts = [n.target]
        elif isinstance(n, ast.Delete):
            tgts = n.targets
        elif isinstance(n, (ast.For, ast.AsyncFor)):
            tgts = [n.target]
        elif isinstance(n, (ast.With, ast.AsyncWith)):
            tgts = [i.optional_vars for i in n.items if i.optional_vars is not None]
        for t in tgts:
            for sub in ast.walk(t):
                if isinstance(sub, ast.Attribute) and isinstance(sub.value, ast.Name) and sub.value.id == "self" \
                        and isinstance(sub.ctx, (ast.Store, ast.Del)):
                    out.append((sub.attr, n))
    return out


def names_in(node):
    return {n.id for n in ast.walk(node) if isinstance(n, ast.Name)}


def stmt_nodes(g, pred):
    """CFG nodes whose ast satisfies pred (searching inside the statement's expression tree)."""
    out = []
    for n in g.nodes:
        if n.ast is None or n.kind in ("join",):
            continue
        a = n.ast
        if isinstance(a, ast.withitem):
            a = a.context_expr
        try:
            if pred(n, a):
                out.append(n)
        except Exception:
            raise
    return out


def node_calls(n):
    """ast.Call nodes evaluated by CFG node n (not descending into nested defs/lambdas; for `For`
    heads nothing; for compound statement heads only the head expression)."""
    a = n.ast
    if a is None:
        return []
    if isinstance(a, ast.withitem):
        a = a.context_expr
    if isinstance(a, (ast.For, ast.AsyncFor, ast.FunctionDef, ast.AsyncFunctionDef, ast.ClassDef, ast.ExceptHandler,
                      ast.With, ast.AsyncWith)):
        return []
    return [x for x in walk_no_nested(a) if isinstance(x, ast.Call)]
