"""Program normalisation for the Python package: private functions and methods that rules name are found by *role* and, when
they carry another name today, renamed to the name they have on the reference tree (in every module, definitions and
references alike) before the rules run - the Python counterpart of the parameter normalisation of cinline.  A role that does not
resolve to exactly one function renames nothing; the rule then reports the anchor it cannot find (exit 2).  Public API names
are anchors by name and are never touched.

Roles (reference name <- how it is found):
  digital_rf_hdf5
    _top_level_dir_properties   the private class that owns the method below
    <that class>._read          the one method of it called on an object from both DigitalRFReader.read and .get_continuous_blocks
    <that class>._get_bounds    the one method of it called on an object from DigitalRFReader.get_bounds
    DigitalRFReader._get_file_list   the private method / function reached from both read and get_continuous_blocks whose body holds
                                     the data-file name format (a string constant containing "rf@")
    DigitalRFReader._combine_blocks  the other private method reached from both
  list_drf (through drf_command)
    _build_<cmd>_parser         the function drf_command.main calls as f(subparsers.add_parser, "<cmd>") for cp / ln / ls / mv
    _run_<cmd>                  the function that builder names in set_defaults(func=...)"""
from __future__ import annotations

import ast


def _private(n):
    return n.startswith("_") and not n.startswith("__")


def _methods(cls):
    return {m.name: m for m in cls.body if isinstance(m, (ast.FunctionDef, ast.AsyncFunctionDef))}


def _called_attrs(fn, on_self):
    """names m of calls <obj>.m(...) in fn: on `self` / the class (on_self=True) or on any other object (False)"""
    out = set()
    for c in ast.walk(fn):
        if isinstance(c, ast.Call) and isinstance(c.func, ast.Attribute):
            base = c.func.value
            is_self = isinstance(base, ast.Name) and base.id in ("self", "cls", "DigitalRFReader")
            if is_self == on_self:
                out.add(c.func.attr)
    return out


def _hdf5_roles(tree):
    ren = {}
    classes = {c.name: c for c in tree.body if isinstance(c, ast.ClassDef)}
    rd = classes.get("DigitalRFReader")
    priv = [c for n, c in classes.items() if _private(n)]
    if rd is None:
        return ren
    rm = _methods(rd)
    read, gcb, gb = rm.get("read"), rm.get("get_continuous_blocks"), rm.get("get_bounds")
    if read is not None and gcb is not None:
        shared = {n for n in _called_attrs(read, False) & _called_attrs(gcb, False) if _private(n)}
        owners = [(c, n) for c in priv for n in shared if n in _methods(c)]
        if len(owners) == 1:
            pc, n = owners[0]
            if pc.name != "_top_level_dir_properties":
                ren[pc.name] = "_top_level_dir_properties"
            if n != "_read":
                ren[n] = "_read"
            if gb is not None:
                one = {x for x in _called_attrs(gb, False) & set(_methods(pc)) if _private(x)}
                if len(one) == 1:
                    x = one.pop()
                    if x != "_get_bounds":
                        ren[x] = "_get_bounds"
    if read is not None and gcb is not None:
        both = {n for n in _called_attrs(read, True) & _called_attrs(gcb, True) if _private(n) and n in rm}
        fmt = {n for n in both if any(isinstance(x, ast.Constant) and isinstance(x.value, str) and "rf@" in x.value for x in ast.walk(rm[n]))}
        rest = both - fmt
        if len(fmt) == 1:
            n = list(fmt)[0]
            if n != "_get_file_list":
                ren[n] = "_get_file_list"
        if len(rest) == 1 and len(fmt) == 1:
            n = list(rest)[0]
            if n != "_combine_blocks":
                ren[n] = "_combine_blocks"
    return ren


def _cli_roles(cmd_tree, list_tree):
    ren = {}
    lfuncs = {f.name: f for f in list_tree.body if isinstance(f, ast.FunctionDef)}
    for c in ast.walk(cmd_tree):
        if isinstance(c, ast.Call) and isinstance(c.func, ast.Name) and len(c.args) == 2 and isinstance(c.args[1], ast.Constant) \
                and c.args[1].value in ("cp", "ln", "ls", "mv") and isinstance(c.args[0], ast.Attribute) and c.args[0].attr == "add_parser":
            cmd = c.args[1].value
            b = c.func.id
            if b not in lfuncs:
                continue
            if b != "_build_%s_parser" % cmd:
                ren[b] = "_build_%s_parser" % cmd
            runs = [k.value.id for d in ast.walk(lfuncs[b]) if isinstance(d, ast.Call) and isinstance(d.func, ast.Attribute)
                    and d.func.attr == "set_defaults" for k in d.keywords if k.arg == "func" and isinstance(k.value, ast.Name)]
            if len(runs) == 1 and runs[0] in lfuncs and runs[0] != "_run_%s" % cmd:
                ren[runs[0]] = "_run_%s" % cmd
    return ren


def mapping(trees):
    """{current name: reference name} over the whole package ({module name: ast.Module})"""
    ren = {}
    if "digital_rf_hdf5" in trees:
        ren.update(_hdf5_roles(trees["digital_rf_hdf5"]))
    if "drf_command" in trees and "list_drf" in trees:
        ren.update(_cli_roles(trees["drf_command"], trees["list_drf"]))
    # never rename onto a name that is already in use for something else, nor a name that is also used as data
    used = set()
    for t in trees.values():
        for n in ast.walk(t):
            if isinstance(n, (ast.FunctionDef, ast.ClassDef)):
                used.add(n.name)
            elif isinstance(n, ast.Attribute):
                used.add(n.attr)
            elif isinstance(n, ast.Name):
                used.add(n.id)
    ren = {k: v for k, v in ren.items() if v not in used}
    if len(set(ren.values())) != len(ren):
        return {}
    return ren


def apply(tree, ren):
    if not ren:
        return tree
    for n in ast.walk(tree):
        if isinstance(n, (ast.FunctionDef, ast.AsyncFunctionDef, ast.ClassDef)) and n.name in ren:
            n.name = ren[n.name]
        elif isinstance(n, ast.Attribute) and n.attr in ren:
            n.attr = ren[n.attr]
        elif isinstance(n, ast.Name) and n.id in ren:
            n.id = ren[n.id]
        elif isinstance(n, ast.alias) and n.name in ren:
            n.name = ren[n.name]
    return tree


class _LowerIfExp(ast.NodeTransformer):
    """`x = A if c else B` and `return A if c else B` at statement level are the if / else they abbreviate (same evaluation order:
    the test, then the chosen arm): rewritten before any rule sees the tree, so that guards and flags are recognised in one form.
    A no-op on the reference tree (it has no such statement)."""

    def _lower(self, node, make):
        v = node.value
        if not isinstance(v, ast.IfExp):
            return node
        a = make(v.body)
        b = make(v.orelse)
        new = ast.If(test=v.test, body=[a], orelse=[b])
        for x in (a, b, new):
            ast.copy_location(x, node)
        # nested conditional expressions in the arms
        new.body = [self.visit(a)] if not isinstance(self.visit(a), list) else self.visit(a)
        new.orelse = [self.visit(b)] if not isinstance(self.visit(b), list) else self.visit(b)
        return new

    def visit_Assign(self, node):
        self.generic_visit(node)
        if len(node.targets) == 1 and isinstance(node.targets[0], (ast.Name, ast.Attribute)) and isinstance(node.value, ast.IfExp):
            import copy
            return self._lower(node, lambda arm: ast.Assign(targets=[copy.deepcopy(node.targets[0])], value=arm, type_comment=None))
        return node

    def visit_Return(self, node):
        self.generic_visit(node)
        if isinstance(node.value, ast.IfExp):
            return self._lower(node, lambda arm: ast.Return(value=arm))
        return node

    def visit_Lambda(self, node):
        return node


class _LowerSuppress(ast.NodeTransformer):
    """`with contextlib.suppress(E1, ...): BODY` is `try: BODY except (E1, ...): pass` (the context manager's documented meaning):
    rewritten at module load so that error-containment rules see one form.  A no-op on the reference tree."""

    def visit_With(self, node):
        self.generic_visit(node)
        if len(node.items) == 1 and node.items[0].optional_vars is None:
            ce = node.items[0].context_expr
            if isinstance(ce, ast.Call) and not ce.keywords and ce.args and not any(isinstance(a, ast.Starred) for a in ce.args):
                f = ce.func
                name = f.attr if isinstance(f, ast.Attribute) and isinstance(f.value, ast.Name) and f.value.id == "contextlib" else (
                    f.id if isinstance(f, ast.Name) else None)
                if name == "suppress":
                    typ = ce.args[0] if len(ce.args) == 1 else ast.Tuple(elts=list(ce.args), ctx=ast.Load())
                    h = ast.ExceptHandler(type=typ, name=None, body=[ast.copy_location(ast.Pass(), node)])
                    new = ast.Try(body=node.body, handlers=[ast.copy_location(h, node)], orelse=[], finalbody=[])
                    return ast.copy_location(new, node)
        return node


def lower_ifexp(tree):
    _LowerSuppress().visit(tree)
    _LowerIfExp().visit(tree)
    ast.fix_missing_locations(tree)
    return tree
