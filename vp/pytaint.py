"""Float-taint analysis for Python functions (exactness of integer arithmetic).

Abstract value of an expression: 'F' (derived through floating point: true division, float literal,
np.longdouble/float(), a name/attribute known to hold a float, or any operation on an F value -- F is sticky
through int()/np.uint64() conversions because the rounding already happened), 'E' (exact integer arithmetic on
exact inputs) or 'U' (unknown).  Every module of the package has `from __future__ import division`, so `/` on
integers is true division.  Flow-insensitive fixpoint over the assignments of one function.
"""
from __future__ import annotations

import ast

from . import pyfront

FLOAT_CTORS = {"float", "np.longdouble", "np.float64", "np.float32", "np.double", "np.float128", "numpy.longdouble"}
FLOAT_FUNCS = {"np.ceil", "np.floor", "np.round", "np.rint", "math.ceil", "math.floor", "np.true_divide", "np.divide",
               "math.sqrt", "np.sqrt"}
EXACT_CONV = {"int", "np.uint64", "np.int64", "np.uint32", "np.int32", "long", "abs", "np.arange", "range", "len",
              "max", "min", "sum", "divmod"}


def join(a, b):
    if "F" in (a, b):
        return "F"
    if a == b:
        return a
    return "U"


class Taint(object):
    def __init__(self, fn, float_names=(), float_attrs=(), float_keys=(), exact_names=()):
        self.fn = fn
        self.float_names = set(float_names)
        self.float_attrs = set(float_attrs)  # self.<attr>
        self.float_keys = set(float_keys)  # subscripts with these constant keys, e.g. props["samples_per_second"]
        self.env = {}
        for a in fn.args.args + fn.args.kwonlyargs:
            self.env[a.arg] = "F" if a.arg in self.float_names else "E"
        self.why = {}
        changed = True
        it = 0
        while changed and it < 50:
            changed = False
            it += 1
            for n in pyfront.walk_no_nested(fn):
                pairs = []
                if isinstance(n, ast.Assign):
                    for t in n.targets:
                        pairs.append((t, n.value))
                elif isinstance(n, ast.AugAssign):
                    pairs.append((n.target, ast.BinOp(left=n.target, op=n.op, right=n.value)))
                elif isinstance(n, (ast.For, ast.AsyncFor)):
                    pairs.append((n.target, n.iter))
                elif isinstance(n, ast.comprehension):
                    pairs.append((n.target, n.iter))
                for t, v in pairs:
                    tv = self.expr(v)
                    for name in self._targets(t):
                        old = self.env.get(name)
                        new = tv if old is None else join(old, tv)
                        if new != old:
                            self.env[name] = new
                            if new == "F" and name not in self.why:
                                self.why[name] = v
                            changed = True

    def _targets(self, t):
        if isinstance(t, ast.Name):
            return [t.id]
        if isinstance(t, (ast.Tuple, ast.List)):
            out = []
            for e in t.elts:
                out.extend(self._targets(e))
            return out
        if isinstance(t, ast.Attribute):
            d = pyfront.dotted(t)
            return [d] if d else []
        return []

    def expr(self, e):
        if isinstance(e, ast.Constant):
            if isinstance(e.value, bool) or isinstance(e.value, int):
                return "E"
            if isinstance(e.value, float):
                return "F"
            return "U"
        if isinstance(e, ast.Name):
            if e.id in self.float_names:
                return "F"
            return self.env.get(e.id, "U")
        if isinstance(e, ast.Attribute):
            d = pyfront.dotted(e)
            if d and d.startswith("self.") and d[5:] in self.float_attrs:
                return "F"
            if d in self.env:
                return self.env[d]
            return "U"
        if isinstance(e, ast.Subscript):
            k = pyfront.const(e.slice)
            if k in self.float_keys:
                return "F"
            return self.expr(e.value)
        if isinstance(e, ast.BinOp):
            if isinstance(e.op, ast.Div):
                return "F"
            a, b = self.expr(e.left), self.expr(e.right)
            if isinstance(e.op, ast.Mod) and isinstance(e.left, ast.Constant) and isinstance(e.left.value, str):
                return "U"  # string formatting
            return join(a, b) if (a, b) != ("E", "E") else "E"
        if isinstance(e, ast.UnaryOp):
            return self.expr(e.operand)
        if isinstance(e, ast.IfExp):
            return join(self.expr(e.body), self.expr(e.orelse))
        if isinstance(e, (ast.Tuple, ast.List)):
            out = "E"
            for x in e.elts:
                out = join(out, self.expr(x)) if out != "E" or self.expr(x) != "E" else "E"
            return out
        if isinstance(e, ast.Call):
            d = pyfront.call_name(e) or ""
            args = [self.expr(a) for a in e.args] + [self.expr(k.value) for k in e.keywords]
            if d in FLOAT_CTORS or d in FLOAT_FUNCS:
                return "F"
            if "F" in args:
                return "F"
            if d in EXACT_CONV:
                return "E" if args and all(a == "E" for a in args) else "U"
            if isinstance(e.func, ast.Attribute) and self.expr(e.func.value) == "F":
                return "F"
            return "U"
        if isinstance(e, ast.Lambda):
            return self.expr(e.body)
        if isinstance(e, (ast.GeneratorExp, ast.ListComp)):
            return self.expr(e.elt)
        return "U"

    def float_vars(self):
        return sorted(k for k, v in self.env.items() if v == "F")

    def is_source(self, e):
        """Does expression e itself introduce floating point (as opposed to inheriting it from a tainted name)?"""
        for x in ast.walk(e):
            if isinstance(x, ast.BinOp) and isinstance(x.op, ast.Div):
                return True
            if isinstance(x, ast.Constant) and isinstance(x.value, float):
                return True
            if isinstance(x, ast.Call) and (pyfront.call_name(x) or "") in (FLOAT_CTORS | FLOAT_FUNCS):
                return True
            if isinstance(x, ast.Name) and x.id in self.float_names:
                return True
            if isinstance(x, ast.Attribute):
                d = pyfront.dotted(x)
                if d and d.startswith("self.") and d[5:] in self.float_attrs:
                    return True
            if isinstance(x, ast.Subscript) and pyfront.const(x.slice) in self.float_keys:
                return True
        return False

    def root_float_vars(self):
        """Float-tainted variables whose defining expression introduces the floating point itself."""
        out = []
        for k in self.float_vars():
            w = self.why.get(k)
            if w is None or self.is_source(w):
                out.append(k)
        return out
